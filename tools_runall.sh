#!/bin/bash
# usage: tools_runall.sh <tier> [props...]   - runs the checks one after the other, one summary line each
tier=${1:-quick}; shift
props=${@:-C01 C02 C03 C04 C05 C06 C07 C08 C09 C10 C11 C12 C13 C14 C15 C16 C17 C18 C19}
mkdir -p runlogs
for p in $props; do
  s=$(date +%s)
  python3-vt -m cbv.check $p --tier $tier > runlogs/${tier}_$p.log 2>&1
  rc=$?
  echo "$p rc=$rc $(( $(date +%s) - s ))s viol=$(grep -c '^VIOLATION' runlogs/${tier}_$p.log) known=$(grep -c '^KNOWN-FINDING' runlogs/${tier}_$p.log) undecided=$(grep -c '^UNDECIDED' runlogs/${tier}_$p.log) err=$(grep -c '^CHECKER-ERROR' runlogs/${tier}_$p.log) | $(grep 'tier=' runlogs/${tier}_$p.log | tail -1 | cut -c1-120)"
done
