"""Re-run the recorded behaviour-preserving refactors (/verif/refactors/<id>/patch.diff) against the current machinery:
every quick check of every listed property must exit 0 (no alarm, no undecided group, no checker error).
usage: python3 tools_rerefactor.py [ids...]"""
import sys, os, json, subprocess, time
props = json.load(open('/verif/refactors/props.json'))
ids = sys.argv[1:] or sorted(props)
res = {}
for rid in ids:
    wt = '/tmp/rr_' + rid
    subprocess.run('git -C /repo worktree remove --force %s 2>/dev/null; git -C /repo worktree add --detach %s HEAD -q' % (wt, wt), shell=True)
    ap = subprocess.run('git apply /verif/refactors/%s/patch.diff' % rid, shell=True, cwd=wt, capture_output=True, text=True)
    if ap.returncode:
        print(rid, 'PATCH DOES NOT APPLY', ap.stderr[-200:])
        continue
    for p in props[rid]:
        t0 = time.time()
        r = subprocess.run('VERIF_EVIDENCE_DIR=/tmp/evid_mut REPO=%s python3-vt -m cbv.check %s --tier quick 2>&1 | grep -a "^VIOLATION\\|^UNDECIDED\\|^CHECKER-ERROR" | cut -c1-300; exit ${PIPESTATUS[0]}'
                           % (wt, p), shell=True, cwd='/verif', capture_output=True, text=True, executable='/bin/bash')
        res['%s/%s' % (rid, p)] = {'rc': r.returncode, 'lines': r.stdout.splitlines()[:5], 'seconds': round(time.time() - t0)}
        print(rid, p, 'rc=%d %ds' % (r.returncode, time.time() - t0), r.stdout[:200].replace('\n', ' | '))
        sys.stdout.flush()
    subprocess.run('git -C /repo worktree remove --force %s' % wt, shell=True)
json.dump(res, open('/verif/refactors/RESULTS.json', 'w'), indent=1)
print('clean %d / %d' % (len([1 for v in res.values() if v['rc'] == 0]), len(res)))
