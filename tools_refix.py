"""Revert each recorded `fix:` commit in a scratch worktree and re-run the property's quick check: a fixed entry suppresses
nothing, so the violation must be REPORTED again (exit 1 with a VIOLATION line, no KNOWN-FINDING line for it).
usage: python3 tools_refix.py"""
import json, subprocess, re, sys, time
fx = json.load(open('/verif/known_findings.json'))['fixed']
res = {}
for line in fx:
    m = re.match(r'fixed: property=(C\d+) ([0-9a-f]+) (.*)', line)
    prop, sha, what = m.group(1), m.group(2), m.group(3)
    wt = '/tmp/rx_' + sha
    subprocess.run('git -C /repo worktree remove --force %s 2>/dev/null; git -C /repo worktree add --detach %s HEAD -q' % (wt, wt), shell=True)
    ap = subprocess.run('git show %s | git apply -R' % sha, shell=True, cwd=wt, capture_output=True, text=True)
    if ap.returncode:
        print(prop, sha, 'REVERT DOES NOT APPLY', ap.stderr[-200:])
        subprocess.run('git -C /repo worktree remove --force %s' % wt, shell=True)
        continue
    t0 = time.time()
    r = subprocess.run('VERIF_EVIDENCE_DIR=/tmp/evid_mut REPO=%s python3-vt -m cbv.check %s --tier quick 2>&1 | grep -a "^VIOLATION\\|^UNDECIDED\\|^CHECKER-ERROR\\|^KNOWN" | cut -c1-260; exit ${PIPESTATUS[0]}'
                       % (wt, prop), shell=True, cwd='/verif', capture_output=True, text=True, executable='/bin/bash')
    viol = [l for l in r.stdout.splitlines() if l.startswith('VIOLATION')]
    res[sha] = {'property': prop, 'rc': r.returncode, 'violations': len(viol), 'first': (viol or [''])[0][:260], 'seconds': round(time.time() - t0)}
    print(prop, sha, 'rc=%d viol=%d %ds' % (r.returncode, len(viol), time.time() - t0), (viol or [''])[0][:160])
    sys.stdout.flush()
    subprocess.run('git -C /repo worktree remove --force %s' % wt, shell=True)
json.dump(res, open('/verif/seeded/REFIX_RESULTS.json', 'w'), indent=1)
print('re-detected %d / %d' % (len([1 for v in res.values() if v['rc'] == 1]), len(fx)))
