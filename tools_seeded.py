"""Bookkeeping for seeded changes: confirm a sub-agent's change in its scratch worktree, run the relevant check
against it (REPO=<worktree>), and file it under /verif/seeded/<id>/.
usage: python3 tools_seeded.py <worktree> <seed-id> <property> [tests...]"""
import sys, os, json, subprocess, shutil, time
wt, sid, prop = sys.argv[1], sys.argv[2], sys.argv[3]
tests = sys.argv[4:]
out = os.path.join('/verif/seeded', sid)
os.makedirs(out, exist_ok=True)
env = dict(os.environ, PYTHONPATH=wt, OMP_NUM_THREADS='2', MKL_NUM_THREADS='2', PYTHONWARNINGS='ignore')


def sh(cmd, cwd=wt, timeout=3600, env=env):
    p = subprocess.run(cmd, shell=True, cwd=cwd, capture_output=True, text=True, timeout=timeout, env=env)
    return p.returncode, (p.stdout + p.stderr)[-1500:]


meta = {'property': prop, 'worktree_base': sh('git rev-parse HEAD')[1].strip()}
rc, _ = sh('git diff --binary > patch.diff.new && test -s patch.diff.new')
shutil.copy(os.path.join(wt, 'patch.diff.new'), os.path.join(out, 'patch.diff'))
shutil.copy(os.path.join(wt, 'demo.py'), os.path.join(out, 'demo.py'))
meta['notes'] = open(os.path.join(wt, 'NOTES.txt')).read() if os.path.exists(os.path.join(wt, 'NOTES.txt')) else ''
# demo with the change
rc1, o1 = sh('/venv/bin/python demo.py')
# demo without
# (never git stash: the stash stack is shared between worktrees)
sh('git checkout -- pytorch_wavelets')
rc0, o0 = sh('/venv/bin/python demo.py')
sh('git apply patch.diff.new')
meta['demo_with_change'] = {'rc': rc1, 'tail': o1[-300:]}
meta['demo_without_change'] = {'rc': rc0, 'tail': o0[-300:]}
meta['demo_confirms'] = (rc1 != 0 and rc0 == 0)
if tests:
    t0 = time.time()
    rct, ot = sh('/venv/bin/python -m pytest -q -p no:cacheprovider --timeout=900 ' + ' '.join(tests) + ' 2>&1 | tail -3')
    meta['tests_with_change'] = {'cmd': ' '.join(tests), 'tail': ot[-300:], 'seconds': round(time.time() - t0)}
# the check, against the changed tree
t0 = time.time()
p = subprocess.run('VERIF_EVIDENCE_DIR=/tmp/evid_mut REPO=%s python3-vt -m cbv.check %s 2>&1 | grep -v "^WARN" | grep "^VIOLATION\\|^UNDECIDED\\|^KNOWN-FINDING\\|tier=\\|^CHECKER-ERROR" | cut -c1-600 | tail -40' % (wt, prop), shell=True, cwd='/verif',
                   capture_output=True, text=True, timeout=7200)
meta['check'] = {'cmd': 'REPO=<worktree with the change> python3-vt -m cbv.check %s --tier quick' % prop,
                 'output_tail': p.stdout[-2500:], 'seconds': round(time.time() - t0),
                 'caught': 'VIOLATION property=%s' % prop in p.stdout}
json.dump(meta, open(os.path.join(out, 'meta.json'), 'w'), indent=1)
print(sid, 'demo_confirms', meta['demo_confirms'], 'caught', meta['check']['caught'], meta['check']['seconds'], 's')
print(p.stdout[-600:])
