#!/bin/bash
# usage: tools_refactor.sh <worktree> <props...> : runs the quick checks against a behaviour-preserving refactor; every rc must be 0
wt=$1; shift
mkdir -p runlogs
for p in "$@"; do
  s=$(date +%s)
  VERIF_EVIDENCE_DIR=/tmp/evid_mut REPO=$wt python3-vt -m cbv.check $p --tier quick > runlogs/rf_$(basename $wt)_$p.log 2>&1
  rc=$?
  echo "$(basename $wt) $p rc=$rc $(( $(date +%s) - s ))s viol=$(grep -c '^VIOLATION' runlogs/rf_$(basename $wt)_$p.log) undecided=$(grep -c '^UNDECIDED' runlogs/rf_$(basename $wt)_$p.log) err=$(grep -c '^CHECKER-ERROR' runlogs/rf_$(basename $wt)_$p.log)"
done
