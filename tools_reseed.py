"""Re-run every recorded seeded change against the CURRENT machinery (regression test of detection power).
For each /verif/seeded/<id>: scratch worktree of /repo HEAD, apply patch.diff, run the property's quick check with
REPO=<worktree>, record exit code and VIOLATION lines, remove the worktree.  usage: python3 tools_reseed.py [ids...]"""
import sys, os, json, subprocess, glob, time
ids = sys.argv[1:] or sorted(os.path.basename(d) for d in glob.glob('/verif/seeded/*-*'))
res = {}
for sid in ids:
    d = os.path.join('/verif/seeded', sid)
    meta = json.load(open(os.path.join(d, 'meta.json')))
    prop = meta['property']
    wt = '/tmp/rs_' + sid
    subprocess.run('git -C /repo worktree remove --force %s 2>/dev/null; git -C /repo worktree add --detach %s HEAD -q' % (wt, wt), shell=True)
    ap = subprocess.run('git apply %s/patch.diff || git apply -3 %s/patch.diff' % (d, d), shell=True, cwd=wt, capture_output=True, text=True)
    if ap.returncode != 0:
        res[sid] = {'applied': False, 'err': ap.stderr[-300:]}
        print(sid, 'PATCH DOES NOT APPLY', ap.stderr[-200:].replace('\n', ' '))
        subprocess.run('git -C /repo worktree remove --force %s' % wt, shell=True)
        continue
    t0 = time.time()
    p = subprocess.run('VERIF_EVIDENCE_DIR=/tmp/evid_mut REPO=%s python3-vt -m cbv.check %s --tier quick 2>&1 | grep -a "^VIOLATION\\|^UNDECIDED\\|^CHECKER-ERROR\\|tier=" | cut -c1-400; exit ${PIPESTATUS[0]}'
                       % (wt, prop), shell=True, cwd='/verif', capture_output=True, text=True, executable='/bin/bash')
    out = p.stdout
    viol = [l for l in out.splitlines() if l.startswith('VIOLATION')]
    ded = [l for l in viol if '/bounded_' not in l and '-undecided' not in l]
    res[sid] = {'applied': True, 'rc': p.returncode, 'violations': len(viol), 'deductive': len(ded), 'bounded': len([l for l in viol if '/bounded_' in l]),
                'via_undecided': len([l for l in viol if '-undecided' in l]), 'undecided': out.count('UNDECIDED'), 'errors': out.count('CHECKER-ERROR'),
                'seconds': round(time.time() - t0), 'first': (ded or viol or [''])[0][:300]}
    print(sid, prop, 'rc=%d' % p.returncode, 'viol=%d deductive=%d bounded=%d via-undecided=%d undecided=%d err=%d %ds' % (
        len(viol), len(ded), res[sid]['bounded'], res[sid]['via_undecided'], res[sid]['undecided'], res[sid]['errors'], res[sid]['seconds']))
    sys.stdout.flush()
    subprocess.run('git -C /repo worktree remove --force %s' % wt, shell=True)
try:
    allres = json.load(open('/verif/seeded/RESULTS.json'))
except Exception:
    allres = {}
allres.update(res)
json.dump(allres, open('/verif/seeded/RESULTS.json', 'w'), indent=1, sort_keys=True)
print('caught %d / %d' % (len([k for k, v in res.items() if v.get('rc') == 1]), len(res)))
