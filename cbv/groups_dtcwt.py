"""Obligation groups for the dual-tree half."""
import z3
from .sym import *
from . import contracts_dwt as CD, contracts_dtcwt as CT, verify, solve, prims, specs
from .solve import Ob
from .interp import Interp, explore, SObj, RepoClass
from .specbk import SymBk as bk

Bn, C, H, W, m_, mh = z3.Ints('B C H W m mh')
BASE = [Bn >= 1, C >= 1, H >= 1, W >= 1]
SIZES = [Bn, C, H, W, m_, mh]
LL = 'dtcwt.lowlevel'
SYMM = {'utils:symm_pad_1d': CD.symm_pad_1d_contract}


def g_dt_prep(transpose, form):
    def mk():
        if form == 'column':
            h = STensor((m_, 1), lambda idx: GS.atom('h', [idx[0]]), meta=dict(kind='np', dtype=prims.F64, name='h'))
        else:
            h = CD.np1d('h', m_)
        return [h, 1], {'transpose': transpose}
    return verify.verify_function('prep_filt[%s,transpose=%s]' % (form, transpose), LL, 'prep_filt', mk, [m_ >= 2],
                                  CT.prep_filt_contract, {}, [m_], check_linear=False)


def g_dt_filter(fn, mode='symmetric', highpass=False, canary=False):
    """fn in colfilter,rowfilter,coldfilt,rowdfilt,colifilt,rowifilt"""
    base = list(BASE)
    single = fn in ('colfilter', 'rowfilter')
    if single:
        base += [m_ >= 1]
        mlen = m_
    else:
        base += [mh >= 1]
        mlen = 2 * mh
    con = CT.CONTRACTS[LL + ':' + fn]
    if canary:
        con = (lambda c0: (lambda it, X, *a, **k: c0(it, X, *a, **dict(k, highpass=not highpass))))(con)

    def mk():
        X = CD.data_tensor('x', (Bn, C, H, W))
        if single:
            return [X, CT.dt_filter('h', mlen)], {'mode': mode}
        return [X, CT.dt_filter('ha', mlen), CT.dt_filter('hb', mlen)], {'highpass': highpass, 'mode': mode}
    return verify.verify_function('%s[%s%s]' % (fn, mode, '' if single else ',highpass=%s' % highpass), LL, fn, mk, base,
                                  con, SYMM, SIZES)


def g_dt_q2c():
    def mk():
        return [CD.data_tensor('y', (Bn, C, 2 * H, 2 * W))], {}
    return verify.verify_function('q2c', LL, 'q2c', mk, BASE, CT.q2c_contract, {}, SIZES)


def g_dt_c2q():
    def mk():
        ts = [CD.data_tensor(n, (Bn, C, H, W)) for n in ('w1r', 'w1i', 'w2r', 'w2i')]
        return [(ts[0], ts[1]), (ts[2], ts[3])], {}
    return verify.verify_function('c2q', LL, 'c2q', mk, BASE, CT.c2q_contract, {}, SIZES)


# ---------------------------------------------------------------------------
# one DTCWT level (transform_funcs.py) against the reference level
# ---------------------------------------------------------------------------
TF = 'dtcwt.transform_funcs'
LOW = {k: v for k, v in CT.CONTRACTS.items() if k.startswith('dtcwt.lowlevel:') and not k.endswith('prep_filt')}
m0, m1, m2_ = z3.Ints('m0 m1 m2')          # level-1 filter lengths (any >= 1)
q0, q1, q2_ = z3.Ints('q0 q1 q2')          # half lengths of the q-shift filters


def _l1_filters(rot):
    f = [CT.dt_filter('h0', m0), CT.dt_filter('h1', m1)]
    if rot:
        f.append(CT.dt_filter('h2', m2_))
    return f


def _qs_filters(rot, pre='h'):
    f = [CT.dt_filter(pre + '0a', 2 * q0), CT.dt_filter(pre + '1a', 2 * q1), CT.dt_filter(pre + '0b', 2 * q0),
         CT.dt_filter(pre + '1b', 2 * q1)]
    if rot:
        f += [CT.dt_filter(pre + '2a', 2 * q2_), CT.dt_filter(pre + '2b', 2 * q2_)]
    return f


def g_fwd_level(level1, rot, skip, o_dim, mode='symmetric'):
    fn = ('fwd_j1' if level1 else 'fwd_j2plus') + ('_rot' if rot else '')
    base = BASE + [m0 >= 1, m1 >= 1, m2_ >= 1, q0 >= 1, q1 >= 1, q2_ >= 1]
    base += [m0 % 2 == 1, m1 % 2 == 1, m2_ % 2 == 1]      # level-1 filters have odd length (size-preserving)
    mv = SIZES + [m0, m1, m2_, q0, q1, q2_]

    def mk():
        if level1:
            x = CD.data_tensor('x', (Bn, C, 2 * H, 2 * W))
            return [x] + _l1_filters(rot) + [skip, o_dim, mode], {}
        x = CD.data_tensor('x', (Bn, C, 4 * H, 4 * W))
        return [x] + _qs_filters(rot) + [skip, o_dim, mode], {}
    return verify.verify_function('%s[skip=%s,o_dim=%d,%s]' % (fn, skip, o_dim, mode), TF, fn, mk, base,
                                  CT.CONTRACTS[TF + ':' + fn], LOW, mv)


def g_inv_level(level1, rot, absent, o_dim, mode='symmetric', crop=False):
    """absent: None | 'high-none' | 'high-0dim' | 'low-none' | 'low-0dim'"""
    fn = ('inv_j1' if level1 else 'inv_j2plus') + ('_rot' if rot else '')
    base = BASE + [m0 >= 1, m1 >= 1, m2_ >= 1, q0 >= 1, q1 >= 1, q2_ >= 1, m0 % 2 == 1, m1 % 2 == 1, m2_ % 2 == 1]
    mv = SIZES + [m0, m1, m2_, q0, q1, q2_]
    h_dim, w_dim = [d for d in range(5) if d not in (0, 1, o_dim)][0:2] if False else (None, None)
    rest = [d for d in range(5) if d != o_dim]
    h_dim, w_dim = rest[2], rest[3]

    def mk():
        zero = lambda: t_zeros((), dtype=prims.DT_IN, kind='torch')
        pad = 2 if crop else 0
        ll = CD.data_tensor('ll', (Bn, C, 2 * H + pad, 2 * W + pad))
        shp = [Bn, C, H, W]
        shp.insert(o_dim, 6)
        hr, hi = CD.data_tensor('hr', tuple(shp)), CD.data_tensor('hi', tuple(shp))
        if absent == 'high-none':
            hr = hi = None
        elif absent == 'high-0dim':
            hr, hi = zero(), zero()
        elif absent == 'low-none':
            ll = None
        elif absent == 'low-0dim':
            ll = zero()
        g = _l1_filters(rot) if level1 else _qs_filters(rot, 'g')
        return [ll, hr, hi] + g + [o_dim, h_dim, w_dim, mode], {}
    return verify.verify_function('%s[absent=%s,o_dim=%d,%s%s]' % (fn, absent, o_dim, mode, ',crop' if crop else ''), TF, fn, mk,
                                  base, CT.CONTRACTS[TF + ':' + fn], LOW, mv)


# ---------------------------------------------------------------------------
# autograd Functions: forward layout + backward adjointness
# ---------------------------------------------------------------------------
from . import adjoint as ADJ
from .groups_dwt import _fctx
LEVELS = {k: v for k, v in CT.CONTRACTS.items() if k.startswith(TF + ':') and '.apply' not in k}
LEVELS['dwt.lowlevel:int_to_mode'] = CD.int_to_mode_contract
LEVELS['dtcwt.lowlevel:q2c'] = CT.q2c_contract
LEVELS['dtcwt.lowlevel:c2q'] = CT.c2q_contract
for _k in ('colfilter', 'rowfilter', 'coldfilt', 'rowdfilt', 'colifilt', 'rowifilt'):
    LEVELS['dtcwt.lowlevel:' + _k] = CT.CONTRACTS['dtcwt.lowlevel:' + _k]
FBASE = BASE + [m0 >= 1, m1 >= 1, q0 >= 1, q1 >= 1, m0 % 2 == 1, m1 % 2 == 1]
FMV = SIZES + [m0, m1, q0, q1]


def _hshape(o_dim, ri_dim):
    perm = CT.layout_perm(o_dim, ri_dim)
    d = [Bn, C, 6, H, W, 2]
    return tuple(d[p] for p in perm)


def g_function_forward(cls, o_dim, ri_dim, skip=False, absent=None):
    """FWD_J1 | FWD_J2PLUS | INV_J1 | INV_J2PLUS .forward against the layout contract"""
    fwd = cls.startswith('FWD')
    l1 = cls.endswith('J1')

    def mk():
        if fwd:
            x = CD.data_tensor('x', (Bn, C, 2 * H, 2 * W) if l1 else (Bn, C, 4 * H, 4 * W))
            f = _l1_filters(False) if l1 else _qs_filters(False)
            return [_fctx(), x] + f + [skip, o_dim, ri_dim, 1], {}
        ll = CD.data_tensor('ll', (Bn, C, 2 * H, 2 * W))
        hs = CD.data_tensor('hs', _hshape(o_dim, ri_dim))
        if absent == 'none':
            hs = None
        elif absent == '0dim':
            hs = t_zeros((), dtype=prims.DT_IN, kind='torch')
        g = _l1_filters(False) if l1 else _qs_filters(False, 'g')
        return [_fctx(), ll, hs] + g + [o_dim, ri_dim, 1], {}
    con = CT.CONTRACTS[TF + ':' + cls + '.apply']
    return verify.verify_function('%s.forward[o_dim=%d,ri_dim=%d%s%s]' % (cls, o_dim, ri_dim, ',skip' if skip else '',
                                                                        ',highs=' + absent if absent else ''),
                                  TF, cls + '.forward', mk, FBASE, lambda it, fc, *a: con(it, *a), LEVELS, FMV)


def g_function_adjoint(cls, o_dim, ri_dim, needs=(True,), skip=False, canary=False, single_reflection=True, abstract=True, low_absent=None):
    """real forward + real backward of a dual-tree Function: K_bwd == K_fwd^T, under the filter
    identities the code relies on (level-1 filters symmetric; q-shift tree b = reverse(tree a))"""
    fwd = cls.startswith('FWD')
    l1 = cls.endswith('J1')
    oid = '%s.backward[o_dim=%d,ri_dim=%d,needs=%s%s%s]' % (cls, o_dim, ri_dim, ''.join('T' if b else 'F' for b in needs),
                                                          ',skip' if skip else '', ',lowpass=%s' % low_absent if low_absent else '')

    def filters(pre):
        if l1 and abstract:
            return [CT.dt_filter(pre + '0', m0), CT.dt_filter(pre + '1', m1)]
        if l1:
            return [CT.sym_filter(pre + '0', m0), CT.sym_filter(pre + '1', m1)]
        return [CT.dt_filter(pre + '0a', 2 * q0), CT.dt_filter(pre + '1a', 2 * q1),
                CT.rev_filter(pre + '0a', 2 * q0), CT.rev_filter(pre + '1a', 2 * q1)]

    callees = dict(LEVELS)
    if abstract:
        # the real bodies of fwd_j1 / inv_j1 / fwd_j2plus / inv_j2plus are executed; the 1-D column and
        # row operations are generic linear operators carrying the facts of the 1-D lemmas
        callees = dict(CT.ABSTRACT)
        callees['dwt.lowlevel:int_to_mode'] = CD.int_to_mode_contract
        single_reflection = False

    def run():
        it = Interp(contracts=callees)
        if fwd:
            data = [CD.data_tensor('x', (Bn, C, 2 * H, 2 * W) if l1 else (Bn, C, 4 * H, 4 * W), requires_grad=needs[0])]
            args = data + filters('h') + [skip, o_dim, ri_dim, 1]
        else:
            data = [CD.data_tensor('ll', (Bn, C, 2 * H, 2 * W), requires_grad=needs[0]),
                    CD.data_tensor('hs', _hshape(o_dim, ri_dim), requires_grad=needs[1])]
            args = data + filters('g') + [o_dim, ri_dim, 1]
            if low_absent == 'none':            # the low-pass input is not a tensor: autograd accepts only None for its slot
                args[0] = None
            elif low_absent == '0dim':
                args[0] = t_zeros((), dtype=prims.DT_IN, kind='torch')
        fc = _fctx(tuple(needs) + (False,) * (len(args) - len(needs)))
        out = it.call(TF, cls + '.forward', [fc] + args, {})
        ys = list(out) if isinstance(out, tuple) else [out]
        if canary:
            y0s = ys[0].snap()
            ys[0] = fresh_like(ys[0].shape, lambda idx: y0s(list(idx[:-1]) + [simp(I(idx[-1]) + 1)]), ys[0])
        gs_ = [CD.data_tensor('dy%d' % k, y.shape) if y.ndim else t_zeros((), dtype=prims.DT_IN, kind='torch')
               for k, y in enumerate(ys)]
        grads = it.call(TF, cls + '.backward', [fc] + gs_, {})
        return data, ys, gs_, grads
    obs = []
    info = {'paths': 0, 'raise_paths': 0}
    fbase = list(FBASE)
    if single_reflection:
        # image at least as large as the filters: every symmetric extension is a single reflection
        fbase += [2 * H >= m0, 2 * H >= m1, 2 * W >= m0, 2 * W >= m1, 2 * H >= 2 * q0, 2 * H >= 2 * q1, 2 * W >= 2 * q0, 2 * W >= 2 * q1]
    for k, (c, res) in enumerate(explore(run, fbase)):
        CUR.ctx = c
        if c.solver.check() == z3.unsat:
            continue
        pid = '%s/path%d' % (oid, k)
        info['paths'] += 1
        if res[0] == 'raise':
            obs.append(Ob(pid + '/unexpected-raise', 'POST', 'refuted', 'path', 0, {'what': '%s: %s' % (res[1].kind, res[1].msg), 'model': {}}))
            continue
        data, ys, gs_, grads = res[1]
        live = [(y, 'dy%d' % q) for q, y in enumerate(ys) if y.ndim]
        if low_absent == 'none':
            okn = grads[0] is None
            obs.append(Ob('%s/slot0[absent low-pass]-gets-None (a gradient for a non-tensor input is an autograd error)' % pid, 'POST',
                          'proved' if okn else 'refuted', 'structural', 0, {} if okn else {'model': {}}))
        for slot, (d, need) in enumerate(zip(data, needs)):
            if not need:
                continue
            g = grads[slot]
            nm = d.base.owner.split(':')[1]
            if g is None:
                obs.append(Ob('%s/slot%d[%s]-is-None-although-it-requires-grad' % (pid, slot, nm), 'POST', 'refuted', 'structural', 0,
                              {'model': {}}))
                continue
            obs.append(solve.prove('%s/slot%d[%s]/shape' % (pid, slot, nm), 'POST', c.pc,
                                   z3.And(g.ndim == d.ndim, *[I(a) == I(b) for a, b in zip(g.shape, d.shape)]), FMV))
            obs += ADJ.adjoint_obs('%s/slot%d[%s]' % (pid, slot, nm), [y for y, _ in live], [n for _, n in live], g, nm, c.pc, FMV)
        for slot in range(len(data), len(grads)):
            if grads[slot] is not None:
                obs.append(Ob('%s/slot%d-not-None' % (pid, slot), 'POST', 'refuted', 'structural', 0))
        obs += solve.safety_obligations(pid, c, FMV)
    return obs, info


def g_adjoint_1d(kind, hp=False, single_reflection=True):
    """1-D lemmas behind the hand-written dual-tree gradients (spec/contract level):
      'f': colfilter(., h)^T == colfilter(., h)                     for symmetric h (odd length)
      'd': coldfilt(., P, Q, hp)^T == colifilt(., Q, P, hp)         for Q = reverse(P)   (q-shift trees)
      'i': colifilt(., P, Q, hp)^T == coldfilt(., Q, P, hp)         likewise"""
    mv = SIZES + [m0, q0]
    base = [Bn >= 1, C >= 1, H >= 1, W >= 1, m0 >= 1, m0 % 2 == 1, q0 >= 1]
    if kind == 'f':
        X = (Bn, C, H, W)
        if single_reflection:
            base.append(H >= (m0 - 1) / 2)
    elif kind == 'd':
        X = (Bn, C, 4 * H, W)
        if single_reflection:
            base.append(4 * H >= 2 * q0)
    else:
        X = (Bn, C, 2 * H, W)
        if single_reflection:
            base.append(2 * H >= q0)
    CUR.ctx = Ctx(base)
    c = ctx()
    it = Interp()
    x = CD.data_tensor('x', X)
    if kind == 'f':
        h = CT.sym_filter('h', m0)
        y = CT.COLF(it, x, h, 'symmetric')
        g = CD.data_tensor('g0', y.shape)
        back = CT.COLF(it, g, h, 'symmetric')
    else:
        P = CT.dt_filter('p', 2 * q0)
        Q = CT.rev_filter('p', 2 * q0)
        if kind == 'd':
            y = CT.COLD(it, x, P, Q, hp, 'symmetric')
            g = CD.data_tensor('g0', y.shape)
            back = CT.COLI(it, g, Q, P, hp, 'symmetric')
        else:
            y = CT.COLI(it, x, P, Q, hp, 'symmetric')
            g = CD.data_tensor('g0', y.shape)
            back = CT.COLD(it, g, Q, P, hp, 'symmetric')
    oid = 'LEMMA/adjoint-1d[%s%s]' % ({'f': 'colfilter,symmetric h', 'd': 'coldfilt^T==colifilt', 'i': 'colifilt^T==coldfilt'}[kind],
                                      '' if kind == 'f' else ',highpass=%s' % hp)
    obs = [solve.prove(oid + '/shape', 'LEMMA', c.pc, z3.And(*[I(a) == I(b) for a, b in zip(back.shape, x.shape)]), mv)]
    obs += ADJ.adjoint_obs(oid, [y], ['g0'], back, 'x', c.pc, mv, kind='LEMMA')
    return obs, {}


def g_inv_absent_lemma(cls, which, kind, o_dim=2, ri_dim=-1):
    """INV_J1 / INV_J2PLUS: an absent (None / 0-dim) band-pass or lowpass input gives the result of zeros of the right shape"""
    l1 = cls.endswith('J1')
    CUR.ctx = Ctx(FBASE)
    c = ctx()
    it = Interp()
    ll = CD.data_tensor('ll', (Bn, C, 2 * H, 2 * W))
    hs = CD.data_tensor('hs', _hshape(o_dim, ri_dim))
    g = _l1_filters(False) if l1 else _qs_filters(False, 'g')
    gone = None if kind == 'none' else t_zeros((), dtype=prims.DT_IN, kind='torch')
    con = CT.CONTRACTS[TF + ':' + cls + '.apply']
    if which == 'high':
        a = con(it, ll, gone, *g, o_dim, ri_dim, 1)
        b = con(it, ll, t_zeros(_hshape(o_dim, ri_dim), dtype=prims.DT_IN, kind='torch'), *g, o_dim, ri_dim, 1)
    else:
        a = con(it, gone, hs, *g, o_dim, ri_dim, 1)
        b = con(it, t_zeros((Bn, C, 2 * H, 2 * W), dtype=prims.DT_IN, kind='torch'), hs, *g, o_dim, ri_dim, 1)
    oid = 'LEMMA/%s.apply[%s %s == zeros]' % (cls, which, kind)
    return verify.value_equal(oid, 'LEMMA', a, b, c.pc, FMV), {}


# ---------------------------------------------------------------------------
# perfect reconstruction: lemmas
# ---------------------------------------------------------------------------
def g_q2c_roundtrip():
    """c2q(q2c(y)) == y"""
    CUR.ctx = Ctx(BASE)
    c = ctx()
    it = Interp()
    y = CD.data_tensor('y', (Bn, C, 2 * H, 2 * W))
    w1, w2 = CT.q2c_contract(it, y)
    back = CT.c2q_contract(it, w1, w2)
    return verify.value_equal('LEMMA/c2q(q2c(y))==y', 'LEMMA', back, y, c.pc, SIZES), {}


def g_ext_crop_roundtrip():
    """the inverse's crop [1:-1] undoes the forward's one-sample-each-side lowpass extension; the odd-size
    replication leaves the image in the top-left corner"""
    from . import modules_dtcwt as MD
    obs = []
    for k, (c, out) in enumerate(explore(lambda: (lambda x: (x, MD.ext_mult4(x)))(CD.data_tensor('x', (Bn, C, 2 * H, 2 * W))), BASE)):
        CUR.ctx = c
        x, e = out[1]
        r0 = 1 if c.entails(I(e.shape[2]) != I(x.shape[2])) else 0
        c0 = 1 if c.entails(I(e.shape[3]) != I(x.shape[3])) else 0
        back = tget(e, (slice(None), slice(None), slice(1, -1) if r0 else slice(None), slice(1, -1) if c0 else slice(None)))
        obs += verify.value_equal('LEMMA/crop(extend-to-multiple-of-4(x))==x/path%d' % k, 'LEMMA', back, x, c.pc, SIZES)
        obs.append(solve.prove('LEMMA/extension-gives-multiple-of-4/path%d' % k, 'LEMMA', c.pc,
                               z3.And(I(e.shape[2]) % 4 == 0, I(e.shape[3]) % 4 == 0), SIZES))
    for k, (c, out) in enumerate(explore(lambda: (lambda x: (x, MD.ext_odd(x)))(CD.data_tensor('x', (Bn, C, H, W))), BASE)):
        CUR.ctx = c
        x, e = out[1]
        back = tget(e, (slice(None), slice(None), slice(0, x.shape[2]), slice(0, x.shape[3])))
        obs += verify.value_equal('LEMMA/odd-size-replication-keeps-x-top-left/path%d' % k, 'LEMMA', back, x, c.pc, SIZES)
        obs.append(solve.prove('LEMMA/replication-gives-even-size/path%d' % k, 'LEMMA', c.pc,
                               z3.And(I(e.shape[2]) % 2 == 0, I(e.shape[3]) % 2 == 0, I(e.shape[2]) - I(x.shape[2]) <= 1), SIZES))
    return obs, {}


def g_level1_closed_form(canary=False):
    """level 1, one axis, symmetric odd filters h (analysis) and g (synthesis), image at least as long as the filters:
       colfilter(colfilter(x, h), g)[i] == sum_{t,s} h[t] g[s] x_ext[i + (mh//2 - t) + (mg//2 - s)]
    (filtering with a symmetric filter commutes with the symmetric extension).  With the TABLE identity
    conv(h0,g0) + conv(h1,g1) = delta this is level-1 perfect reconstruction along that axis."""
    mhh, mgg = z3.Ints('mh_ mg_')
    base = BASE + [mhh >= 1, mgg >= 1, mhh % 2 == 1, mgg % 2 == 1, H >= mhh, H >= mgg]
    CUR.ctx = Ctx(base)
    c = ctx()
    it = Interp()
    x = CD.data_tensor('x', (Bn, C, H, W))
    h = CT.sym_filter('h', mhh)
    g = CT.sym_filter('g', mgg)
    y = CT.COLF(it, CT.COLF(it, x, h, 'symmetric'), g, 'symmetric')
    xs = x.snap()
    hs_, gs__ = h.snap(), g.snap()

    def elem(idx):
        n_, c_, i, j = idx
        return bk.sum(0, mhh, lambda t: bk.sum(0, mgg, lambda s: hs_([0, 0, simp(mhh - 1 - I(t)), 0]) * gs__([0, 0, simp(mgg - 1 - I(s)), 0]) *
                                              xs([n_, c_, prims.EXT_SYM(I(i) + (mhh - 1) / 2 - I(t) + (mgg - 1) / 2 - I(s) + (1 if canary else 0), I(H)), j])))
    cf = fresh_like(x.shape, elem, x)
    return verify.value_equal('LEMMA/level1-closed-form(symmetric filters commute with symmetric extension)', 'LEMMA', y, cf, c.pc,
                              SIZES + [mhh, mgg]), {}


def conc_filter(vals, name):
    """prepared (time-reversed) filter tensor with the concrete taps vals (exact rationals)"""
    m = len(vals)
    vals = list(vals)

    def elem(idx):
        a = idx[2]
        out = ZERO
        for t in range(m):
            v = vals[m - 1 - t]
            if v == 0:
                continue
            out = out + GS.const(v).guard(I(a) == t)
        return out
    return STensor((1, 1, m, 1), elem, meta=dict(kind='torch', dtype=prims.DT_IN, contig=True, name=name))


def g_qshift_pr_symbolic(table, tol=1e-9, single_reflection=True, perturb=None):
    """q-shift level, one axis, CONCRETE taps of one shipped table, symbolic image length r (multiple of 4):
       colifilt(coldfilt(x,h0b,h0a), g0b,g0a) + colifilt(coldfilt(x,h1b,h1a,hp), g1b,g1a,hp) == x   (within tol)"""
    from . import groups_tables as T
    t = T.load(table)
    f = {k: T.frac(t[k]) for k in t if not k.startswith('__') and k != 'param'}
    m = len(f['h0a'])
    if perturb is not None:
        from fractions import Fraction as Fr
        f['g0a'] = list(f['g0a'])
        f['g0a'][m // 2] += Fr(perturb)
    base = [Bn >= 1, C >= 1, H >= 1, W >= 1]
    if single_reflection:
        base.append(4 * H >= 2 * m)
    CUR.ctx = Ctx(base)
    c = ctx()
    it = Interp()
    x = CD.data_tensor('x', (Bn, C, 4 * H, W))
    F_ = {k: conc_filter(v, k) for k, v in f.items()}
    lo = CT.COLD(it, x, F_['h0b'], F_['h0a'], False, 'symmetric')
    hi = CT.COLD(it, x, F_['h1b'], F_['h1a'], True, 'symmetric')
    y = t_bin('+', CT.COLI(it, lo, F_['g0b'], F_['g0a'], False, 'symmetric'), CT.COLI(it, hi, F_['g1b'], F_['g1a'], True, 'symmetric'))
    return verify.value_equal('LEMMA/qshift-PR-1d[%s]' % table, 'LEMMA', y, x, c.pc, SIZES, tol=tol), {'m': m}


def g_qshift_pr_piece(table, kind, k, tol=1e-9, canary=False):
    """one piece of the q-shift PR lemma (concrete taps, symbolic image length 4H >= 2m), restricted to
       kind='interior': rows P = k (mod 4), 2m <= P < 4H - 2m, images with 4H >= 4m  (no reflection is reachable)
       kind='left'    : row P = k          (0 <= k < 2m),    images with 4H >= 4m     (only the left reflection is reachable)
       kind='right'   : row P = 4H - k     (1 <= k <= 2m),   images with 4H >= 4m     (only the right one)
       kind='small'   : the image length 4H = 4k with 2m <= 4k < 4m, all rows       (both reflections interact; everything concrete)
       kind='cover'   : the pieces cover every image length 4H >= 2m and every row 0 <= P < 4H
    Splitting the single query this way keeps every SMT query small: the cost of the single query grows much faster than the
    filter length and depends on term order (hours for 18 taps)."""
    from . import groups_tables as T
    t = T.load(table)
    f = {k_: T.frac(t[k_]) for k_ in t if not k_.startswith('__') and k_ != 'param'}
    m = len(f['h0a'])
    P2 = z3.Int('P2')
    small = list(range(-(-2 * m // 4), m))          # H with 2m <= 4H < 4m
    if kind == 'cover':
        CUR.ctx = Ctx([Bn >= 1, C >= 1, H >= 1, W >= 1, 4 * H >= 2 * m])
        c = ctx()
        hyp = [P2 >= 0, P2 < 4 * H]
        far = z3.And(4 * H >= 4 * m, z3.Or(z3.And(P2 >= 2 * m, P2 < 4 * H - 2 * m, z3.Or(*[P2 % 4 == r for r in range(4)])),
                                           z3.Or(*[P2 == q for q in range(2 * m)]), z3.Or(*[P2 == 4 * H - q for q in range(1, 2 * m + 1)])))
        goal = z3.Or(far, z3.Or(*[H == q for q in small]))
        return [solve.prove('LEMMA/qshift-PR-1d[%s]/pieces-cover-all-sizes-and-rows' % table, 'LEMMA', list(c.pc) + hyp, goal, SIZES)], {'m': m}
    if kind == 'small':
        # image length 4k with 2m <= 4k < 4m: both reflections interact; decided by exact rational computation with the SAME spec
        # operators the contracts COLD / COLI are made of (specs.dt_coldfilt / dt_colifilt), one basis vector at a time
        from . import specs
        from fractions import Fraction as Fr
        import time as _t
        t0 = _t.time()
        if canary:
            f['g0a'] = list(f['g0a'])
            f['g0a'][m // 2] += Fr(1, 1000)
        bk = specs.FracBk
        r = 4 * k
        tap = lambda name: (lambda t_: f[name][t_])
        worst = Fr(0)
        where = None
        for q in range(r):
            xat = lambda j, q=q: Fr(1) if j == q else Fr(0)
            lo_f = specs.dt_coldfilt(bk, xat, r, tap('h0b'), tap('h0a'), m, 0)
            hi_f = specs.dt_coldfilt(bk, xat, r, tap('h1b'), tap('h1a'), m, 1)
            lo_v = [lo_f(i) for i in range(r // 2)]
            hi_v = [hi_f(i) for i in range(r // 2)]
            ylo = specs.dt_colifilt(bk, lambda j: lo_v[j], r // 2, tap('g0b'), tap('g0a'), m, 0)
            yhi = specs.dt_colifilt(bk, lambda j: hi_v[j], r // 2, tap('g1b'), tap('g1a'), m, 1)
            for p_ in range(r):
                e = abs(ylo(p_) + yhi(p_) - (1 if p_ == q else 0))
                if e > worst:
                    worst, where = e, (p_, q)
        ok = worst <= Fr(tol)
        return [solve.Ob('LEMMA/qshift-PR-1d[%s]/image-length=%d (all %d x %d entries of S.A - I, exact rationals)' % (table, r, r, r), 'LEMMA',
                         'proved' if ok else 'refuted', 'exact-arithmetic', _t.time() - t0,
                         {'max_abs_entry': float(worst), 'tol': tol} if ok else {'max_abs_entry': float(worst), 'at': where, 'model': {'H': k}})], {'m': m}
    base = [Bn >= 1, C >= 1, H >= 1, W >= 1, 4 * H >= 4 * m]
    CUR.ctx = Ctx(base)
    c = ctx()
    it = Interp()
    x = CD.data_tensor('x', (Bn, C, 4 * H, W))
    if canary:
        from fractions import Fraction as Fr
        f['g0a'] = list(f['g0a'])
        f['g0a'][m // 2] += Fr(1, 1000)
    F_ = {k_: conc_filter(v, k_) for k_, v in f.items()}
    lo = CT.COLD(it, x, F_['h0b'], F_['h0a'], False, 'symmetric')
    hi = CT.COLD(it, x, F_['h1b'], F_['h1a'], True, 'symmetric')
    y = t_bin('+', CT.COLI(it, lo, F_['g0b'], F_['g0a'], False, 'symmetric'), CT.COLI(it, hi, F_['g1b'], F_['g1a'], True, 'symmetric'))
    extra = {'interior': [P2 % 4 == k, P2 >= 2 * m, P2 < 4 * H - 2 * m], 'left': [P2 == k], 'right': [P2 == 4 * H - k]}[kind]
    return verify.value_equal('LEMMA/qshift-PR-1d[%s]/%s=%d' % (table, kind, k), 'LEMMA', y, x, list(c.pc) + extra, SIZES, tol=tol), {'m': m}


def qshift_pr_pieces(table):
    from . import groups_tables as T
    m = len(T.load(table)['h0a'])
    small = list(range(-(-2 * m // 4), m))
    return [('cover', 0)] + [('interior', r) for r in range(4)] + [('left', p) for p in range(2 * m)] + [('right', q) for q in range(1, 2 * m + 1)] + \
        [('small', h) for h in small]
