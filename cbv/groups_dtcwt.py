"""Obligation groups for the dual-tree half."""
import z3
from .sym import *
from . import contracts_dwt as CD, contracts_dtcwt as CT, verify, solve, prims, specs
from .solve import Ob
from .interp import Interp, explore, SObj, RepoClass
from .specbk import SymBk as bk

Bn, C, H, W, m_, mh = z3.Ints('B C H W m mh')
BASE = [Bn >= 1, C >= 1, H >= 1, W >= 1]
SIZES = [Bn, C, H, W, m_, mh]
LL = 'dtcwt.lowlevel'
SYMM = {'utils:symm_pad_1d': CD.symm_pad_1d_contract}


def g_dt_prep(transpose, form):
    def mk():
        if form == 'column':
            h = STensor((m_, 1), lambda idx: GS.atom('h', [idx[0]]), meta=dict(kind='np', dtype=prims.F64, name='h'))
        else:
            h = CD.np1d('h', m_)
        return [h, 1], {'transpose': transpose}
    return verify.verify_function('prep_filt[%s,transpose=%s]' % (form, transpose), LL, 'prep_filt', mk, [m_ >= 2],
                                  CT.prep_filt_contract, {}, [m_], check_linear=False)


def g_dt_filter(fn, mode='symmetric', highpass=False, canary=False):
    """fn in colfilter,rowfilter,coldfilt,rowdfilt,colifilt,rowifilt"""
    base = list(BASE)
    single = fn in ('colfilter', 'rowfilter')
    if single:
        base += [m_ >= 1]
        mlen = m_
    else:
        base += [mh >= 1]
        mlen = 2 * mh
    con = CT.CONTRACTS[LL + ':' + fn]
    if canary:
        con = (lambda c0: (lambda it, X, *a, **k: c0(it, X, *a, **dict(k, highpass=not highpass))))(con)

    def mk():
        X = CD.data_tensor('x', (Bn, C, H, W))
        if single:
            return [X, CT.dt_filter('h', mlen)], {'mode': mode}
        return [X, CT.dt_filter('ha', mlen), CT.dt_filter('hb', mlen)], {'highpass': highpass, 'mode': mode}
    return verify.verify_function('%s[%s%s]' % (fn, mode, '' if single else ',highpass=%s' % highpass), LL, fn, mk, base,
                                  con, SYMM, SIZES)


def g_dt_q2c():
    def mk():
        return [CD.data_tensor('y', (Bn, C, 2 * H, 2 * W))], {}
    return verify.verify_function('q2c', LL, 'q2c', mk, BASE, CT.q2c_contract, {}, SIZES)


def g_dt_c2q():
    def mk():
        ts = [CD.data_tensor(n, (Bn, C, H, W)) for n in ('w1r', 'w1i', 'w2r', 'w2i')]
        return [(ts[0], ts[1]), (ts[2], ts[3])], {}
    return verify.verify_function('c2q', LL, 'c2q', mk, BASE, CT.c2q_contract, {}, SIZES)


# ---------------------------------------------------------------------------
# one DTCWT level (transform_funcs.py) against the reference level
# ---------------------------------------------------------------------------
TF = 'dtcwt.transform_funcs'
LOW = {k: v for k, v in CT.CONTRACTS.items() if k.startswith('dtcwt.lowlevel:') and not k.endswith('prep_filt')}
m0, m1, m2_ = z3.Ints('m0 m1 m2')          # level-1 filter lengths (any >= 1)
q0, q1, q2_ = z3.Ints('q0 q1 q2')          # half lengths of the q-shift filters


def _l1_filters(rot):
    f = [CT.dt_filter('h0', m0), CT.dt_filter('h1', m1)]
    if rot:
        f.append(CT.dt_filter('h2', m2_))
    return f


def _qs_filters(rot, pre='h'):
    f = [CT.dt_filter(pre + '0a', 2 * q0), CT.dt_filter(pre + '1a', 2 * q1), CT.dt_filter(pre + '0b', 2 * q0),
         CT.dt_filter(pre + '1b', 2 * q1)]
    if rot:
        f += [CT.dt_filter(pre + '2a', 2 * q2_), CT.dt_filter(pre + '2b', 2 * q2_)]
    return f


def g_fwd_level(level1, rot, skip, o_dim, mode='symmetric'):
    fn = ('fwd_j1' if level1 else 'fwd_j2plus') + ('_rot' if rot else '')
    base = BASE + [m0 >= 1, m1 >= 1, m2_ >= 1, q0 >= 1, q1 >= 1, q2_ >= 1]
    base += [m0 % 2 == 1, m1 % 2 == 1, m2_ % 2 == 1]      # level-1 filters have odd length (size-preserving)
    mv = SIZES + [m0, m1, m2_, q0, q1, q2_]

    def mk():
        if level1:
            x = CD.data_tensor('x', (Bn, C, 2 * H, 2 * W))
            return [x] + _l1_filters(rot) + [skip, o_dim, mode], {}
        x = CD.data_tensor('x', (Bn, C, 4 * H, 4 * W))
        return [x] + _qs_filters(rot) + [skip, o_dim, mode], {}
    return verify.verify_function('%s[skip=%s,o_dim=%d,%s]' % (fn, skip, o_dim, mode), TF, fn, mk, base,
                                  CT.CONTRACTS[TF + ':' + fn], LOW, mv)


def g_inv_level(level1, rot, absent, o_dim, mode='symmetric', crop=False):
    """absent: None | 'high-none' | 'high-0dim' | 'low-none' | 'low-0dim'"""
    fn = ('inv_j1' if level1 else 'inv_j2plus') + ('_rot' if rot else '')
    base = BASE + [m0 >= 1, m1 >= 1, m2_ >= 1, q0 >= 1, q1 >= 1, q2_ >= 1, m0 % 2 == 1, m1 % 2 == 1, m2_ % 2 == 1]
    mv = SIZES + [m0, m1, m2_, q0, q1, q2_]
    h_dim, w_dim = [d for d in range(5) if d not in (0, 1, o_dim)][0:2] if False else (None, None)
    rest = [d for d in range(5) if d != o_dim]
    h_dim, w_dim = rest[2], rest[3]

    def mk():
        zero = lambda: t_zeros((), dtype=prims.DT_IN, kind='torch')
        pad = 2 if crop else 0
        ll = CD.data_tensor('ll', (Bn, C, 2 * H + pad, 2 * W + pad))
        shp = [Bn, C, H, W]
        shp.insert(o_dim, 6)
        hr, hi = CD.data_tensor('hr', tuple(shp)), CD.data_tensor('hi', tuple(shp))
        if absent == 'high-none':
            hr = hi = None
        elif absent == 'high-0dim':
            hr, hi = zero(), zero()
        elif absent == 'low-none':
            ll = None
        elif absent == 'low-0dim':
            ll = zero()
        g = _l1_filters(rot) if level1 else _qs_filters(rot, 'g')
        return [ll, hr, hi] + g + [o_dim, h_dim, w_dim, mode], {}
    return verify.verify_function('%s[absent=%s,o_dim=%d,%s%s]' % (fn, absent, o_dim, mode, ',crop' if crop else ''), TF, fn, mk,
                                  base, CT.CONTRACTS[TF + ':' + fn], LOW, mv)
