"""Verification of one function against its contract (modularly: callees are
replaced by their contracts), plus helpers shared by the property modules."""
import time, traceback
import z3
from .sym import *
from .interp import Interp, explore
from . import solve
from .solve import Ob

iarr_equal = None


def value_equal(oid, kind, got, want, pc, model_vars=(), tol=None, timeout=None):
    """obligations: got == want (tensors: shape + every element; tuples/lists
    recursively; None; python scalars)"""
    obs = []
    if isinstance(want, (tuple, list)):
        if not isinstance(got, (tuple, list)) or len(got) != len(want):
            return [Ob(oid + '/structure', kind, 'refuted', 'syntactic', 0, {'got': repr(got), 'want': repr(want)})]
        for k, (g, w) in enumerate(zip(got, want)):
            obs += value_equal('%s.%d' % (oid, k), kind, g, w, pc, model_vars, tol, timeout)
        return obs
    if isinstance(want, IArr):
        if not isinstance(got, IArr):
            return [Ob(oid + '/structure', kind, 'refuted', 'syntactic', 0, {'got': repr(got)})]
        return iarr_equal(oid, got, want, pc, list(model_vars))
    if isinstance(want, STensor):
        if not isinstance(got, STensor):
            return [Ob(oid + '/structure', kind, 'refuted', 'syntactic', 0, {'got': repr(got)})]
        if got.ndim != want.ndim:
            return [Ob(oid + '/rank', kind, 'refuted', 'syntactic', 0,
                       {'got': str(got.shape), 'want': str(want.shape)})]
        shape_ok = z3.And(*[I(a) == I(b) for a, b in zip(got.shape, want.shape)]) if want.ndim else True
        obs.append(solve.prove(oid + '/shape', kind, pc, shape_ok, model_vars, timeout))
        idx = [z3.Int('P%d' % k) for k in range(want.ndim)]
        rng = [z3.And(i >= 0, i < I(n)) for i, n in zip(idx, want.shape)]
        a = got.at(idx)
        b = want.at(idx)
        if isinstance(a, TV) or isinstance(b, TV):
            a, b = TV.of(a), TV.of(b)
            obs.append(solve.prove(oid + '/value[term]', kind, list(pc) + rng, a.e == b.e, list(model_vars) + idx, timeout))
            return obs
        obs += solve.gs_equal(oid + '/value', kind, lift(a), lift(b), pc, rng, tol, list(model_vars) + idx, timeout)
        return obs
    if want is None or isinstance(want, (str, bool)):
        ok = (got is want) or (got == want and type(got) == type(want))
        return [Ob(oid + '/const', kind, 'proved' if ok else 'refuted', 'syntactic', 0,
                   {} if ok else {'got': repr(got), 'want': repr(want)})]
    if is_conc(want) or isz(want):
        if not (is_conc(got) or isz(got)):
            return [Ob(oid + '/structure', kind, 'refuted', 'syntactic', 0, {'got': repr(got)})]
        return [solve.prove(oid + '/int', kind, pc, I(got) == I(want), model_vars, timeout)]
    raise Unsupported('cannot compare %r' % (want,))


def linear_obs(oid, value, name='LINEAR'):
    """linear-by-construction: every term of every output element carries exactly
    one data atom (checked at a generic index)"""
    obs = []
    ts = []

    def walk(v):
        if isinstance(v, STensor):
            ts.append(v)
        elif isinstance(v, (tuple, list)):
            for q in v:
                walk(q)
    walk(value)
    for k, t in enumerate(ts):
        idx = [z3.Int('P%d' % q) for q in range(t.ndim)]
        ok = data_degree_ok(lift(t.at(idx)))
        obs.append(Ob('%s/out%d' % (oid, k), name, 'proved' if ok else 'refuted', 'by-construction', 0))
    return obs


def verify_function(oid, modkey, qual, mkargs, base, contract, callee_contracts, model_vars=(),
                    kind='POST', tol=None, timeout=None, check_linear=True, max_paths=400, loop_contracts=None, check_dtype=False):
    """Explore every path of the real body of modkey:qual on generic arguments and
    compare with the contract.  Returns (obligations, info)."""
    obs = []
    info = {'paths': 0, 'raise_paths': 0, 'trace': set()}

    def run():
        c = ctx()
        it = Interp(contracts=callee_contracts, loop_contracts=loop_contracts)
        args, kw = mkargs()
        it.last_args = (args, kw)
        # the contract's own requires are the preconditions of the function under
        # verification: assumed here, proved at call sites
        c.assume_requires = True
        try:
            try:
                want = ('ret', contract(it, *args, **kw))
            except Raised as r:
                want = ('raise', r)
        finally:
            c.assume_requires = False
        try:
            got = ('ret', it.call(modkey, qual, args, kw, force_body=True))
        except Raised as r:
            got = ('raise', r)
        info['trace'] |= set(it.trace)
        return got, want, it
    t0 = time.time()
    paths = explore(run, base, max_paths)
    info['explore_s'] = time.time() - t0
    for k, (c, out) in enumerate(paths):
        CUR.ctx = c
        pos0 = c.pos
        if out[0] == 'raise':        # raised outside body/contract (argument construction)
            raise Unsupported('argument construction raised: %s' % (out[1],))
        got, want, it = out[1]
        pid = '%s/path%d' % (oid, k)
        info['paths'] += 1
        feasible = c.solver.check() != z3.unsat
        if not feasible:
            continue
        if want[0] == 'raise' and got[0] == 'raise':
            info['raise_paths'] += 1
            obs.append(Ob(pid + '/raises-as-specified', kind, 'proved', 'path', 0,
                          {'exception': got[1].kind}))
            continue
        if want[0] != got[0]:
            m = c.solver.model()
            mv = {}
            for v in model_vars:
                val = m.eval(v, model_completion=True)
                mv[str(v)] = val.as_long() if z3.is_int_value(val) else str(val)
            what = ('body raises %s: %s' % (got[1].kind, got[1].msg)) if got[0] == 'raise' else \
                ('body returns but the contract prescribes %s' % want[1].kind)
            obs.append(Ob(pid + '/raise-mismatch', kind, 'refuted', 'path', 0, {'model': mv, 'what': what}))
            continue
        obs += value_equal(pid, kind, got[1], want[1], c.pc, model_vars, tol, timeout)
        obs += solve.safety_obligations(pid, c, model_vars, timeout)
        obs += frame_obs(pid, c, it.last_args)
        if check_dtype or CFG['dtype']:
            obs += dtype_obs(pid, c, got[1], want[1])
        if check_linear:
            obs += linear_obs(pid, got[1])
        if c.pos != pos0:
            raise Unsupported('decision taken while evaluating element closures')
    return obs, info


def reachable_storages(v, acc=None, seen=None):
    """storages reachable from a value (tensors inside tuples, lists, objects)"""
    acc = {} if acc is None else acc
    seen = set() if seen is None else seen
    if id(v) in seen:
        return acc
    seen.add(id(v))
    if isinstance(v, STensor):
        acc[v.base.sid] = v.base
    elif isinstance(v, (tuple, list)):
        for q in v:
            reachable_storages(q, acc, seen)
    elif hasattr(v, 'a') and isinstance(getattr(v, 'a', None), dict):
        for q in v.a.values():
            reachable_storages(q, acc, seen)
    return acc


def frame_obs(pid, c, args, e0=0):
    """FRAME: no in-place write reaches a storage owned by an argument / module buffer (or one that a
    .contiguous() result may share with it); STATE: no attribute of a constructed module is assigned;
    no module-level object is written"""
    owned = reachable_storages(args)
    bad = []
    for e in c.effects[e0:]:
        if e[0] == 'write':
            st = e[1]
            chain = [st] + list(st.may_alias)
            for q in chain:
                if q.sid in owned:
                    bad.append('in-place %s on storage of %s%s' % (e[2], q.owner, '' if q is st else ' (through a .contiguous() result)'))
        elif e[0] == 'attr-write':
            bad.append('module attribute %s assigned outside __init__' % e[2])
        elif e[0] == 'global-write':
            bad.append('module-level object %s written' % e[1])
    return [Ob(pid + '/FRAME[arguments, buffers and module state are not written]', 'FRAME', 'refuted' if bad else 'proved',
               'effect-analysis', 0, {'what': bad[:4], 'model': {}} if bad else {'writes_seen': len([e for e in c.effects[e0:] if e[0] == 'write'])})]


CFG = {'dtype': False}     # the dtype / stride ghosts are claimed by C16 only


def dtype_obs(pid, c, value, want=None, n0=0):
    """DTYPE: every returned tensor has the dtype of the input; operands of different dtypes never meet"""
    from . import prims
    obs = []
    ts = []

    def walk(v):
        if isinstance(v, STensor):
            ts.append(v)
        elif isinstance(v, (tuple, list)):
            for q in v:
                walk(q)
    walk(value)
    got_ts = list(ts)
    del ts[:]
    walk(want)
    exp = [t.meta.get('dtype', prims.DT_IN) for t in ts] if want is not None and len(ts) == len(got_ts) else [prims.DT_IN] * len(got_ts)
    bad = ['%r (expected %r)' % (t.meta.get('dtype'), e) for t, e in zip(got_ts, exp)
           if t.ndim and not (t.meta.get('dtype', prims.DT_IN) == e)]
    mm = [n[1] for n in c.notes[n0:] if n[0] == 'dtype-mismatch']
    ok = not bad and not mm
    obs.append(Ob(pid + '/DTYPE[outputs have the input dtype, no mixed-dtype operation]', 'DTYPE', 'proved' if ok else 'refuted', 'ghost', 0,
                  {} if ok else {'what': (bad + mm)[:4], 'model': {}}))
    vw = [n[1] for n in c.notes[n0:] if n[0] == 'view-on-noncontiguous']
    obs.append(Ob(pid + '/STRIDE[every .view is applied to a known-contiguous tensor]', 'DTYPE', 'proved' if not vw else 'refuted', 'ghost', 0,
                  {} if not vw else {'what': vw[:3], 'model': {}}))
    return obs


def run_group(fn, *a, **k):
    """wrapper used by the pool: never lets an exception escape"""
    t0 = time.time()
    try:
        obs, info = fn(*a, **k)
        return obs, info, None
    except Unsupported as e:
        return [], {}, ('unsupported', str(e))
    except Exception as e:
        return [], {}, ('error', traceback.format_exc())


def slice_obs(oid, out, in_names, k, pc, mv, timeout=None):
    """per-(batch, channel) action, stated directly on the code's result `out`
    (rank >= 2, batch axis 0, channel axis 1, k output channels per input channel):
      (1) out[n, oc, P] mentions input elements of slice (n, oc div k) only;
      (2) the coefficients are the same for every (n, c): they depend on
          (oc mod k, P, M) alone."""
    obs = []
    r = out.ndim
    idx = [z3.Int('P%d' % q) for q in range(r)]
    idx2 = [z3.Int('Q%d' % q) for q in range(r)]
    rng = [z3.And(i >= 0, i < I(n)) for i, n in zip(idx, out.shape)]
    rng2 = [z3.And(i >= 0, i < I(n)) for i, n in zip(idx2, out.shape)]
    canon = Canon()
    ce = coeff_exprs(lift(out.at(idx)), canon)
    for key in sorted(ce, key=str):
        names = key[1]
        dn = [n for n in names if n in in_names]
        if len(dn) != 1:
            obs.append(Ob('%s/slice[%s]/not-linear' % (oid, '*'.join(names)), 'POST', 'refuted', 'by-construction', 0))
            continue
        X = canon.vars(dn[0], len(canon.v[dn[0]]))
        E = coeff_sum(ce[key])
        ch = simp(I(idx[1]) / k) if k != 1 else idx[1]
        st, model, dt, be = solve.check_unsat(list(pc) + rng + [E != 0, z3.Not(z3.And(X[0] == idx[0], X[1] == ch))],
                                              timeout, list(mv) + idx + canon.all())
        nm = '%s/slice[%s]/depends-only-on-own-slice' % (oid, '*'.join(names))
        obs.append(Ob(nm, 'POST', {'unsat': 'proved', 'sat': 'refuted'}.get(st, 'undecided'), be, dt,
                      {'model': model} if st == 'sat' else {}))
        ch2 = simp(I(idx2[1]) / k) if k != 1 else idx2[1]
        E1 = z3.substitute(E, (X[0], idx[0]), (X[1], I(ch)))
        E2 = z3.substitute(E, *([(a, b) for a, b in zip(idx, idx2)] + [(X[0], idx2[0]), (X[1], I(ch2))]))
        same = [a == b for a, b in zip(idx[2:], idx2[2:])]
        if k != 1:
            same.append(idx[1] % k == idx2[1] % k)
        st, model, dt, be = solve.check_unsat(list(pc) + rng + rng2 + same + [E1 != E2], timeout,
                                              list(mv) + idx + idx2 + canon.all())
        nm = '%s/slice[%s]/same-operator-for-every-slice' % (oid, '*'.join(names))
        obs.append(Ob(nm, 'POST', {'unsat': 'proved', 'sat': 'refuted'}.get(st, 'undecided'), be, dt,
                      {'model': model} if st == 'sat' else {}))
    return obs


def explore_body(modkey, qual, mkargs, base, callee_contracts, max_paths=400):
    """all paths of the real body on generic arguments: [(ctx, ('ret', value)|('raise', r), args)]"""
    def run():
        it = Interp(contracts=callee_contracts)
        args, kw = mkargs()
        try:
            return ('ret', it.call(modkey, qual, args, kw, force_body=True)), args
        except Raised as r:
            return ('raise', r), args
    out = []
    for c, res in explore(run, base, max_paths):
        if res[0] == 'raise':
            raise Unsupported('argument construction raised')
        CUR.ctx = c
        if c.solver.check() == z3.unsat:
            continue
        out.append((c, res[1][0], res[1][1]))
    return out
