"""Obligation groups for the DWT half.  A group = one function under contract in
one configuration; it returns (obligations, info).  Property modules assemble
groups; the pool runs them in parallel."""
import z3
from .sym import *
from . import contracts_dwt as CD, verify, solve, prims, specs
from .solve import Ob
from .interp import Interp, explore, SObj
from .specbk import SymBk as bk

Bn, C, H, W, L2, N, Lr2 = z3.Ints('B C H W L2 N Lr2')
L = 2 * L2
Lr = 2 * Lr2
SIZES = [Bn, C, H, W, L2]
BASE = [Bn >= 1, C >= 1, H >= 1, W >= 1, L2 >= 1]

HELPERS = {k: CD.CONTRACTS[k] for k in ('utils:reflect', 'dwt.lowlevel:roll', 'dwt.lowlevel:mypad')}


def _filt_shape(dim, L_):
    return (1, 1, 1, L_) if dim % 4 == 3 else (1, 1, L_, 1)


# ---------------------------------------------------------------------------
# index helpers
# ---------------------------------------------------------------------------
def g_reflect(Q):
    """utils.reflect(x, -1/2, l-1/2)[k] == ext_sym(x[k], l) for every l>=1 and every
    x with at most Q wraps (|2x+1| < (Q+1)*4l); Q=27 covers every pad the library
    can request for filters up to length 102 and signals of length >= 2."""
    l, xv = z3.Ints('l xv')
    base = [l >= 1, 2 * xv + 1 < (Q + 1) * 4 * l, 2 * xv + 1 > -(Q + 1) * 4 * l]
    prims.NPCFG.QB = Q
    obs = []

    def run():
        it = Interp()
        x = IArr((1,), lambda k: xv, 1, 'int')
        return it.call('utils', 'reflect', [x, -0.5, QV(2 * l - 1, 2)], {}, force_body=True)
    for k, (c, out) in enumerate(explore(run, base)):
        pid = 'reflect/path%d' % k
        if out[0] != 'ret':
            obs.append(Ob(pid + '/raises', 'POST', 'refuted', 'path', 0, {'what': str(out[1])}))
            continue
        r = out[1]
        CUR.ctx = c
        v = r.elem([z3.IntVal(0)])
        obs.append(solve.prove(pid + '/value==ext_sym_def', 'POST', c.pc,
                               z3.And(r.den == 1, v == solve.ext_sym_def(xv, l, Q + 2)), [l, xv]))
        obs.append(solve.prove(pid + '/dtype', 'POST', c.pc, r.dtype == 'int', [l, xv]))
        obs += solve.safety_obligations(pid, c, [l, xv])
    # the facts about ext_sym that callers may use follow from the definition
    k_, n_ = z3.Ints('k n')
    d = solve.ext_sym_def(k_, n_, Q + 2)
    rng = [n_ >= 1, k_ >= -2 * (Q + 1) * n_, k_ < 2 * (Q + 1) * n_]
    obs.append(solve.prove('ext_sym/LEMMA[range]', 'LEMMA', rng, z3.And(d >= 0, d < n_), [k_, n_]))
    obs.append(solve.prove('ext_sym/LEMMA[identity-in-range]', 'LEMMA', rng + [k_ >= 0, k_ < n_], d == k_, [k_, n_]))
    obs.append(solve.prove('ext_sym/LEMMA[mirror]', 'LEMMA', rng + [k_ < 0, k_ >= -n_], d == -1 - k_, [k_, n_]))
    obs.append(solve.prove('ext_sym/LEMMA[period]', 'LEMMA', rng + [k_ + 2 * n_ < 2 * (Q + 1) * n_],
                           d == solve.ext_sym_def(k_ + 2 * n_, n_, Q + 2), [k_, n_]))
    return obs, {'Q': Q}


def g_symm_pad():
    l, m = z3.Ints('l m')
    base = [l >= 1, m >= 0]

    def mk():
        return [l, m], {}
    return verify.verify_function('symm_pad_1d', 'utils', 'symm_pad_1d', mk, base, CD.symm_pad_1d_contract,
                                  {'utils:reflect': CD.reflect_contract}, [l, m], check_linear=False)


def iarr_equal(oid, got, want, pc, mv):
    obs = []
    if len(got.shape) != len(want.shape):
        return [Ob(oid + '/rank', 'POST', 'refuted', 'syntactic', 0)]
    obs.append(solve.prove(oid + '/shape', 'POST', pc, z3.And(*[I(a) == I(b) for a, b in zip(got.shape, want.shape)]), mv))
    ks = [z3.Int('K%d' % i) for i in range(len(want.shape))]
    rng = [z3.And(k >= 0, k < I(n)) for k, n in zip(ks, want.shape)]
    obs.append(solve.prove(oid + '/value', 'POST', list(pc) + rng,
                           z3.And(got.den == want.den, I(got.elem(ks)) == I(want.elem(ks))), mv + ks))
    obs.append(Ob(oid + '/dtype', 'POST', 'proved' if got.dtype == want.dtype else 'refuted', 'syntactic', 0,
                  {'got': got.dtype, 'want': want.dtype}))
    return obs


verify.iarr_equal = iarr_equal


def g_roll(dim):
    n = z3.Int('n')
    sh = (Bn, C, H, W)
    base = BASE + [n > -sh[dim % 4], n < sh[dim % 4]]

    def mk():
        return [CD.data_tensor('x', sh), n, dim], {}
    return verify.verify_function('roll[dim=%d]' % dim, 'dwt.lowlevel', 'roll', mk, base, CD.roll_contract, {},
                                  SIZES + [n])


def g_mypad(mode, which):
    pl, pr, pt, pb = z3.Ints('pl pr pt pb')
    base = BASE + [pl >= 0, pr >= 0, pt >= 0, pb >= 0]
    if which == 'v':
        pad = (0, 0, pt, pb)
    elif which == 'h':
        pad = (pl, pr, 0, 0)
    else:
        pad = (pl, pr, pt, pb)
        base = base + [pl + pr >= 1, pt + pb >= 1]

    def mk():
        return [CD.data_tensor('x', (Bn, C, H, W))], {'pad': pad, 'mode': mode}
    return verify.verify_function('mypad[%s,%s]' % (mode, which), 'dwt.lowlevel', 'mypad', mk, base,
                                  CD.mypad_contract, {'utils:reflect': CD.reflect_contract},
                                  SIZES + [pl, pr, pt, pb])


# ---------------------------------------------------------------------------
# 1-D kernels
# ---------------------------------------------------------------------------
def g_afb1d(mode, dim, drop_f1_pre=False):
    def mk():
        x = CD.data_tensor('x', (Bn, C, H, W))
        h0 = CD.filt_tensor('h0', _filt_shape(dim, L), dim % 4)
        h1 = CD.filt_tensor('h1', _filt_shape(dim, L), dim % 4)
        return [x, h0, h1], {'mode': mode, 'dim': dim}
    return verify.verify_function('afb1d[%s,dim=%d]' % (mode, dim), 'dwt.lowlevel', 'afb1d', mk, BASE,
                                  CD.afb1d_contract, HELPERS, SIZES)


def g_afb1d_reshaped(mode):
    """filters handed over in the other orientation: afb1d reshapes them"""
    def mk():
        x = CD.data_tensor('x', (Bn, C, H, W))
        h0 = CD.filt_tensor('h0', (1, 1, L, 1), 2)
        h1 = CD.filt_tensor('h1', (1, 1, L, 1), 2)
        return [x, h0, h1], {'mode': mode, 'dim': 3}
    return verify.verify_function('afb1d[%s,dim=3,filters-as-columns]' % mode, 'dwt.lowlevel', 'afb1d', mk, BASE,
                                  CD.afb1d_contract, HELPERS, SIZES)


def g_sfb1d(mode, dim):
    def mk():
        lo = CD.data_tensor('lo', (Bn, C, H, W))
        hi = CD.data_tensor('hi', (Bn, C, H, W))
        g0 = CD.filt_tensor('g0', _filt_shape(dim, L), dim % 4)
        g1 = CD.filt_tensor('g1', _filt_shape(dim, L), dim % 4)
        return [lo, hi, g0, g1], {'mode': mode, 'dim': dim}
    return verify.verify_function('sfb1d[%s,dim=%d]' % (mode, dim), 'dwt.lowlevel', 'sfb1d', mk, BASE,
                                  CD.sfb1d_contract, HELPERS, SIZES)
