"""Obligation groups for the DWT half.  A group = one function under contract in
one configuration; it returns (obligations, info).  Property modules assemble
groups; the pool runs them in parallel."""
import z3
from .sym import *
from . import contracts_dwt as CD, verify, solve, prims, specs
from .solve import Ob
from .interp import Interp, explore, SObj, RepoClass
from .specbk import SymBk as bk

Bn, C, H, W, L2, N, Lr2 = z3.Ints('B C H W L2 N Lr2')
L = 2 * L2
Lr = 2 * Lr2
SIZES = [Bn, C, H, W, L2]
BASE = [Bn >= 1, C >= 1, H >= 1, W >= 1, L2 >= 1]

HELPERS = {k: CD.CONTRACTS[k] for k in ('utils:reflect', 'dwt.lowlevel:roll', 'dwt.lowlevel:mypad')}


def _filt_shape(dim, L_):
    return (1, 1, 1, L_) if dim % 4 == 3 else (1, 1, L_, 1)


# ---------------------------------------------------------------------------
# index helpers
# ---------------------------------------------------------------------------
def g_reflect(Q):
    """utils.reflect(x, -1/2, l-1/2)[k] == ext_sym(x[k], l) for every l>=1 and every
    x with at most Q wraps (|2x+1| < (Q+1)*4l); Q=27 covers every pad the library
    can request for filters up to length 102 and signals of length >= 2."""
    l, xv = z3.Ints('l xv')
    base = [l >= 1, 2 * xv + 1 < (Q + 1) * 4 * l, 2 * xv + 1 > -(Q + 1) * 4 * l]
    prims.NPCFG.QB = Q
    obs = []

    def run():
        it = Interp()
        x = IArr((1,), lambda k: xv, 1, 'int')
        return it.call('utils', 'reflect', [x, -0.5, QV(2 * l - 1, 2)], {}, force_body=True)
    for k, (c, out) in enumerate(explore(run, base)):
        pid = 'reflect/path%d' % k
        if out[0] != 'ret':
            obs.append(Ob(pid + '/raises', 'POST', 'refuted', 'path', 0, {'what': str(out[1])}))
            continue
        r = out[1]
        CUR.ctx = c
        v = r.elem([z3.IntVal(0)])
        obs.append(solve.prove(pid + '/value==ext_sym_def', 'POST', c.pc,
                               z3.And(r.den == 1, v == solve.ext_sym_def(xv, l, Q + 2)), [l, xv]))
        obs.append(solve.prove(pid + '/dtype', 'POST', c.pc, r.dtype == 'int', [l, xv]))
        obs += solve.safety_obligations(pid, c, [l, xv])
    # the facts about ext_sym that callers may use follow from the definition
    k_, n_ = z3.Ints('k n')
    d = solve.ext_sym_def(k_, n_, Q + 2)
    rng = [n_ >= 1, k_ >= -2 * (Q + 1) * n_, k_ < 2 * (Q + 1) * n_]
    obs.append(solve.prove('ext_sym/LEMMA[range]', 'LEMMA', rng, z3.And(d >= 0, d < n_), [k_, n_]))
    obs.append(solve.prove('ext_sym/LEMMA[identity-in-range]', 'LEMMA', rng + [k_ >= 0, k_ < n_], d == k_, [k_, n_]))
    obs.append(solve.prove('ext_sym/LEMMA[mirror]', 'LEMMA', rng + [k_ < 0, k_ >= -n_], d == -1 - k_, [k_, n_]))
    obs.append(solve.prove('ext_sym/LEMMA[period]', 'LEMMA', rng + [k_ + 2 * n_ < 2 * (Q + 1) * n_],
                           d == solve.ext_sym_def(k_ + 2 * n_, n_, Q + 2), [k_, n_]))
    return obs, {'Q': Q}


def g_symm_pad():
    l, m = z3.Ints('l m')
    base = [l >= 1, m >= 0]

    def mk():
        return [l, m], {}
    return verify.verify_function('symm_pad_1d', 'utils', 'symm_pad_1d', mk, base, CD.symm_pad_1d_contract,
                                  {'utils:reflect': CD.reflect_contract}, [l, m], check_linear=False)


def iarr_equal(oid, got, want, pc, mv):
    obs = []
    if len(got.shape) != len(want.shape):
        return [Ob(oid + '/rank', 'POST', 'refuted', 'syntactic', 0)]
    obs.append(solve.prove(oid + '/shape', 'POST', pc, z3.And(*[I(a) == I(b) for a, b in zip(got.shape, want.shape)]), mv))
    ks = [z3.Int('K%d' % i) for i in range(len(want.shape))]
    rng = [z3.And(k >= 0, k < I(n)) for k, n in zip(ks, want.shape)]
    obs.append(solve.prove(oid + '/value', 'POST', list(pc) + rng,
                           z3.And(got.den == want.den, I(got.elem(ks)) == I(want.elem(ks))), mv + ks))
    obs.append(Ob(oid + '/dtype', 'POST', 'proved' if got.dtype == want.dtype else 'refuted', 'syntactic', 0,
                  {'got': got.dtype, 'want': want.dtype}))
    return obs


verify.iarr_equal = iarr_equal


def g_roll(dim):
    n = z3.Int('n')
    sh = (Bn, C, H, W)
    base = BASE + [n > -sh[dim % 4], n < sh[dim % 4]]

    def mk():
        return [CD.data_tensor('x', sh), n, dim], {}
    return verify.verify_function('roll[dim=%d]' % dim, 'dwt.lowlevel', 'roll', mk, base, CD.roll_contract, {},
                                  SIZES + [n])


def g_mypad(mode, which):
    pl, pr, pt, pb = z3.Ints('pl pr pt pb')
    base = BASE + [pl >= 0, pr >= 0, pt >= 0, pb >= 0]
    if which == 'v':
        pad = (0, 0, pt, pb)
    elif which == 'h':
        pad = (pl, pr, 0, 0)
    else:
        pad = (pl, pr, pt, pb)
        base = base + [pl + pr >= 1, pt + pb >= 1]

    def mk():
        return [CD.data_tensor('x', (Bn, C, H, W))], {'pad': pad, 'mode': mode}
    return verify.verify_function('mypad[%s,%s]' % (mode, which), 'dwt.lowlevel', 'mypad', mk, base,
                                  CD.mypad_contract, {'utils:reflect': CD.reflect_contract},
                                  SIZES + [pl, pr, pt, pb])


# ---------------------------------------------------------------------------
# 1-D kernels
# ---------------------------------------------------------------------------
def shift_canary(contract):
    """deliberately wrong variant of a postcondition: the result shifted by one
    sample along the last axis (vacuity guard: must be refuted)"""
    def wrong(it, *a, **k):
        r = contract(it, *a, **k)
        t = r[0] if isinstance(r, tuple) else r
        ts = t.snap()
        t2 = fresh_like(t.shape, lambda idx: ts(list(idx[:-1]) + [simp(I(idx[-1]) + 1)]), t)
        return (t2,) + tuple(r[1:]) if isinstance(r, tuple) else t2
    return wrong


def g_afb1d(mode, dim, short=False, canary=False):
    """short=True: the region of known finding F1 (periodization, even-extended
    length < L) - the contract's precondition is replaced by its negation"""
    base = list(BASE)
    contract = CD.afb1d_contract
    if short:
        n_ = W if dim % 4 == 3 else H
        base.append(n_ + n_ % 2 < L)
        contract = lambda it, *a, **k: CD.afb1d_contract(it, *a, f1_pre=False, **k)
    if canary:
        contract = shift_canary(contract)

    def mk():
        x = CD.data_tensor('x', (Bn, C, H, W))
        h0 = CD.filt_tensor('h0', _filt_shape(dim, L), dim % 4)
        h1 = CD.filt_tensor('h1', _filt_shape(dim, L), dim % 4)
        return [x, h0, h1], {'mode': mode, 'dim': dim}
    return verify.verify_function('afb1d[%s,dim=%d]' % (mode, dim), 'dwt.lowlevel', 'afb1d', mk, base,
                                  contract, HELPERS, SIZES)


def g_afb1d_reshaped(mode):
    """filters handed over in the other orientation: afb1d reshapes them"""
    def mk():
        x = CD.data_tensor('x', (Bn, C, H, W))
        h0 = CD.filt_tensor('h0', (1, 1, L, 1), 2)
        h1 = CD.filt_tensor('h1', (1, 1, L, 1), 2)
        return [x, h0, h1], {'mode': mode, 'dim': 3}
    return verify.verify_function('afb1d[%s,dim=3,filters-as-columns]' % mode, 'dwt.lowlevel', 'afb1d', mk, BASE,
                                  CD.afb1d_contract, HELPERS, SIZES)


def g_sfb1d(mode, dim, short=False, canary=False):
    base = list(BASE)
    contract = CD.sfb1d_contract
    if short:
        n_ = W if dim % 4 == 3 else H
        base.append(2 * n_ < L - 2)
        contract = lambda it, *a, **k: CD.sfb1d_contract(it, *a, f1_pre=False, **k)
    if canary:
        contract = shift_canary(contract)

    def mk():
        lo = CD.data_tensor('lo', (Bn, C, H, W))
        hi = CD.data_tensor('hi', (Bn, C, H, W))
        g0 = CD.filt_tensor('g0', _filt_shape(dim, L), dim % 4)
        g1 = CD.filt_tensor('g1', _filt_shape(dim, L), dim % 4)
        return [lo, hi, g0, g1], {'mode': mode, 'dim': dim}
    return verify.verify_function('sfb1d[%s,dim=%d]' % (mode, dim), 'dwt.lowlevel', 'sfb1d', mk, base,
                                  contract, HELPERS, SIZES)


# ---------------------------------------------------------------------------
# filter preparation, mode tables
# ---------------------------------------------------------------------------
def g_prep(which, nf=2, layout='1d'):
    names = {'prep_filt_afb1d': CD.prep_filt_afb1d_contract, 'prep_filt_sfb1d': CD.prep_filt_sfb1d_contract,
             'prep_filt_afb2d': CD.prep_filt_afb2d_contract, 'prep_filt_sfb2d': CD.prep_filt_sfb2d_contract}
    callee = {k: CD.CONTRACTS[k] for k in ('dwt.lowlevel:prep_filt_afb1d', 'dwt.lowlevel:prep_filt_sfb1d')} \
        if which.endswith('2d') else {}

    mkf = CD.np1d if layout == '1d' else CD.npcol          # filters as 1-D arrays / lists, or as (L, 1) column arrays

    def mk():
        a = [mkf('f0', L), mkf('f1', L)]
        if nf == 4:
            a += [mkf('f2', Lr), mkf('f3', Lr)]
        return a, {}
    return verify.verify_function('%s[%d filters%s]' % (which, nf, '' if layout == '1d' else ',(L,1) column arrays'), 'dwt.lowlevel', which, mk, BASE + [Lr2 >= 1],
                                  names[which], callee, SIZES + [Lr2], check_linear=False)


def g_mode_tables():
    obs = []
    for fname, table, dom in (('mode_to_int', CD.MODE2INT, list(CD.MODE2INT) + ['bogus']),
                              ('int_to_mode', CD.INT2MODE, list(CD.INT2MODE) + [7, -1])):
        for v in dom:
            CUR.ctx = Ctx([])
            it = Interp()
            try:
                got = ('ret', it.call('dwt.lowlevel', fname, [v], {}, force_body=True))
            except Raised as r:
                got = ('raise', r.kind)
            want = ('ret', table[v]) if v in table else ('raise', 'ValueError')
            obs.append(Ob('%s[%r]' % (fname, v), 'POST', 'proved' if got == want else 'refuted', 'evaluation', 0,
                          {} if got == want else {'got': str(got), 'want': str(want)}))
    # mutually inverse on accepted modes
    for m, k in CD.MODE2INT.items():
        back = CD.INT2MODE[k]
        ok = back == ('periodization' if m == 'per' else m)
        obs.append(Ob('mode-roundtrip[%s]' % m, 'LEMMA', 'proved' if ok else 'refuted', 'evaluation', 0))
    return obs, {}


# ---------------------------------------------------------------------------
# one-level Functions (forward)
# ---------------------------------------------------------------------------
ONE_LEVEL_CALLEES = {k: CD.CONTRACTS[k] for k in ('dwt.lowlevel:afb1d', 'dwt.lowlevel:sfb1d')}


def _fctx(needs=()):
    o = SObj(None)
    o.a['needs_input_grad'] = tuple(needs)
    return o


def g_AFB1D_fwd(mode):
    def mk():
        x = CD.data_tensor('x', (Bn, C, N))
        return [_fctx(), x, CD.filt_tensor('h0', (1, 1, L), 2), CD.filt_tensor('h1', (1, 1, L), 2), CD.MODE2INT[mode]], {}
    return verify.verify_function('AFB1D.forward[%s]' % mode, 'dwt.lowlevel', 'AFB1D.forward', mk,
                                  [Bn >= 1, C >= 1, N >= 1, L2 >= 1],
                                  lambda it, fc, *a: CD.AFB1D_apply_contract(it, *a), ONE_LEVEL_CALLEES, [Bn, C, N, L2])


def g_SFB1D_fwd(mode):
    def mk():
        return [_fctx(), CD.data_tensor('lo', (Bn, C, N)), CD.data_tensor('hi', (Bn, C, N)),
                CD.filt_tensor('g0', (1, 1, L), 2), CD.filt_tensor('g1', (1, 1, L), 2), CD.MODE2INT[mode]], {}
    return verify.verify_function('SFB1D.forward[%s]' % mode, 'dwt.lowlevel', 'SFB1D.forward', mk,
                                  [Bn >= 1, C >= 1, N >= 1, L2 >= 1],
                                  lambda it, fc, *a: CD.SFB1D_apply_contract(it, *a), ONE_LEVEL_CALLEES, [Bn, C, N, L2])


def _filts2d(pref):
    return [CD.filt_tensor(pref + '0_row', (1, 1, 1, Lr), 3), CD.filt_tensor(pref + '1_row', (1, 1, 1, Lr), 3),
            CD.filt_tensor(pref + '0_col', (1, 1, L, 1), 2), CD.filt_tensor(pref + '1_col', (1, 1, L, 1), 2)]


def g_AFB2D_fwd(mode):
    def mk():
        return [_fctx(), CD.data_tensor('x', (Bn, C, H, W))] + _filts2d('h') + [CD.MODE2INT[mode]], {}
    return verify.verify_function('AFB2D.forward[%s]' % mode, 'dwt.lowlevel', 'AFB2D.forward', mk, BASE + [Lr2 >= 1],
                                  lambda it, fc, *a: CD.AFB2D_apply_contract(it, *a), ONE_LEVEL_CALLEES,
                                  SIZES + [Lr2])


def g_SFB2D_fwd(mode):
    def mk():
        return [_fctx(), CD.data_tensor('ll', (Bn, C, H, W)), CD.data_tensor('hs', (Bn, C, 3, H, W))] + \
            _filts2d('g') + [CD.MODE2INT[mode]], {}
    return verify.verify_function('SFB2D.forward[%s]' % mode, 'dwt.lowlevel', 'SFB2D.forward', mk, BASE + [Lr2 >= 1],
                                  lambda it, fc, *a: CD.SFB2D_apply_contract(it, *a), ONE_LEVEL_CALLEES,
                                  SIZES + [Lr2])


def g_afb2d(mode, nf, as_lists=False):
    def mk():
        x = CD.data_tensor('x', (Bn, C, H, W))
        if as_lists:
            f = [CD.np1d('d0c', L), CD.np1d('d1c', L)] + ([CD.np1d('d0r', Lr), CD.np1d('d1r', Lr)] if nf == 4 else [])
        elif nf == 2:
            f = [CD.filt_tensor('h0', (1, 1, L, 1), 2), CD.filt_tensor('h1', (1, 1, L, 1), 2)]
        else:
            r = _filts2d('h')
            f = [r[2], r[3], r[0], r[1]]
        return [x, f], {'mode': mode}
    callees = dict(ONE_LEVEL_CALLEES)
    callees['dwt.lowlevel:prep_filt_afb2d'] = CD.prep_filt_afb2d_contract
    return verify.verify_function('afb2d[%s,%d%s]' % (mode, nf, ',lists' if as_lists else ''), 'dwt.lowlevel', 'afb2d',
                                  mk, BASE + [Lr2 >= 1], CD.afb2d_contract, callees, SIZES + [Lr2])


def g_sfb2d(mode, nf, as_lists=False):
    def mk():
        ts = [CD.data_tensor(n_, (Bn, C, H, W)) for n_ in ('ll', 'lh', 'hl', 'hh')]
        if as_lists:
            f = [CD.np1d('r0c', L), CD.np1d('r1c', L)] + ([CD.np1d('r0r', Lr), CD.np1d('r1r', Lr)] if nf == 4 else [])
        elif nf == 2:
            f = [CD.filt_tensor('g0', (1, 1, L, 1), 2), CD.filt_tensor('g1', (1, 1, L, 1), 2)]
        else:
            r = _filts2d('g')
            f = [r[2], r[3], r[0], r[1]]
        return ts + [f], {'mode': mode}
    callees = dict(ONE_LEVEL_CALLEES)
    callees['dwt.lowlevel:prep_filt_sfb2d'] = CD.prep_filt_sfb2d_contract
    return verify.verify_function('sfb2d[%s,%d%s]' % (mode, nf, ',lists' if as_lists else ''), 'dwt.lowlevel', 'sfb2d',
                                  mk, BASE + [Lr2 >= 1], CD.sfb2d_contract, callees, SIZES + [Lr2])


# ---------------------------------------------------------------------------
# back-propagation: real forward + real backward, kernel transposition
# ---------------------------------------------------------------------------
from . import adjoint as ADJ


def g_adjoint(cls, mode, needs, region=None, canary=False):
    """cls: AFB1D | SFB1D | AFB2D | SFB2D.  needs: tuple of bools for the data
    inputs (x) or (low, high).  region: None | 'even' | 'odd' | 'interior'"""
    one_d = cls.endswith('1D')
    ana = cls.startswith('AFB')
    mv = [Bn, C, N, H, W, L2, Lr2]
    base = [Bn >= 1, C >= 1, N >= 1, H >= 1, W >= 1, L2 >= 1, Lr2 >= 1]
    sp = [N] if one_d else [H, W]
    if region == 'even':
        base += [d % 2 == 0 for d in sp]
    elif region == 'odd':
        base += [z3.Or(*[d % 2 == 1 for d in sp])]
    per = mode in ('per', 'periodization')
    Ls = [L] if one_d else [L, Lr]
    for d, Lx in zip(sp, Ls):
        if ana:
            if per:
                base.append(d + d % 2 >= Lx)          # outside known finding F1
        else:
            if per:
                base.append(2 * d >= Lx)
            else:
                base.append(2 * d - Lx + 2 >= 1)      # synthesis output non-empty
    oid = '%s.backward[%s,needs=%s%s]' % (cls, mode, ''.join('T' if b else 'F' for b in needs),
                                          ',region=' + region if region else '')

    def run():
        it = Interp(contracts=ONE_LEVEL_CALLEES)
        if one_d:
            filt = [CD.filt_tensor('f0', (1, 1, L), 2), CD.filt_tensor('f1', (1, 1, L), 2)]
            shp = (Bn, C, N)
        else:
            filt = _filts2d('f')
            shp = (Bn, C, H, W)
        if ana:
            data = [CD.data_tensor('x', shp, requires_grad=needs[0])]
        elif one_d:
            data = [CD.data_tensor('lo', shp, requires_grad=needs[0]), CD.data_tensor('hi', shp, requires_grad=needs[1])]
        else:
            data = [CD.data_tensor('ll', shp, requires_grad=needs[0]),
                    CD.data_tensor('hs', (Bn, C, 3, H, W), requires_grad=needs[1])]
        args = data + filt + [CD.MODE2INT[mode]]
        fc = _fctx(tuple(needs) + (False,) * (len(args) - len(needs)))
        out = it.call('dwt.lowlevel', cls + '.forward', [fc] + args, {})
        ys = list(out) if isinstance(out, tuple) else [out]
        if canary:      # deliberately wrong forward kernel (shifted by one sample): must be refuted
            y0s = ys[0].snap()
            ys[0] = fresh_like(ys[0].shape, lambda idx: y0s(list(idx[:-1]) + [simp(I(idx[-1]) + 1)]), ys[0])
        gs_ = [CD.data_tensor('g%d' % k, y.shape) for k, y in enumerate(ys)]
        grads = it.call('dwt.lowlevel', cls + '.backward', [fc] + gs_, {})
        return data, ys, gs_, grads
    obs = []
    info = {'paths': 0, 'raise_paths': 0}
    for k, (c, res) in enumerate(explore(run, base)):
        CUR.ctx = c
        if c.solver.check() == z3.unsat:
            continue
        pid = '%s/path%d' % (oid, k)
        info['paths'] += 1
        if res[0] == 'raise':
            r = res[1]
            info['raise_paths'] += 1
            if mode == 'reflect' and 'Padding size' in r.msg:
                obs.append(Ob(pid + '/raises-as-permitted(reflect)', 'POST', 'proved', 'path', 0))
            else:
                m = c.solver.model()
                obs.append(Ob(pid + '/unexpected-raise', 'POST', 'refuted', 'path', 0,
                              {'what': '%s: %s' % (r.kind, r.msg),
                               'model': {str(v): str(m.eval(v, model_completion=True)) for v in mv}}))
            continue
        data, ys, gs_, grads = res[1]
        if not isinstance(grads, tuple):
            obs.append(Ob(pid + '/backward-returns-tuple', 'POST', 'refuted', 'structural', 0))
            continue
        for slot, (d, need) in enumerate(zip(data, needs)):
            g = grads[slot]
            nm = d.base.owner.split(':')[1]
            if not need:
                continue
            if g is None:
                obs.append(Ob('%s/slot%d[%s]-is-None-although-it-requires-grad' % (pid, slot, nm), 'POST', 'refuted',
                              'structural', 0, {'model': {}, 'what': 'backward returns None for an input that requires grad'}))
                continue
            obs.append(solve.prove('%s/slot%d[%s]/shape' % (pid, slot, nm), 'POST', c.pc,
                                   z3.And(g.ndim == d.ndim, *[I(a) == I(b) for a, b in zip(g.shape, d.shape)]), mv))
            extra = []
            if region == 'interior':
                # positions that no boundary extension can touch
                for ax, Lx in ((d.ndim - 1, L if one_d else Lr), (d.ndim - 2, L)) if not one_d else ((d.ndim - 1, L),):
                    v = z3.Int('%s@%d' % (nm, ax))
                    extra += [v >= Lx, v < I(d.shape[ax]) - Lx]
            obs += ADJ.adjoint_obs('%s/slot%d[%s]' % (pid, slot, nm), ys, ['g%d' % q for q in range(len(ys))], g, nm,
                                   c.pc, mv, extra_ranges=extra)
        for slot in range(len(data), len(grads)):
            if grads[slot] is not None:
                obs.append(Ob('%s/slot%d-filter-gradient-not-None' % (pid, slot), 'POST', 'refuted', 'structural', 0))
        obs += solve.safety_obligations(pid, c, mv)
    return obs, info


# ---------------------------------------------------------------------------
# linearity and per-(batch, channel) action, directly on the code (no spec)
# ---------------------------------------------------------------------------
def g_slices(which, mode, dim=3, canary=False):
    """which: afb1d | sfb1d | AFB1D | SFB1D | AFB2D | SFB2D.  No precondition on
    sizes: covers signals shorter than the filter and the known-finding regions."""
    mv = [Bn, C, N, H, W, L2, Lr2]
    base = [Bn >= 1, C >= 1, N >= 1, H >= 1, W >= 1, L2 >= 1, Lr2 >= 1]
    x4 = lambda nm: CD.data_tensor(nm, (Bn, C, H, W))
    x3 = lambda nm: CD.data_tensor(nm, (Bn, C, N))
    f1 = lambda a, b: [CD.filt_tensor(a, (1, 1, L), 2), CD.filt_tensor(b, (1, 1, L), 2)]
    callees = {k_: v for k_, v in HELPERS.items() if not k_.endswith(':roll')}     # roll is inlined: no precondition on sizes
    ins = ['x']
    if which == 'afb1d':
        mk = lambda: ([x4('x'), CD.filt_tensor('h0', _filt_shape(dim, L), dim % 4), CD.filt_tensor('h1', _filt_shape(dim, L), dim % 4)],
                      {'mode': mode, 'dim': dim})
        qual, ks = 'afb1d', [2]
    elif which == 'sfb1d':
        mk = lambda: ([x4('lo'), x4('hi'), CD.filt_tensor('g0', _filt_shape(dim, L), dim % 4), CD.filt_tensor('g1', _filt_shape(dim, L), dim % 4)],
                      {'mode': mode, 'dim': dim})
        qual, ks, ins = 'sfb1d', [1], ['lo', 'hi']
    elif which == 'AFB1D':
        mk = lambda: ([_fctx(), x3('x')] + f1('h0', 'h1') + [CD.MODE2INT[mode]], {})
        qual, ks, callees = 'AFB1D.forward', [1, 1], ONE_LEVEL_CALLEES
    elif which == 'SFB1D':
        mk = lambda: ([_fctx(), x3('lo'), x3('hi')] + f1('g0', 'g1') + [CD.MODE2INT[mode]], {})
        qual, ks, callees, ins = 'SFB1D.forward', [1], ONE_LEVEL_CALLEES, ['lo', 'hi']
    elif which == 'AFB2D':
        mk = lambda: ([_fctx(), x4('x')] + _filts2d('h') + [CD.MODE2INT[mode]], {})
        qual, ks, callees = 'AFB2D.forward', [1, 1], ONE_LEVEL_CALLEES
    elif which == 'SFB2D':
        mk = lambda: ([_fctx(), x4('ll'), CD.data_tensor('hs', (Bn, C, 3, H, W))] + _filts2d('g') + [CD.MODE2INT[mode]], {})
        qual, ks, callees, ins = 'SFB2D.forward', [1], ONE_LEVEL_CALLEES, ['ll', 'hs']
    else:
        raise ValueError(which)
    if which in ('AFB1D', 'SFB1D', 'AFB2D', 'SFB2D'):
        # one-level Functions are checked through the 1-D contracts, whose own
        # preconditions (F1 region) then apply; afb1d/sfb1d themselves are checked bare
        per = mode in ('per', 'periodization')
        for d_, Lx in (((N, L),) if which.endswith('1D') else ((H, L), (W, Lr))):
            if which.startswith('AFB'):
                if per:
                    base.append(d_ + d_ % 2 >= Lx)
            else:
                base.append(2 * d_ >= Lx - 2 if per else 2 * d_ - Lx + 2 >= 1)
    oid = 'slices:%s[%s%s]' % (which, mode, ',dim=%d' % dim if which in ('afb1d', 'sfb1d') else '')
    obs = []
    info = {'paths': 0}
    for k_, (c, out, args) in enumerate(verify.explore_body('dwt.lowlevel', qual, mk, base, callees)):
        pid = '%s/path%d' % (oid, k_)
        info['paths'] += 1
        CUR.ctx = c          # index maps are evaluated lazily: they must see THIS path's condition
        if out[0] == 'raise':
            obs.append(Ob(pid + '/raises(no value to constrain)', 'POST', 'proved', 'path', 0, {'exception': out[1].kind}))
            continue
        outs = list(out[1]) if isinstance(out[1], tuple) else [out[1]]
        for q, (t, kk) in enumerate(zip(outs, ks)):
            if canary:
                kk = kk + 1      # deliberately wrong channel map: must be refuted
            obs += verify.linear_obs('%s/out%d' % (pid, q), t)
            obs += verify.slice_obs('%s/out%d' % (pid, q), t, ins, kk, c.pc, mv)
    return obs, info


# ---------------------------------------------------------------------------
# non-separable bank == separable bank (code against code, through the
# separable functions' contracts)
# ---------------------------------------------------------------------------
NONSEP_CALLEES = dict(HELPERS)
NONSEP_CALLEES['dwt.lowlevel:prep_filt_afb2d_nonsep'] = CD.prep_filt_afb2d_nonsep_contract
NONSEP_CALLEES['dwt.lowlevel:prep_filt_sfb2d_nonsep'] = CD.prep_filt_sfb2d_nonsep_contract


def g_prep_nonsep(which, nf):
    con = CD.prep_filt_afb2d_nonsep_contract if 'afb' in which else CD.prep_filt_sfb2d_nonsep_contract

    def mk():
        a = [CD.np1d('f0', L), CD.np1d('f1', L)]
        if nf == 4:
            a += [CD.np1d('f2', Lr), CD.np1d('f3', Lr)]
        return a, {}
    return verify.verify_function('%s[%d filters]' % (which, nf), 'dwt.lowlevel', which, mk, BASE + [Lr2 >= 1], con, {},
                                  SIZES + [Lr2], check_linear=False)


def _np_filters(nf, pre):
    f = [CD.np1d(pre + '0c', L), CD.np1d(pre + '1c', L)]
    if nf == 4:
        f += [CD.np1d(pre + '0r', Lr), CD.np1d(pre + '1r', Lr)]
    return f


def g_nonsep_afb(mode, nf, canary=False):
    """afb2d_nonsep(x, filters, mode) == afb2d(x, filters, mode) (four subbands, same channel order)"""
    base = BASE + [Lr2 >= 1]
    if mode in ('per', 'periodization'):
        base = base + [H + H % 2 >= L, W + W % 2 >= (Lr if nf == 4 else L)]

    def mk():
        return [CD.data_tensor('x', (Bn, C, H, W)), _np_filters(nf, 'd')], {'mode': mode}
    con = CD.afb2d_contract if not canary else shift_canary(CD.afb2d_contract)
    return verify.verify_function('afb2d_nonsep==afb2d[%s,%d]' % (mode, nf), 'dwt.lowlevel', 'afb2d_nonsep', mk, base,
                                  con, NONSEP_CALLEES, SIZES + [Lr2])


def g_nonsep_sfb(mode, nf):
    """sfb2d_nonsep(coeffs, filters, mode) == sfb2d(ll, lh, hl, hh, filters, mode)"""
    base = BASE + [Lr2 >= 1]
    Lx = Lr if nf == 4 else L
    if mode in ('per', 'periodization'):
        base = base + [2 * H >= L - 2, 2 * W >= Lx - 2]
    else:
        base = base + [2 * H - L + 2 >= 1, 2 * W - Lx + 2 >= 1]

    def mk():
        return [CD.data_tensor('co', (Bn, C, 4, H, W)), _np_filters(nf, 'r')], {'mode': mode}

    def contract(it, coeffs, filts, mode='zero'):
        bands = [tget(coeffs, (slice(None), slice(None), k)) for k in range(4)]
        return CD.sfb2d_contract(it, bands[0], bands[1], bands[2], bands[3], filts, mode)
    return verify.verify_function('sfb2d_nonsep==sfb2d[%s,%d]' % (mode, nf), 'dwt.lowlevel', 'sfb2d_nonsep', mk, base,
                                  contract, NONSEP_CALLEES, SIZES + [Lr2])


def g_nonsep_direct(kind, nf, region='short'):
    """periodization inside the region of finding F1 (some even-extended size is
    smaller than the filter): no spec is available there, so the two real bodies
    are executed side by side (1-D banks inlined) and compared with each other."""
    base = BASE + [Lr2 >= 1]
    Lx = Lr if nf == 4 else L
    if kind == 'afb':
        base = base + [z3.Or(H + H % 2 < L, W + W % 2 < Lx)]
    else:
        base = base + [z3.Or(2 * H < L - 2, 2 * W < Lx - 2)]
    callees = {k: v for k, v in NONSEP_CALLEES.items() if not k.endswith(':roll')}
    callees['dwt.lowlevel:prep_filt_afb2d'] = CD.prep_filt_afb2d_contract
    callees['dwt.lowlevel:prep_filt_sfb2d'] = CD.prep_filt_sfb2d_contract

    def mk():
        if kind == 'afb':
            return [CD.data_tensor('x', (Bn, C, H, W)), _np_filters(nf, 'd')], {'mode': 'periodization'}
        return [CD.data_tensor('co', (Bn, C, 4, H, W)), _np_filters(nf, 'r')], {'mode': 'periodization'}

    def contract(it, a, filts, mode='zero'):
        it2 = Interp(contracts=callees)
        if kind == 'afb':
            return it2.call('dwt.lowlevel', 'afb2d', [a, filts], {'mode': mode}, force_body=True)
        bands = [tget(a, (slice(None), slice(None), k)) for k in range(4)]
        return it2.call('dwt.lowlevel', 'sfb2d', bands + [filts], {'mode': mode}, force_body=True)
    return verify.verify_function('%s2d_nonsep==%s2d[periodization,%d,region=short-signal]' % (kind, kind, nf), 'dwt.lowlevel',
                                  '%s2d_nonsep' % kind, mk, base, contract, callees, SIZES + [Lr2], max_paths=3000)


# ---------------------------------------------------------------------------
# perfect reconstruction: closed-form lemma (symbolic) + shape lemmas
# ---------------------------------------------------------------------------
def g_pr_closed_form(dim, mode, canary=False):
    Lc2_, Lr2_ = z3.Ints('Lc2 Lr2')
    Lc_, Lr_ = 2 * Lc2_, 2 * Lr2_
    mv = [Bn, C, N, H, W, Lc2_, Lr2_]
    base = [Bn >= 1, C >= 1, N >= 1, H >= 1, W >= 1, Lc2_ >= 1, Lr2_ >= 1]
    per = mode in ('per', 'periodization')
    if per:
        base += [N + N % 2 >= Lc_] if dim == 1 else [H + H % 2 >= Lc_, W + W % 2 >= Lr_]
    CUR.ctx = Ctx(base)
    wc = CD.wavelet_obj('col.', Lc_)
    wr = CD.wavelet_obj('row.', Lr_)
    if dim == 1:
        A = CD.data_tensor('x', (Bn, C, N))
        lo, hi = CD.spec_level_1d(A, wc.a['dec_lo'], wc.a['dec_hi'], mode)
        R = CD.spec_inv_level_1d(lo, hi, wc.a['rec_lo'], wc.a['rec_hi'], mode)
        CF = CD.pr_closed_form_1d(A, wc, mode)
        Rc = tget(R, (slice(None), slice(None), slice(0, N)))
        ext_ok = z3.Or(I(R.shape[2]) == N, I(R.shape[2]) == N + 1)
    else:
        A = CD.data_tensor('x', (Bn, C, H, W))
        ll, hs = CD.spec_level_2d(A, (wc.a['dec_lo'], wc.a['dec_hi']), (wr.a['dec_lo'], wr.a['dec_hi']), mode)
        R = CD.spec_inv_level_2d(ll, hs, (wc.a['rec_lo'], wc.a['rec_hi']), (wr.a['rec_lo'], wr.a['rec_hi']), mode)
        CF = CD.pr_closed_form_2d(A, wc, wr, mode)
        Rc = tget(R, (slice(None), slice(None), slice(0, H), slice(0, W)))
        ext_ok = z3.And(z3.Or(I(R.shape[2]) == H, I(R.shape[2]) == H + 1), z3.Or(I(R.shape[3]) == W, I(R.shape[3]) == W + 1))
    if canary:
        cs = CF.snap()
        CF = fresh_like(CF.shape, lambda idx: cs(list(idx[:-1]) + [simp(I(idx[-1]) + 1)]), CF)
    c = ctx()
    oid = 'LEMMA/closed-form-of-idwt(dwt(x))[%dD,%s]' % (dim, mode)
    obs = [solve.prove(oid + '/extent-is-N-or-N+1', 'LEMMA', c.pc, ext_ok, mv)]
    obs += verify.value_equal(oid, 'LEMMA', Rc, CF, c.pc, mv)
    return obs, {}


def g_pr_shapes():
    """the inverse loop's unpad rule restores the forward pyramid's extents"""
    n, l2 = z3.Ints('n l2')
    l = 2 * l2
    obs = []
    for mode in ('zero', 'periodization'):
        m = specs.dwt_len(bk, n, l, mode)
        back = specs.idwt_len(bk, m, l, mode)
        obs.append(solve.prove('LEMMA/idwt_len(dwt_len(n))in{n,n+1}[%s]' % mode, 'LEMMA', [n >= 1, l2 >= 1],
                               z3.Or(back == n, back == n + 1), [n, l2]))
        obs.append(solve.prove('LEMMA/synthesis-defined-on-forward-shapes[%s]' % mode, 'LEMMA', [n >= 1, l2 >= 1],
                               back >= 1, [n, l2]))
        # lowpass handed to level j by level j+1 has extent n' in {m, m+1}; the detail has extent m:
        # "drop the last sample iff longer than the detail" yields extent m exactly
        npr = z3.Int('nprime')
        obs.append(solve.prove('LEMMA/unpad-rule-yields-detail-extent[%s]' % mode, 'LEMMA',
                               [n >= 1, l2 >= 1, z3.Or(npr == m, npr == m + 1)],
                               z3.If(npr > m, npr - 1, npr) == m, [n, l2, npr]))
    return obs, {}


def g_orth_transpose(dim):
    """periodization, even extents >= L, synthesis filters = reversed analysis filters:
    the synthesis operator is the transpose of the analysis operator (spec level)"""
    Lc2_, Lr2_ = z3.Ints('Lc2 Lr2')
    Lc_, Lr_ = 2 * Lc2_, 2 * Lr2_
    mv = [Bn, C, N, H, W, Lc2_, Lr2_]
    base = [Bn >= 1, C >= 1, Lc2_ >= 1, Lr2_ >= 1]
    base += [N % 2 == 0, N >= Lc_] if dim == 1 else [H % 2 == 0, W % 2 == 0, H >= Lc_, W >= Lr_]
    CUR.ctx = Ctx(base)
    c = ctx()

    def wavelet(pre, L_):
        w = CD.wavelet_obj(pre, L_)
        for k_ in ('lo', 'hi'):
            d = w.a['dec_' + k_]
            ds = d.snap()
            w.a['rec_' + k_] = STensor((L_,), lambda idx, ds=ds: ds([simp(I(L_) - 1 - I(idx[0]))]), meta=dict(d.meta))
        return w
    wc, wr = wavelet('col.', Lc_), wavelet('row.', Lr_)
    mode = 'periodization'
    if dim == 1:
        A = CD.data_tensor('x', (Bn, C, N))
        ys = list(CD.spec_level_1d(A, wc.a['dec_lo'], wc.a['dec_hi'], mode))
        gs_ = [CD.data_tensor('g%d' % k, y.shape) for k, y in enumerate(ys)]
        S = CD.spec_inv_level_1d(gs_[0], gs_[1], wc.a['rec_lo'], wc.a['rec_hi'], mode)
    else:
        A = CD.data_tensor('x', (Bn, C, H, W))
        ys = list(CD.spec_level_2d(A, (wc.a['dec_lo'], wc.a['dec_hi']), (wr.a['dec_lo'], wr.a['dec_hi']), mode))
        gs_ = [CD.data_tensor('g%d' % k, y.shape) for k, y in enumerate(ys)]
        S = CD.spec_inv_level_2d(gs_[0], gs_[1], (wc.a['rec_lo'], wc.a['rec_hi']), (wr.a['rec_lo'], wr.a['rec_hi']), mode)
    oid = 'LEMMA/synthesis(reverse(dec))==analysis(dec)^T[%dD,periodization,even>=L]' % dim
    obs = [solve.prove(oid + '/square', 'LEMMA', c.pc, z3.And(*[I(a) == I(b) for a, b in zip(S.shape, A.shape)]), mv)]
    obs += ADJ.adjoint_obs(oid, ys, ['g0', 'g1'], S, 'x', c.pc, mv, kind='LEMMA')
    return obs, {}


# ---------------------------------------------------------------------------
# stationary transform
# ---------------------------------------------------------------------------
def g_atrous1d(dim, dil, mode='periodic', canary=False):
    def mk():
        x = CD.data_tensor('x', (Bn, C, H, W))
        return [x, CD.filt_tensor('h0', _filt_shape(dim, L), dim % 4), CD.filt_tensor('h1', _filt_shape(dim, L), dim % 4)], \
            {'mode': mode, 'dim': dim, 'dilation': dil}
    con = CD.afb1d_atrous_contract
    if canary:     # deliberately wrong: the contract of the next dilation
        con = lambda it, *a, **k: CD.afb1d_atrous_contract(it, *a, **dict(k, dilation=2 * k['dilation']))
    return verify.verify_function('afb1d_atrous[%s,dim=%d,dilation=%d]' % (mode, dim, dil), 'dwt.lowlevel', 'afb1d_atrous', mk,
                                  BASE, con, HELPERS, SIZES)


def g_atrous2d(dil, mode='periodic'):
    def mk():
        r = _filts2d('h')
        return [CD.data_tensor('x', (Bn, C, H, W)), (r[2], r[3], r[0], r[1])], {'mode': mode, 'dilation': dil}
    return verify.verify_function('afb2d_atrous[%s,dilation=%d]' % (mode, dil), 'dwt.lowlevel', 'afb2d_atrous', mk,
                                  BASE + [Lr2 >= 1], CD.afb2d_atrous_contract,
                                  {'dwt.lowlevel:afb1d_atrous': CD.afb1d_atrous_contract}, SIZES + [Lr2])


def g_swt_module(JMAX, mode, waveform='wavelet'):
    """SWTForward: real __init__ + forward with a symbolic number of levels J <= JMAX.
    Level-loop invariant: after j iterations  ll = A_j,  coeffs = [Y_1..Y_j]  with
    Y_{j+1} = one pywt.swt2 level of A_j with dilation 2^j and A_{j+1} = Y_{j+1}[:, :, 0].
    INV-step is proved for every j < JMAX separately (2**j is evaluated concretely:
    the proof is BOUNDED in the number of levels, unbounded in everything else)."""
    from .modules_dwt import Side, _fresh_dims, same_tensor
    from .prims import SList
    Lc2_, Lr2_, Jv = z3.Ints('Lc2 Lr2 J')
    Lc_, Lr_ = 2 * Lc2_, 2 * Lr2_
    mv = [Bn, C, H, W, Lc2_, Lr2_, Jv]
    base = [Bn >= 1, C >= 1, H >= 1, W >= 1, Lc2_ >= 1, Lr2_ >= 1, Jv >= 1, Jv <= JMAX]
    oid = 'SWTForward[J<=%d,%s,%s]' % (JMAX, mode, waveform)
    callees = {'dwt.lowlevel:prep_filt_afb2d': CD.prep_filt_afb2d_contract, 'dwt.lowlevel:afb2d_atrous': CD.afb2d_atrous_contract}

    def rule_for(side):
        def rule(it, node, rng, env):
            from .modules_dwt import loop_state
            c = ctx()
            tv, lv = loop_state(node, env, 'll', 'coeffs')
            if lv is None:
                raise Unsupported('level loop without an accumulating list')
            L0 = env[lv]
            if not isinstance(L0, list) or not is_conc(simp(rng.lo)):
                raise Unsupported('level loop over a list / range the rule does not know')
            k0 = len(L0)                               # levels computed before the loop (0 in the shipped code)
            side.rec.append(('init', env.get(tv) if tv else None, list(L0), rng, k0))
            T0 = L0[0] if k0 else env[tv]
            saved = dict(env)
            for k in range(max(0, JMAX - k0)):
                idx = k0 + k                           # number of levels already in the list = index of the level computed now
                e2 = dict(saved)
                dims = _fresh_dims('n', 2)
                pre = SList(idx, 'Y')
                if tv is not None:
                    A = CD.data_tensor('A', tuple(T0.shape[:2]) + tuple(dims))
                    e2[tv] = A
                    pre.last = None
                else:
                    # the body takes the running approximation from the last list element: Y_prev[:, :, 0]
                    Yp = CD.data_tensor('Yp', tuple(T0.shape[:2]) + (4,) + tuple(dims))
                    A = tget(Yp, (slice(None), slice(None), 0))
                    pre.last = Yp
                e2[lv] = pre
                it.assign(node.target, simp(I(rng.lo) + k), e2)
                it.run(node.body, e2)
                side.rec.append(('step', idx, A, e2[tv] if tv is not None else None, e2[lv], pre))
            env[lv] = SList(Jv, 'Y')
            if tv is not None:
                env[tv] = None
            side.exit = env[lv]
        return rule

    def run():
        side = Side()
        wc = CD.wavelet_obj('col.', Lc_)
        wr = CD.wavelet_obj('row.', Lr_) if waveform == 'tuple4' else wc
        it = Interp(contracts=callees, hooks={'pywt.Wavelet': lambda name: wc})
        it.loop_contracts[(('dwt.transform2d', 'SWTForward.forward'), 0)] = rule_for(side)
        wave = wc if waveform == 'wavelet' else (wc.a['dec_lo'], wc.a['dec_hi'], wr.a['dec_lo'], wr.a['dec_hi'])
        kw = {'J': Jv, 'wave': wave}
        if mode is not None:
            kw['mode'] = mode
        self = prims.instantiate(it, RepoClass('dwt.transform2d', 'SWTForward'), [], kw)
        x = CD.data_tensor('x', (Bn, C, H, W))
        return it.call('dwt.transform2d', 'SWTForward.forward', [self, x], {}), x, wc, wr, side
    obs = []
    info = {'paths': 0}
    for k, (c, res) in enumerate(explore(run, base)):
        CUR.ctx = c
        if c.solver.check() == z3.unsat:
            continue
        pid = '%s/path%d' % (oid, k)
        info['paths'] += 1
        if res[0] == 'raise':
            obs.append(Ob(pid + '/unexpected-raise', 'POST', 'refuted', 'path', 0,
                          {'what': '%s: %s' % (res[1].kind, res[1].msg), 'model': {'J': 1}}))
            continue
        out, x, wc, wr, side = res[1]
        for rec in side.rec:
            if rec[0] == 'init':
                _, T0, L0, rng, k0 = rec
                filt = ((wc.a['dec_lo'], wc.a['dec_hi']), (wr.a['dec_lo'], wr.a['dec_hi']))
                if k0 == 0:
                    ok = same_tensor(T0, x) and L0 == []
                    obs.append(Ob(pid + '/INV-init', 'INV-init', 'proved' if ok else 'refuted', 'structural', 0))
                else:
                    # levels computed before the loop: level i+1 is one swt2 level (dilation 2^i) of the approximation of level i
                    approx = x
                    for i_, Y_ in enumerate(L0):
                        want0 = CD.spec_swt_level_2d(approx, filt[0], filt[1], 2 ** i_)
                        obs += verify.value_equal('%s/INV-init[level %d computed before the loop]' % (pid, i_ + 1), 'INV-init', Y_, want0, c.pc, mv)
                        approx = tget(want0, (slice(None), slice(None), 0))
                    if T0 is not None:
                        obs += verify.value_equal(pid + '/INV-init[running approximation]', 'INV-init', T0, approx, c.pc, mv)
                obs.append(solve.prove(pid + '/INV-init[the loop index runs over the remaining levels %d..J)' % k0, 'INV-init', c.pc,
                                       z3.And(I(rng.lo) == k0, I(rng.hi) == Jv), mv))
            else:
                _, jc, A, newT, lst, pre = rec
                want = CD.spec_swt_level_2d(A, (wc.a['dec_lo'], wc.a['dec_hi']), (wr.a['dec_lo'], wr.a['dec_hi']), 2 ** jc)
                ok = lst is pre and len(lst.tail) == 1
                obs.append(Ob('%s/INV-step[j=%d]/one-level-appended' % (pid, jc), 'INV-step', 'proved' if ok else 'refuted', 'structural', 0))
                if ok:
                    obs += verify.value_equal('%s/INV-step[j=%d]/level' % (pid, jc), 'INV-step', lst.tail[0], want, c.pc, mv)
                    if newT is not None:
                        obs += verify.value_equal('%s/INV-step[j=%d]/next-approximation' % (pid, jc), 'INV-step', newT,
                                                  tget(want, (slice(None), slice(None), 0)), c.pc, mv)
        ok = out is side.exit and not out.tail
        obs.append(Ob(pid + '/POST[returns [Y_1..Y_J]]', 'POST', 'proved' if ok else 'refuted', 'structural', 0))
        obs += solve.safety_obligations(pid, c, mv)
    return obs, info
