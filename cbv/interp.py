"""AST interpreter over the real pytorch_wavelets source (symbolic execution).

The function bodies are interpreted *as they are*; this file only knows Python's
semantics (the subset listed in DESIGN.md 3.1) and dispatches library calls to
the primitive axioms in prims.py.
"""
import ast, operator
import z3
from . import front
from .sym import *
from . import sym


class Ret(Exception):
    def __init__(s, v):
        s.v = v


class Brk(Exception):
    pass


class Cont(Exception):
    pass


class TypeTok:
    def __init__(s, name):
        s.name = name

    def __repr__(s):
        return '<type %s>' % s.name


TY_TENSOR = TypeTok('torch.Tensor')
TY_NDARRAY = TypeTok('numpy.ndarray')
TY_WAVELET = TypeTok('pywt.Wavelet')
TY_FUNCTION = TypeTok('torch.autograd.Function')
TY_MODULE = TypeTok('nn.Module')
TY_SIZE = TypeTok('torch.Size')


class ExcTok:
    def __init__(s, name):
        s.name = name

    def __call__(s, *a, **k):
        return ExcVal(s.name, a)


class ExcVal:
    def __init__(s, name, args):
        s.name = name
        s.args = args


class Opaque:
    def __init__(s, n):
        s.n = n

    def __repr__(s):
        return '<%s>' % s.n


class NS:
    def __init__(s, name, d):
        s.name = name
        s.d = d

    def get(s, k):
        if k not in s.d:
            raise Unsupported('%s.%s is not axiomatised' % (s.name, k))
        return s.d[k]


class SObj:
    """python object with an attribute dictionary (self, ctx, Wavelet...)"""
    def __init__(s, cls=None, **kw):
        s.__dict__['cls'] = cls
        s.__dict__['a'] = dict(kw)
        s.__dict__['buffers'] = []

    def __repr__(s):
        return '<obj %s>' % (s.cls,)


USED_CONTRACTS = set()          # callee contracts applied while a group ran (read by cbv.check: modularity audit)


class SymSet:
    """a python set literal holding symbolic integers"""
    def __init__(s, el):
        s.el = list(el)


class LocalFn:
    """closure of a nested def / lambda"""
    def __init__(s, node, env):
        s.node, s.env = node, env


class RepoFn:
    def __init__(s, modkey, qual):
        s.modkey = modkey
        s.qual = qual

    def __repr__(s):
        return '<fn %s:%s>' % (s.modkey, s.qual)


class RepoClass:
    def __init__(s, modkey, name):
        s.modkey = modkey
        s.name = name

    def __repr__(s):
        return '<class %s:%s>' % (s.modkey, s.name)


class ModNS:
    def __init__(s, modkey):
        s.modkey = modkey


class BoundMethod:
    def __init__(s, obj, fn):
        s.obj = obj
        s.fn = fn


class SuperObj:
    pass


CMP = {ast.Eq: operator.eq, ast.NotEq: operator.ne, ast.Lt: operator.lt, ast.LtE: operator.le,
       ast.Gt: operator.gt, ast.GtE: operator.ge}
BIN = {ast.Add: '+', ast.Sub: '-', ast.Mult: '*', ast.Div: '/', ast.FloorDiv: '//', ast.Mod: '%', ast.Pow: '**',
       ast.LShift: '<<', ast.RShift: '>>', ast.BitAnd: '&', ast.BitOr: '|', ast.BitXor: '^', ast.MatMult: '@'}


class Interp:
    def __init__(s, contracts=None, loop_contracts=None, prims=None, hooks=None):
        from . import prims as P
        s.P = prims or P
        s.contracts = dict(contracts or {})
        s.loop_contracts = dict(loop_contracts or {})
        s.trace = []
        s.applied = []       # (class qual, ctx obj, args, result) for every Function.apply
        s.modglobals = {}
        s.depth = 0
        s.hooks = hooks or {}
        s.cur_fn = []

    # ------------------------------------------------------------------ globals
    def globals_of(s, modkey):
        if modkey in s.modglobals:
            return s.modglobals[modkey]
        m = front.mod(modkey)
        g = {}
        s.modglobals[modkey] = g
        for n in m.imports:
            if isinstance(n, ast.Import):
                for al in n.names:
                    nm = al.asname or al.name.split('.')[0]
                    g[nm] = s.resolve_module(al.name, al.asname is not None)
            else:
                if n.module == '__future__':
                    continue
                base = n.module or ''
                if n.level:
                    pk = 'pytorch_wavelets.' + modkey
                    parts = pk.split('.')[:-n.level]
                    base = '.'.join(parts + ([n.module] if n.module else []))
                for al in n.names:
                    g[al.asname or al.name] = s.resolve_from(base, al.name)
        for name, fn in m.funcs.items():
            if '.' not in name:
                g[name] = RepoFn(modkey, name)
        for name in m.classes:
            g[name] = RepoClass(modkey, name)
        for a in m.assigns:
            if len(a.targets) == 1 and isinstance(a.targets[0], ast.Name):
                tn = a.targets[0].id
                if isinstance(a.value, ast.Dict) and not a.value.keys:
                    g[tn] = s.P.GlobalDict(modkey + '.' + tn)
                elif isinstance(a.value, ast.Constant):
                    g[tn] = a.value.value
                else:
                    # immutable module-level constants (tuples / frozen tables of literals): evaluated as python literals
                    try:
                        v = ast.literal_eval(a.value)
                    except Exception:
                        # an expression over earlier constants (no calls, no attribute access): evaluate it
                        if any(isinstance(q, (ast.Lambda, ast.Dict, ast.List, ast.Set, ast.ListComp, ast.DictComp, ast.SetComp)) for q in ast.walk(a.value)):
                            continue
                        calls = [q for q in ast.walk(a.value) if isinstance(q, ast.Call)]
                        if any(not (isinstance(q.func, ast.Attribute) and isinstance(q.func.value, ast.Name) and q.func.value.id in ('math', 'np', 'numpy'))
                               for q in calls):
                            continue          # only pure library functions (math.sqrt(2), ...) are evaluated at module level
                        try:
                            v = s.ev(a.value, {'__globals__': g})
                        except Exception:
                            continue

                    def immutable(q):
                        return q is None or isinstance(q, (str, int, float, frozenset, Fr, Sqrt2)) or (isinstance(q, tuple) and all(immutable(r) for r in q))
                    if immutable(v):
                        g[tn] = v
        return g

    def resolve_module(s, name, aliased):
        if name in front.PKG2KEY:
            return ModNS(front.PKG2KEY[name])
        if name == 'torch.nn.functional':
            return s.P.F_NS
        if name == 'torch.nn':
            return s.P.NN_NS
        if name in ('numpy',):
            return s.P.NP_NS
        if name == 'torch':
            return s.P.TORCH_NS
        if name == 'pywt':
            return s.P.PYWT_NS
        if name in ('functools', 'warnings', 'itertools', 'collections', 'typing'):
            return NS(name, {})
        if name == 'math':
            return s.P.MATH_NS
        raise Unsupported('import %s' % name)

    def resolve_from(s, base, name):
        if base in front.PKG2KEY:
            key = front.PKG2KEY[base]
            m = front.mod(key)
            if name in m.classes:
                return RepoClass(key, name)
            if name in m.funcs:
                return RepoFn(key, name)
            gl = s.globals_of(key)
            if name in gl:
                return gl[name]
            raise Unsupported('from %s import %s' % (base, name))
        table = {'torch.autograd': {'Function': TY_FUNCTION},
                 'torch': s.P.TORCH_NS.d, 'numpy': s.P.NP_NS.d,
                 'pkg_resources': {'resource_stream': Opaque('resource_stream')},
                 'functools': {}}
        if base in table and name in table[base]:
            return table[base][name]
        raise Unsupported('from %s import %s' % (base, name))

    BUILTINS = None

    def builtin(s, name):
        b = s.P.builtins(s)
        if name in b:
            return b[name]
        import builtins as _b
        if hasattr(_b, name):
            raise Unsupported('python builtin %s is not modelled' % name)
        # a name the current function assigns somewhere but not on this path is python's UnboundLocalError; anything else
        # is a global the front end could not evaluate: no verdict rather than a claimed exception
        if s.cur_fn:
            try:
                fn = front.func(*s.cur_fn[-1])
                stored = {q.id for q in ast.walk(fn) if isinstance(q, ast.Name) and isinstance(q.ctx, ast.Store)} | \
                         {q.name for q in ast.walk(fn) if isinstance(q, ast.FunctionDef)}
            except Exception:
                stored = None
            if stored is not None and name not in stored:
                raise Unsupported("global name '%s' is not known to the executor" % name)
        raise Raised('UnboundLocalError', "name '%s' is not bound on this path" % name)

    # ---------------------------------------------------------------- expressions
    def ev(s, n, env):
        return getattr(s, 'e_' + type(n).__name__)(n, env)

    def e_Constant(s, n, env):
        return n.value

    def e_Name(s, n, env):
        if n.id in env:
            return env[n.id]
        c = env.get('__closure__')
        while c is not None:              # enclosing function scopes (nested def / lambda)
            if n.id in c:
                return c[n.id]
            c = c.get('__closure__')
        g = env['__globals__']
        if n.id in g:
            return g[n.id]
        return s.builtin(n.id)

    def e_Tuple(s, n, env):
        out = []
        for e in n.elts:
            if isinstance(e, ast.Starred):
                out.extend(s.ev(e.value, env))
            else:
                out.append(s.ev(e, env))
        return tuple(out)

    def e_List(s, n, env):
        return list(s.e_Tuple(n, env))

    def e_Dict(s, n, env):
        out = {}
        for k, v in zip(n.keys, n.values):
            if k is None:                       # {**other}
                out.update(s.ev(v, env))
                continue
            kk = s.ev(k, env)
            if isz(kk) or isinstance(kk, (STensor, TV)):
                raise Unsupported('dict literal with a symbolic key')       # python would hash the z3 term
            out[kk] = s.ev(v, env)
        return out

    def e_JoinedStr(s, n, env):
        return '<fstring>'

    def e_UnaryOp(s, n, env):
        v = s.ev(n.operand, env)
        if isinstance(n.op, ast.USub):
            if isinstance(v, STensor):
                return t_bin('*', v, -1)
            if isinstance(v, IArr):
                return arr_arith('sub', 0, v)
            return simp(-v) if isz(v) else -v
        if isinstance(n.op, ast.Not):
            if isz(v):
                return simp(z3.Not(v))
            return not s.truth(v)
        if isinstance(n.op, ast.UAdd):
            return v
        raise Unsupported('unary op')

    def binop(s, op, a, b):
        P = s.P
        if isinstance(a, (set, frozenset, SymSet)) or isinstance(b, (set, frozenset, SymSet)):
            return s.set_op(op, a, b)
        if op in ('<<', '>>', '&', '|', '^', '@'):
            if isinstance(a, bool) and isinstance(b, bool) or (isinstance(a, int) and isinstance(b, int)):
                return {'<<': operator.lshift, '>>': operator.rshift, '&': operator.and_, '|': operator.or_, '^': operator.xor}[op](a, b) \
                    if op != '@' else (_ for _ in ()).throw(Unsupported('matmul of integers'))
            if op in ('&', '|') and all(isinstance(q, (bool, z3.BoolRef)) for q in (a, b)):
                return simp(z3.And(B(a), B(b)) if op == '&' else z3.Or(B(a), B(b)))
            if op == '<<' and is_conc(a) and isz(b):
                k = CUR.ctx.forced_value(b)
                if k is not None and k >= 0:
                    return a << k
            raise Unsupported('operator %s on symbolic / tensor operands' % op)
        if isinstance(a, STensor) or isinstance(b, STensor):
            if op == '**':
                return P.t_pow(a, b)
            if op in ('+', '-', '*', '/'):
                return P.tensor_bin(op, a, b)
            raise Unsupported('tensor op ' + op)
        if isinstance(a, TV) or isinstance(b, TV):
            if op == '**' and is_conc(b) and b == 2:
                return a * a
            if op in ('+', '-', '*', '/'):
                x_, y_ = TV.of(a), TV.of(b)
                return {'+': x_ + y_, '-': x_ - y_, '*': x_ * y_, '/': x_ / y_}[op]
            raise Unsupported('term op ' + op)
        if op == '*' and isinstance(a, (list, tuple)) and (isz(b) or is_conc(b)):
            if is_conc(b):
                return a * b
            return PList(a, b)
        if op == '*' and isinstance(b, (list, tuple)) and (isz(a) or is_conc(a)):
            return s.binop(op, b, a)
        if op == '+' and isinstance(a, (list, tuple)) and isinstance(b, (list, tuple)):
            return a + b
        if isinstance(a, IArr) or isinstance(b, IArr):
            return arr_arith({'+': 'add', '-': 'sub'}.get(op, op), a, b)
        if isinstance(a, (float, QV)) or isinstance(b, (float, QV)):
            if isinstance(a, (int, float)) and isinstance(b, (int, float)):
                return {'+': operator.add, '-': operator.sub, '*': operator.mul, '/': operator.truediv,
                        '**': operator.pow, '//': operator.floordiv, '%': operator.mod}[op](a, b)
            if op in ('+', '-', '*'):
                return q_arith({'+': 'add', '-': 'sub', '*': 'mul'}[op], a, b)
            raise Unsupported('rational op ' + op)
        if isinstance(a, Sqrt2) or isinstance(b, Sqrt2):
            raise Unsupported('arithmetic on sqrt(2) outside tensor scaling')
        if isinstance(a, str) and op == '+':
            return a + str(b)
        if isinstance(a, str) and op == '%':
            return a
        sym_ = isz(a) or isz(b)
        if op == '+':
            return simp(I(a) + I(b)) if sym_ else a + b
        if op == '-':
            return simp(I(a) - I(b)) if sym_ else a - b
        if op == '*':
            if sym_:
                if isz(a) and isz(b):
                    return mulsym(a, b)
                return simp(I(a) * I(b))
            return a * b
        if op == '//':
            if sym_:
                if not is_conc(simp(b)) or simp(b) <= 0:
                    raise Unsupported('floor division by a symbolic / non-positive value')
                return simp(I(a) / I(b))
            return a // b
        if op == '%':
            if sym_:
                if not is_conc(simp(b)) or simp(b) <= 0:
                    raise Unsupported('modulo by a symbolic / non-positive value')
                return simp(I(a) % I(b))
            return a % b
        if op == '/':
            if sym_:
                raise Unsupported('true division of symbolic ints')
            return a / b
        if op == '**':
            if sym_:
                if is_conc(a) and a == 2 and hasattr(b, 'decl'):
                    return s.P.pow2(b)
                if is_conc(b) and b == 2:
                    return mulsym(a, a)
                raise Unsupported('symbolic power')
            return a ** b
        raise Unsupported('binop ' + op)

    def e_BinOp(s, n, env):
        return s.binop(BIN[type(n.op)], s.ev(n.left, env), s.ev(n.right, env))

    def e_BoolOp(s, n, env):
        is_or = isinstance(n.op, ast.Or)
        v = None
        for e in n.values:
            v = s.ev(e, env)
            t = s.truth(v)
            if is_or and t:
                return v if not isz(v) else True
            if not is_or and not t:
                return v if not isz(v) else False
        return v if not isz(v) else (not is_or)

    def cmp(s, op, a, b):
        if isinstance(op, (ast.Is, ast.IsNot)):
            r = (a is b) or (a is None and b is None)
            if isinstance(a, (bool, int, str)) and isinstance(b, (bool, int, str)):
                r = a == b
            return r if isinstance(op, ast.Is) else (not r)
        if isinstance(op, (ast.In, ast.NotIn)):
            if isinstance(b, PList):
                if CUR.ctx.decide(I(b.length()) >= 1) is False:
                    b = []
                elif b.writes:
                    raise Unsupported('membership in a symbolic-length list that has been written')
                else:
                    b = list(b.base)
            if isinstance(b, SymSet):
                b = list(b.el)
            if isinstance(b, dict) and isz(a):
                b = list(b)
            if isinstance(b, (set, frozenset)) and isz(a):
                b = sorted(b)
            if isinstance(b, s.P.GlobalDict):
                r = b.contains(a)
            elif isinstance(a, bool) and isinstance(b, (list, tuple)) and any(isz(x) for x in b):
                # `True in flags` with symbolic flags
                r = simp(z3.Or(*[(B(x) if a else z3.Not(B(x))) for x in b if isz(x) or isinstance(x, bool)]))
            elif isinstance(b, (list, tuple)) and (isz(a) or any(isz(x) for x in b)) and \
                    all((isz(x) or is_conc(x)) and not isinstance(x, bool) for x in list(b) + [a]):
                # membership among integers, some of them symbolic: a disjunction of equalities
                r = simp(z3.Or(*[I(a) == I(x) for x in b])) if len(b) else False
            elif isinstance(b, (list, tuple, dict, str, range, set, frozenset)):
                if isz(a) or (isinstance(b, (list, tuple)) and any(isz(x) for x in b)):
                    raise Unsupported('membership test on symbolic non-integer values')
                r = any((x is a) or (type(x) == type(a) and x == a) or
                        (isinstance(x, (int, float)) and isinstance(a, (int, float)) and not isinstance(x, bool) and not isinstance(a, bool) and x == a) for x in b)
            else:
                raise Unsupported('membership test in %s' % type(b).__name__)
            if isz(r):
                return r if isinstance(op, ast.In) else simp(z3.Not(r))
            return r if isinstance(op, ast.In) else (not r)
        f = CMP[type(op)]
        if isinstance(a, (tuple, list)) and isinstance(b, (tuple, list)):
            if not isinstance(op, (ast.Eq, ast.NotEq)):
                raise Unsupported('ordering of sequences')
            if len(a) != len(b):
                eq = False
            elif any(isz(q) for q in tuple(a) + tuple(b)):
                eq = simp(z3.And(*[I(p) == I(q) for p, q in zip(a, b)])) if len(a) else True
            else:
                eq = tuple(a) == tuple(b)
            if isinstance(op, ast.Eq):
                return eq
            return simp(z3.Not(eq)) if isz(eq) else (not eq)
        if isinstance(a, IArr) or isinstance(b, IArr):
            return arr_cmp(f, a, b)
        if isinstance(a, QV) or isinstance(b, QV) or (isinstance(a, float) and isz(b)) or (isinstance(b, float) and isz(a)):
            return simp(q_cmp(f, a, b))
        if isz(a) or isz(b):
            if (a is None) or (b is None) or isinstance(a, str) or isinstance(b, str):
                return isinstance(op, ast.NotEq)
            return simp(f(I(a), I(b)))
        if isinstance(a, STensor) or isinstance(b, STensor):
            opname = {ast.Eq: '==', ast.NotEq: '!=', ast.Lt: '<', ast.LtE: '<=', ast.Gt: '>', ast.GtE: '>='}.get(type(op))
            if opname is None:
                raise Unsupported('comparison of tensor data')
            return t_compare(opname, a, b)
        try:
            return f(a, b)
        except TypeError:
            if isinstance(op, ast.Eq):
                return False
            if isinstance(op, ast.NotEq):
                return True
            raise Raised('TypeError', 'comparison')

    def e_Compare(s, n, env):
        a = s.ev(n.left, env)
        out = True
        for op, cn in zip(n.ops, n.comparators):
            b = s.ev(cn, env)
            r = s.cmp(op, a, b)
            if isinstance(r, IArr) or type(r).__name__ == 'MaskT':
                return r
            if not s.truth_keep(r):
                return False
            if isz(r):
                out = r if out is True else simp(z3.And(out, r))
            a = b
        return out

    def truth_keep(s, r):
        """for chained comparisons: a symbolic result is kept symbolic (no fork)"""
        if isz(r):
            return True
        return bool(r)

    def e_IfExp(s, n, env):
        return s.ev(n.body, env) if s.truth(s.ev(n.test, env)) else s.ev(n.orelse, env)

    def truth(s, v):
        if isz(v):
            return ctx().decide(v)
        if isinstance(v, (STensor, IArr)) or type(v).__name__ == 'MaskT':
            raise Unsupported('truth value of an array')
        if isinstance(v, s.P.SList):
            raise Unsupported('truth value of a symbolic list')
        return bool(v)

    def e_Attribute(s, n, env):
        v = s.ev(n.value, env)
        return s.getattr(v, n.attr)

    def getattr(s, v, attr):
        P = s.P
        if isinstance(v, STensor):
            return P.tensor_attr(s, v, attr)
        if isinstance(v, IArr):
            if attr == 'shape':
                return v.shape
            if attr == 'dtype':
                return v.dtype
            raise Unsupported('index array attribute ' + attr)
        if isinstance(v, NS):
            return v.get(attr)
        if isinstance(v, ModNS):
            g = s.globals_of(v.modkey)
            if attr in g:
                return g[attr]
            raise Unsupported('module attribute ' + attr)
        if isinstance(v, SObj):
            if attr in v.a:
                return v.a[attr]
            return P.obj_attr(s, v, attr)
        if isinstance(v, RepoClass):
            return P.class_attr(s, v, attr)
        if isinstance(v, SuperObj):
            return lambda *a, **k: None
        if isinstance(v, (list, tuple)) and attr in ('index', 'count', 'remove') and any(isz(q) for q in v):
            raise Unsupported('list.%s on a list holding symbolic values' % attr)
        if isinstance(v, (list, tuple)) and attr == 'index':
            def index(x, *rest):
                if not isz(x):
                    try:
                        return v.index(x, *rest)
                    except ValueError:
                        raise Raised('ValueError', '%r is not in list' % (x,))
                if rest or not all(is_conc(q) and not isinstance(q, bool) for q in v):
                    raise Unsupported('list.index of a symbolic value')
                for pos, q in enumerate(v):              # first match, decided element by element
                    if CUR.ctx.decide(I(x) == q):
                        return pos
                raise Raised('ValueError', 'value is not in list')
            return index
        if isinstance(v, dict) and attr == 'get':
            return lambda k, default=None: s.dict_lookup(v, k, default)
        if isinstance(v, (list, dict, tuple, str, set, frozenset)):
            return getattr(v, attr)
        if isinstance(v, P.GlobalDict) or isinstance(v, P.SList):
            return getattr(v, 'm_' + attr)
        if v is None:
            raise Raised('AttributeError', "'NoneType' object has no attribute '%s'" % attr)
        raise Unsupported('attribute %s of %r' % (attr, v))

    def e_Subscript(s, n, env):
        v = s.ev(n.value, env)
        k = s.ev(n.slice, env)
        return s.getitem(v, k)

    def getitem(s, v, k):
        P = s.P
        if isinstance(v, STensor):
            return tget(v, k)
        if isinstance(v, IArr):
            return P.iarr_get(v, k)
        if isinstance(v, P.SList) or type(v).__name__ == 'SPyr':
            return v.get(k)
        if isinstance(v, PList):
            return v.get(k)
        if isinstance(v, P.GlobalDict):
            return v.get(k)
        if isinstance(v, (tuple, list)):
            if is_conc(k) or isinstance(k, slice):
                try:
                    return v[k]
                except IndexError:
                    raise Raised('IndexError', 'sequence index out of range')
            if isz(k):
                raise Unsupported('symbolic index into python sequence')
        if isinstance(v, dict):
            return s.dict_lookup(v, k)
        raise Unsupported('subscript %r[%r]' % (v, k))

    def set_op(s, op, a, b):
        """set algebra where one side may hold symbolic integers: membership of every concrete element is decided (forks paths)"""
        if isinstance(a, (set, frozenset)) and isinstance(b, (set, frozenset)):
            return {'-': a - b, '|': a | b, '&': a & b, '^': a ^ b}[op] if op in ('-', '|', '&', '^') else (_ for _ in ()).throw(Unsupported('set ' + op))
        if isinstance(a, (set, frozenset)) and isinstance(b, SymSet) and op in ('-', '&'):
            keep = set()
            for q in sorted(a):
                inb = CUR.ctx.decide(z3.Or(*[I(q) == I(e) for e in b.el])) if b.el else False
                if (op == '-' and not inb) or (op == '&' and inb):
                    keep.add(q)
            return keep
        raise Unsupported('set operation %s with symbolic elements' % op)

    def dict_lookup(s, d, k, default=KeyError):
        """d[k] / d.get(k, default); a symbolic integer key is compared with the keys one by one (python would hash the z3 term)"""
        if isz(k):
            if not all(is_conc(q) and not isinstance(q, bool) for q in d):
                raise Unsupported('symbolic key into a dict with non-integer keys')
            for q in d:
                if CUR.ctx.decide(I(k) == q):
                    return d[q]
        elif isinstance(k, (STensor, TV)) or any(isz(q) for q in d):
            raise Unsupported('dict lookup with tensor / symbolic keys')
        elif k in d:
            return d[k]
        if default is KeyError:
            raise Raised('KeyError', str(k))
        return default

    def e_Set(s, n, env):
        el = [s.ev(e, env) for e in n.elts]
        if all(is_conc(q) or isinstance(q, str) for q in el):
            return set(el)
        if all(is_conc(q) or isz(q) for q in el):
            return SymSet(el)
        raise Unsupported('set of non-integer symbolic values')

    def e_Slice(s, n, env):
        g = lambda e: None if e is None else s.ev(e, env)
        return slice(g(n.lower), g(n.upper), g(n.step))

    def e_ListComp(s, n, env):
        r = s.comp(n, env)
        return r if isinstance(r, PList) or type(r).__name__ == 'SPyr' else list(r)

    def e_GeneratorExp(s, n, env):
        r = s.comp(n, env)
        return r if isinstance(r, PList) or type(r).__name__ == 'SPyr' else list(r)

    def e_DictComp(s, n, env):
        if len(n.generators) != 1:
            raise Unsupported('nested comprehension')
        g = n.generators[0]
        it = s.ev(g.iter, env)
        if isinstance(it, dict):
            it = list(it)
        if not isinstance(it, (list, tuple, range)):
            raise Unsupported('comprehension over non-concrete iterable')
        out = {}
        for v in it:
            e2 = dict(env)
            s.assign(g.target, v, e2)
            if all(s.truth(s.ev(c, e2)) for c in g.ifs):
                out[s.ev(n.key, e2)] = s.ev(n.value, e2)
        return out

    def comp(s, n, env, gens=None):
        gens = n.generators if gens is None else gens
        if len(gens) > 1:
            # for a in A for b in B(a): the outer generator drives, the rest is evaluated in its scope
            g0 = gens[0]
            it0 = s.ev(g0.iter, env)
            if isinstance(it0, dict):
                it0 = list(it0)
            if not isinstance(it0, (list, tuple, range)):
                raise Unsupported('comprehension over non-concrete iterable')
            out = []
            for v in it0:
                e2 = dict(env)
                s.assign(g0.target, v, e2)
                if all(s.truth(s.ev(c, e2)) for c in g0.ifs):
                    r = s.comp(n, e2, gens[1:])
                    if isinstance(r, PList):
                        raise Unsupported('symbolic-length inner comprehension')
                    out.extend(r)
            return out
        g = gens[0]
        it = s.ev(g.iter, env)
        if type(it).__name__ == 'SPyr' and not g.ifs:
            if it.fmap is not None:
                raise Unsupported('two element-wise maps over the symbolic pyramid')
            return type(it)(it.J, it.perm, it.lo, it.rev, it.root, (s, n.elt, g.target, dict(env)))
        if isinstance(it, s.P.SymRange) and not g.ifs and isinstance(g.target, ast.Name):
            # [e for _ in range(n)] with symbolic n and e independent of the loop variable: the periodic list [e] * n
            used = {q.id for q in ast.walk(n.elt) if isinstance(q, ast.Name)}
            if g.target.id not in used:
                cnt = simp(I(it.hi) - I(it.lo))
                if CUR.ctx.decide(I(cnt) >= 1):
                    return PList([s.ev(n.elt, env)], cnt)
                return []
        if isinstance(it, dict) or type(it).__name__ in ('dict_items', 'dict_keys', 'dict_values', 'zip', 'enumerate', 'reversed', 'map'):
            it = list(it)
        if not isinstance(it, (list, tuple, range)):
            raise Unsupported('comprehension over non-concrete iterable')
        out = []
        for v in it:
            e2 = dict(env)
            s.assign(g.target, v, e2)
            if all(s.truth(s.ev(c, e2)) for c in g.ifs):
                out.append(s.ev(n.elt, e2))
        return out

    def e_Call(s, n, env):
        if isinstance(n.func, ast.Name) and n.func.id == 'super':
            return SuperObj()
        f = s.ev(n.func, env)
        args = []
        for a in n.args:
            if isinstance(a, ast.Starred):
                args.extend(s.ev(a.value, env))
            else:
                args.append(s.ev(a, env))
        kw = {}
        for k in n.keywords:
            if k.arg is None:
                kw.update(s.ev(k.value, env))
            else:
                kw[k.arg] = s.ev(k.value, env)
        if isinstance(n.func, ast.Name) and n.func.id == 'super':
            return SuperObj()
        return s.call_value(f, args, kw)

    def call_value(s, f, args, kw):
        if isinstance(f, RepoFn):
            return s.call(f.modkey, f.qual, args, kw)
        if isinstance(f, LocalFn):
            return s.invoke(f.node, f.node.name if hasattr(f.node, 'name') else '<lambda>', args, kw,
                            {'__globals__': f.env['__globals__'], '__closure__': f.env}, f.env)
        if isinstance(f, RepoClass):
            return s.P.instantiate(s, f, args, kw)
        if isinstance(f, BoundMethod):
            return s.call(f.fn.modkey, f.fn.qual, [f.obj] + list(args), kw)
        if isinstance(f, TypeTok):
            return s.P.type_call(s, f, args, kw)
        if callable(f):
            return f(*args, **kw)
        raise Unsupported('call of %r' % (f,))

    # ---------------------------------------------------------------- statements
    def run(s, body, env):
        for st in body:
            getattr(s, 's_' + type(st).__name__)(st, env)

    def s_FunctionDef(s, n, env):
        if n.decorator_list:
            raise Unsupported('decorated nested function')
        env[n.name] = LocalFn(n, env)

    def e_Lambda(s, n, env):
        return LocalFn(n, env)

    def s_AnnAssign(s, n, env):
        if n.value is not None:                  # `x: int = 3`; a bare annotation binds nothing
            s.assign(n.target, s.ev(n.value, env), env)

    def s_While(s, n, env):
        k = 0
        while s.truth(s.ev(n.test, env)):
            k += 1
            if k > 256:
                raise Unsupported('while loop with more than 256 iterations (no invariant)')
            try:
                s.run(n.body, env)
            except Brk:
                return
            except Cont:
                continue
        s.run(n.orelse, env)

    def e_NamedExpr(s, n, env):
        v = s.ev(n.value, env)
        s.assign(n.target, v, env)
        return v

    def s_Global(s, n, env):
        raise Unsupported('global statement')

    def s_Nonlocal(s, n, env):
        raise Unsupported('nonlocal statement')

    def s_Expr(s, n, env):
        if isinstance(n.value, ast.Constant):
            return
        s.ev(n.value, env)

    def s_Assign(s, n, env):
        v = s.ev(n.value, env)
        for t in n.targets:
            s.assign(t, v, env)

    def assign(s, t, v, env):
        if isinstance(t, ast.Name):
            env[t.id] = v
        elif isinstance(t, (ast.Tuple, ast.List)):
            if isinstance(v, STensor):
                v = t_unbind(v, 0)
            if isinstance(v, (PList, s.P.SList)):
                raise Unsupported('unpacking a symbolic-length list')
            v = list(v)
            star = [q for q, e in enumerate(t.elts) if isinstance(e, ast.Starred)]
            if star:
                if len(star) > 1 or len(v) < len(t.elts) - 1:
                    raise Raised('ValueError', 'unpack: not enough values / two starred targets')
                q = star[0]
                n_after = len(t.elts) - q - 1
                for a, b in zip(t.elts[:q], v[:q]):
                    s.assign(a, b, env)
                s.assign(t.elts[q].value, list(v[q:len(v) - n_after]), env)
                for a, b in zip(t.elts[q + 1:], v[len(v) - n_after:]):
                    s.assign(a, b, env)
                return
            if len(v) != len(t.elts):
                raise Raised('ValueError', 'unpack: expected %d values, got %d' % (len(t.elts), len(v)))
            for a, b in zip(t.elts, v):
                s.assign(a, b, env)
        elif isinstance(t, ast.Attribute):
            obj = s.ev(t.value, env)
            if not isinstance(obj, SObj):
                raise Unsupported('attribute store on %r' % (obj,))
            s.P.obj_setattr(s, obj, t.attr, v)
        elif isinstance(t, ast.Subscript):
            obj = s.ev(t.value, env)
            k = s.ev(t.slice, env)
            if isinstance(obj, list):
                obj[k] = v
            elif isinstance(obj, PList):
                obj.set(k, v)
            elif isinstance(obj, STensor):
                tset(obj, k, v)
            elif isinstance(obj, s.P.GlobalDict):
                obj.set(k, v)
            elif isinstance(obj, dict):
                obj[k] = v
            else:
                raise Unsupported('subscript store on %r' % (obj,))
        else:
            raise Unsupported('assignment target')

    def s_AugAssign(s, n, env):
        op = BIN[type(n.op)]
        if isinstance(n.target, ast.Name):
            cur = s.e_Name(n.target, env)
            b = s.ev(n.value, env)
            if isinstance(cur, STensor):
                # in-place tensor op: writes the storage
                res = s.binop(op, cur, b)
                s.P.inplace_write(s, cur, res)
                return
            env[n.target.id] = s.binop(op, cur, b)
            return
        if isinstance(n.target, ast.Subscript):
            obj = s.ev(n.target.value, env)
            k = s.ev(n.target.slice, env)
            cur = s.getitem(obj, k)
            b = s.ev(n.value, env)
            res = s.binop(op, cur, b)
            if isinstance(obj, STensor):
                tset(obj, k, res)
            elif isinstance(obj, list):
                obj[k] = res
            else:
                raise Unsupported('augmented subscript store')
            return
        if isinstance(n.target, ast.Attribute):
            obj = s.ev(n.target.value, env)
            cur = s.getattr(obj, n.target.attr)
            s.P.obj_setattr(s, obj, n.target.attr, s.binop(op, cur, s.ev(n.value, env)))
            return
        raise Unsupported('augmented assignment target')

    def s_If(s, n, env):
        if s.truth(s.ev(n.test, env)):
            s.run(n.body, env)
        else:
            s.run(n.orelse, env)

    def s_For(s, n, env):
        it = s.ev(n.iter, env)
        if isinstance(it, s.P.SymRange) or isinstance(it, s.P.SList) or type(it).__name__ in ('SPyr', 'SymZip'):
            key = (s.cur_fn[-1], s.loop_ordinal(n))
            if key not in s.loop_contracts:
                raise Unsupported('loop over symbolic range without invariant: %s' % (key,))
            s.loop_contracts[key](s, n, it, env)
            return
        if isinstance(it, STensor):
            it = t_unbind(it, 0)
        if isinstance(it, zip) or type(it).__name__ in ('dict_items', 'dict_keys', 'dict_values', 'enumerate', 'reversed', 'map',
                                                        'list_reverseiterator', 'generator', 'dict'):
            it = list(it)
        if not isinstance(it, (list, tuple, range)):
            raise Unsupported('for over %r' % (it,))
        for v in it:
            s.assign(n.target, v, env)
            try:
                s.run(n.body, env)
            except Brk:
                break
            except Cont:
                continue
        else:
            s.run(n.orelse, env)

    def loop_ordinal(s, node):
        modkey, qual = s.cur_fn[-1]
        fn = front.func(modkey, qual)
        k = 0
        for sub in ast.walk(fn):
            if isinstance(sub, (ast.For, ast.While)):
                if sub is node:
                    return k
                k += 1
        return -1

    def s_Return(s, n, env):
        raise Ret(s.ev(n.value, env) if n.value else None)

    def s_Raise(s, n, env):
        kind = 'Exception'
        if n.exc is not None:
            e = n.exc
            if isinstance(e, ast.Call) and isinstance(e.func, ast.Name):
                kind = e.func.id
            elif isinstance(e, ast.Name):
                kind = e.id
        raise Raised(kind, ast.unparse(n))

    def s_Assert(s, n, env):
        if not s.truth(s.ev(n.test, env)):
            raise Raised('AssertionError', ast.unparse(n.test))

    def s_Pass(s, n, env):
        pass

    def s_Delete(s, n, env):
        for t in n.targets:
            if isinstance(t, ast.Name):
                env.pop(t.id, None)

    def s_Break(s, n, env):
        raise Brk()

    def s_Continue(s, n, env):
        raise Cont()

    def s_Try(s, n, env):
        try:
            s.run(n.body, env)
        except Raised as r:
            for h in n.handlers:
                names = []
                if h.type is None:
                    names = None
                elif isinstance(h.type, ast.Name):
                    names = [h.type.id]
                elif isinstance(h.type, ast.Tuple):
                    names = [e.id for e in h.type.elts if isinstance(e, ast.Name)]
                if names is None or r.kind in names or 'Exception' in names:
                    s.run(h.body, env)
                    break
            else:
                raise
        else:
            s.run(n.orelse, env)
        finally:
            pass
        s.run(n.finalbody, env)

    def s_With(s, n, env):
        for item in n.items:
            v = s.ev(item.context_expr, env)
            if item.optional_vars is not None:
                s.assign(item.optional_vars, v, env)
        s.run(n.body, env)

    def s_Import(s, n, env):
        for al in n.names:
            env[al.asname or al.name.split('.')[0]] = s.resolve_module(al.name, al.asname is not None)

    def s_ImportFrom(s, n, env):
        if n.level or n.module is None:
            raise Unsupported('relative import inside function')
        for al in n.names:
            env[al.asname or al.name] = s.resolve_from(n.module, al.name)

    # ---------------------------------------------------------------- calls
    def call(s, modkey, qual, args, kw, force_body=False):
        key = modkey + ':' + qual
        s.trace.append(key)
        if not force_body:
            c = s.contracts.get(key) or s.contracts.get(qual)
            if c is not None:
                USED_CONTRACTS.add(key)
                if kw:
                    args, kw = s.bind_positional(modkey, qual, args, kw)
                return c(s, *args, **kw)
        fn = front.func(modkey, qual)
        s.cur_fn.append((modkey, qual))
        try:
            return s.invoke(fn, qual, args, kw, {'__globals__': s.globals_of(modkey)}, {'__globals__': s.globals_of(modkey)})
        finally:
            s.cur_fn.pop()

    def bind_positional(s, modkey, qual, args, kw):
        """contracts take the arguments of the function they stand for positionally: keyword arguments of the real call
        site are moved to their positions (defaults filled in between); unknown keywords are left to the contract"""
        try:
            fn = front.func(modkey, qual)
        except Exception:
            return args, kw
        params = [p.arg for p in fn.args.args]
        if qual.endswith('.apply') or not params:
            return args, kw
        defaults = dict(zip(params[len(params) - len(fn.args.defaults):], fn.args.defaults))
        args = list(args)
        kw = dict(kw)
        for p in params[len(args):]:
            if p in kw:
                args.append(kw.pop(p))
            elif p in defaults and any(q in kw for q in params[params.index(p):]):
                args.append(s.ev(defaults[p], {'__globals__': s.globals_of(modkey)}))
            else:
                break
        return args, kw

    def invoke(s, fn, qual, args, kw, env, defenv):
        a = fn.args
        params = [p.arg for p in a.args]
        defaults = a.defaults
        for p, dv in zip(params[len(params) - len(defaults):], defaults):
            env[p] = s.ev(dv, defenv)
        if len(args) > len(params):
            if a.vararg is None:
                raise Raised('TypeError', '%s() takes %d positional arguments but %d were given'
                             % (qual, len(params), len(args)))
            env[a.vararg.arg] = tuple(args[len(params):])
            args = args[:len(params)]
        elif a.vararg is not None:
            env[a.vararg.arg] = ()
        for p, v in zip(params, args):
            env[p] = v
        extra = {}
        for k, v in kw.items():
            if k not in params:
                if k in [q.arg for q in a.kwonlyargs]:
                    continue
                if a.kwarg is None:
                    raise Raised('TypeError', 'unexpected keyword ' + k)
                extra[k] = v
                continue
            env[k] = v
        if a.kwarg is not None:
            env[a.kwarg.arg] = extra
        for p in params:
            if p not in env:
                raise Raised('TypeError', '%s() missing argument %s' % (qual, p))
        if a.kwonlyargs:
            for p, dv in zip(a.kwonlyargs, a.kw_defaults):
                if p.arg in kw:
                    env[p.arg] = kw[p.arg]
                elif dv is not None:
                    env[p.arg] = s.ev(dv, defenv)
                else:
                    raise Raised('TypeError', '%s() missing keyword-only argument %s' % (qual, p.arg))
        s.depth += 1
        try:
            if isinstance(fn, ast.Lambda):
                return s.ev(fn.body, env)
            s.run(front.strip_doc(fn), env)
        except Ret as r:
            return r.v
        finally:
            s.depth -= 1
        return None


# ---------------------------------------------------------------------------
def explore(run, base, max_paths=400):
    """run() executes one path under CUR.ctx; returns list of (ctx, outcome).
    outcome = ('ret', value) | ('raise', Raised)"""
    results = []
    work = [[]]
    while work:
        dec = work.pop()
        c = Ctx(base, dec)
        CUR.ctx = c
        try:
            out = ('ret', run())
        except Raised as r:
            out = ('raise', r)
        results.append((c, out))
        for k in range(len(dec), len(c.dec)):
            work.append(c.dec[:k] + [False])
        if len(results) > max_paths:
            raise Unsupported('path explosion (> %d paths)' % max_paths)
    return results
