"""C13 - stationary WT is undecimated, shift-equivariant and equals PyWavelets swt2."""
from .common import *
T2 = 'dwt.transform2d'


def plan(tier, seed):
    dense = tier != 'quick'
    JMAX = 4 if not dense else 6
    gs = [g for g in helper_groups(tier) if g.gid.startswith('mypad[periodic')]
    for d in (3, 2):
        for j, dl in enumerate([2 ** j for j in range(JMAX)]):
            gs.append(Group('afb1d_atrous[dim=%d,dilation=%d]' % (d, dl), G.g_atrous1d, (d, dl), functions=[(LL, 'afb1d_atrous')],
                            replay=rp('swt_forward', minJ=j + 1)))
    for j, dl in enumerate([2 ** j for j in range(JMAX)]):
        gs.append(Group('afb2d_atrous[dilation=%d]' % dl, G.g_atrous2d, (dl,), functions=[(LL, 'afb2d_atrous')], replay=rp('swt_forward', minJ=j + 1)))
    gs.append(Group('prep_filt_afb2d[4]', G.g_prep, ('prep_filt_afb2d', 4), functions=[(LL, 'prep_filt_afb2d')]))
    for mode in (None, 'periodization', 'periodic', 'per'):
        for wf in ('wavelet', 'tuple4'):
            gs.append(Group('SWTForward[J<=%d,mode=%s,%s]' % (JMAX, mode, wf), G.g_swt_module, (JMAX, mode, wf), level='bounded-in-J',
                            functions=[(T2, 'SWTForward.__init__'), (T2, 'SWTForward.forward')],
                            replay=rp('swt_forward', mode=mode, minJ=JMAX)))
    gs.append(Group('canary:wrong-dilation', G.g_atrous1d, (3, 2), {'canary': True}, canary=True))
    jobs = [{'fn': 'swt_forward', 'cfg': {'mode': m}, 'grid': {'J': [1, 2, 3], 'Lc2': [1, 2, 4] + ([7] if dense else []), 'mh': [1, 3], 'mw': [2]}}
            for m in (None, 'periodic')]
    # deeper transforms (dilation 8, 16): small sizes, one wavelet
    jobs += [{'fn': 'swt_forward', 'cfg': {'mode': None, 'minJ': jj}, 'grid': {'Lc2': [2], 'mh': [1], 'mw': [1, 2]}} for jj in ((4, 5) if not dense else (4, 5, 6))]
    return {
        'groups': gs,
        'lean_lemmas': ['equivariant_comp', 'equivariant_iter'],
        'native': [('oracle_dwt.py', [seed], 'oracle: spec swt1 vs pywt.swt (levels 1-3)'),
                   ('bounded.py', [write_jobs('C13', jobs), seed], 'bounded: real SWTForward vs pywt.swt2, and circular-shift equivariance on the real module')],
        'level': 'other', 'trusted_base': TRUSTED,
        'assumptions': ASSUMPTIONS + [
            'BOUNDED in the number of levels: the dilation 2**j is evaluated concretely, INV-step is proved for each j < %d; sizes, batch, channels, filter length, taps and inputs are unbounded' % JMAX,
            'shift-equivariance is a corollary of the postcondition out[i] = sum_u dec[u] x[(i + c_u) mod N] (every such map commutes with circular shifts, by (a mod N + b) mod N = (a+b) mod N); it is checked natively on a grid, not by the solver',
            'only the periodic extension is specified for the a-trous functions (the module maps periodization/per to it)'],
        'explanation': 'per-level contract-based deductive proof (afb1d_atrous, afb2d_atrous, SWTForward loop invariant) for dilations 1..2^%d, '
                       'i.e. proof bounded in J only; the shift-equivariance clause is derived from the postcondition and additionally checked at run time' % (JMAX - 1),
    }
