"""C14 - separate row and column filters act on the axis they are named for."""
from .common import *


def plan(tier, seed):
    gs = []
    for w, nf in (('prep_filt_afb2d', 4), ('prep_filt_sfb2d', 4), ('prep_filt_afb2d', 2), ('prep_filt_sfb2d', 2)):
        gs.append(Group('%s[%d]' % (w, nf), G.g_prep, (w, nf), functions=[(LL, w)]))
        gs.append(Group('%s[%d,(L,1) column arrays]' % (w, nf), G.g_prep, (w, nf, 'col'), functions=[(LL, w)],
                        replay=rp('dwt_forward' if 'afb' in w else 'dwt_inverse', dim=2, mode='zero', waveform='tuple4col')))
    for m in MODES:
        gs.append(Group('AFB2D.forward[%s]' % m, G.g_AFB2D_fwd, (m,), functions=[(LL, 'AFB2D.forward')]))
        gs.append(Group('SFB2D.forward[%s]' % m, G.g_SFB2D_fwd, (m,), functions=[(LL, 'SFB2D.forward')]))
        for wf in ('tuple4', 'tuple2', 'name'):
            gs.append(Group('DWTForward[%s,%s]' % (m, wf), M.g_forward_module, (2, m, wf),
                            functions=[('dwt.transform2d', 'DWTForward.__init__'), ('dwt.transform2d', 'DWTForward.forward')],
                            replay=rp('dwt_forward', dim=2, mode=m, waveform=wf)))
            gs.append(Group('DWTInverse[%s,%s]' % (m, wf), M.g_inverse_module, (2, m, wf),
                            functions=[('dwt.transform2d', 'DWTInverse.__init__'), ('dwt.transform2d', 'DWTInverse.forward')],
                            replay=rp('dwt_inverse', dim=2, mode=m, waveform=wf)))
    for m in ('zero', 'symmetric', 'periodization') + (('reflect', 'periodic') if tier != 'quick' else ()):
        for lists in (False, True):
            gs.append(Group('afb2d[%s,4%s]' % (m, ',lists' if lists else ''), G.g_afb2d, (m, 4, lists), functions=[(LL, 'afb2d')]))
            gs.append(Group('sfb2d[%s,4%s]' % (m, ',lists' if lists else ''), G.g_sfb2d, (m, 4, lists), functions=[(LL, 'sfb2d')]))
    gs.append(Group('canary:row/col-swapped', M.g_forward_module, (2, 'zero', 'tuple4'), {'canary': 'swap'}, canary=True))
    jobs = []
    for m in MODES:
        jobs.append({'fn': 'dwt_forward', 'cfg': {'dim': 2, 'mode': m, 'waveform': 'tuple4'},
                     'grid': {'H': [4, 7], 'W': [5, 8], 'Lc2': [1, 3], 'Lr2': [2, 4], 'J': [1, 2]}})
        jobs.append({'fn': 'dwt_inverse', 'cfg': {'dim': 2, 'mode': m, 'waveform': 'tuple4'},
                     'grid': {'H': [4, 7], 'W': [5, 8], 'Lc2': [1, 3], 'Lr2': [2, 4], 'J': [1, 2]}})
    # the same four filters handed over as (L, 1) column arrays
    for m_ in ('zero', 'periodization'):
        jobs.append({'fn': 'dwt_forward', 'cfg': {'dim': 2, 'mode': m_, 'waveform': 'tuple4col'}, 'grid': {'H': [8, 11], 'W': [6, 9], 'Lc2': [2, 3], 'Lr2': [1], 'J': [1, 2]}})
        jobs.append({'fn': 'dwt_inverse', 'cfg': {'dim': 2, 'mode': m_, 'waveform': 'tuple4col'}, 'grid': {'H': [8, 11], 'W': [6, 9], 'Lc2': [2, 3], 'Lr2': [1], 'J': [1, 2]}})
    return {
        'groups': gs,
        'native': [('oracle_dwt.py', [seed], 'oracle: spec functions vs pywt.dwt/idwt'),
                   ('bounded.py', [write_jobs('C14', jobs), seed], 'bounded: real DWTForward/DWTInverse with two different wavelets vs pywt with one wavelet per axis')],
        'level': 'proof', 'trusted_base': TRUSTED,
        'assumptions': ASSUMPTIONS + ['row and column filter lengths are independent symbolic even numbers; all four filters are distinct symbolic arrays',
                                      'the functional bank afb2d/sfb2d and the modules are verified against the same spec (pywt dwt2/idwt2 with one wavelet per axis), hence agree'],
        'explanation': 'contract-based deductive verification of the module -> AFB2D/SFB2D.apply call with four distinct named filters; z3',
    }
