"""Shared group lists for the dual-tree properties."""
from .common import *
from .. import groups_dtcwt as D, modules_dtcwt as MD, groups_tables as T
LLd = 'dtcwt.lowlevel'
TFk = 'dtcwt.transform_funcs'
T2 = 'dtcwt.transform2d'
DT_ASSUME = [
    'specs of the column operations (cbv/specs.py dt_colfilter / dt_coldfilt / dt_colifilt) equal dtcwt.numpy.lowlevel (cross-validated natively on a grid on every run); '
    'the interleaving flag `highpass` stands for the reference sign test sum(ha*hb) <= 0 (a TABLE fact per shipped q-shift table)',
    'filter lengths are symbolic: level-1 filters odd (>= 3), q-shift filters even; taps symbolic',
    'module level: the number of levels is UNROLLED (J = 1..Jmax) - bounded in J; the per-level Functions are replaced by their contracts and their results '
    'handed on as fresh named tensors, so every level is checked for an arbitrary incoming lowpass of arbitrary size',
]


def lowlevel_groups(tier):
    gs = [Group('symm_pad_1d', G.g_symm_pad, functions=[('utils', 'symm_pad_1d')]),
          Group('reflect[Q=%d]' % (8 if tier == 'quick' else 27), G.g_reflect, (8 if tier == 'quick' else 27,), functions=[('utils', 'reflect')])]
    for tr in (False, True):
        for fm in ('column', 'flat'):
            gs.append(Group('prep_filt[%s,transpose=%s]' % (fm, tr), D.g_dt_prep, (tr, fm), functions=[(LLd, 'prep_filt')]))
    return gs


def fwd_lowlevel(tier):
    gs = []
    for fn in ('colfilter', 'rowfilter'):
        for md in ('symmetric', 'zero'):
            gs.append(Group('%s[%s]' % (fn, md), D.g_dt_filter, (fn, md), functions=[(LLd, fn)], replay=rp('dtcwt_forward')))
    for fn in ('coldfilt', 'rowdfilt'):
        for hp in (False, True):
            gs.append(Group('%s[highpass=%s]' % (fn, hp), D.g_dt_filter, (fn, 'symmetric', hp), functions=[(LLd, fn)], replay=rp('dtcwt_forward')))
    gs.append(Group('q2c', D.g_dt_q2c, functions=[(LLd, 'q2c')]))
    return gs


def inv_lowlevel(tier):
    gs = []
    for fn in ('colfilter', 'rowfilter'):
        gs.append(Group('%s[symmetric]' % fn, D.g_dt_filter, (fn, 'symmetric'), functions=[(LLd, fn)], replay=rp('dtcwt_inverse')))
    for fn in ('colifilt', 'rowifilt'):
        for hp in (False, True):
            gs.append(Group('%s[highpass=%s]' % (fn, hp), D.g_dt_filter, (fn, 'symmetric', hp), functions=[(LLd, fn)], replay=rp('dtcwt_inverse')))
    gs.append(Group('c2q', D.g_dt_c2q, functions=[(LLd, 'c2q')]))
    return gs


def sign_table_groups():
    return [Group('TABLE:identities[%s]' % n, T.g_tables_identities, ([n],)) for n, l in T.accepted()
            if l == 'qshift' and n not in ('farras', 'near_sym_a2')]


def layouts(tier):
    allp = [(o, r) for o in range(6) for r in range(6) if o != r]
    if tier == 'quick':
        return [(2, -1), (1, 2), (5, 0), (0, 4), (4, 2), (-2, 3), (3, -2)]
    return sorted(set(allp + [(-1, -2), (-6, 5), (2, -1), (-3, -6)]))
