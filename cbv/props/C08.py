"""C08 - scattering layers compute the defined DTCWT scattering coefficients."""
from .dt_common import *
from .. import groups_scat as S
SLk, LYk = 'scatternet.lowlevel', 'scatternet.layers'


def plan(tier, seed):
    dense = tier != 'quick'
    gs = []
    for rot in (False, True):
        nm = 'ScatLayerj1_rot_f' if rot else 'ScatLayerj1_f'
        for col in (False, True):
            for rg in (True, False):
                gs.append(Group('%s[colour=%s,requires_grad=%s]' % (nm, col, rg), S.g_scat_j1, (rot, col, rg), functions=[(SLk, nm + '.forward')],
                                replay=rp('scat_forward', order=1, colour=col, biort='near_sym_b_bp' if rot else 'near_sym_a')))
        nm2 = 'ScatLayerj2_rot_f' if rot else 'ScatLayerj2_f'
        for rg in (True, False):
            gs.append(Group('%s.forward[requires_grad=%s]' % (nm2, rg), S.g_scat_j2_forward, (rot, rg), functions=[(SLk, nm2 + '.forward')],
                            replay=rp('scat_forward', order=2)))
        gs.append(Group('%s[combine_colour]' % nm2, S.g_scat_j2_colour, (rot,), functions=[(SLk, nm2 + '.forward')],
                        replay=rp('scat_forward', order=2, colour=True, biort='near_sym_b_bp' if rot else 'near_sym_a')))
        for col in (False, True):
            gs.append(Group('ScatLayer[colour=%s,rot=%s]' % (col, rot), S.g_scat_module, (1, col, rot),
                            functions=[(LYk, 'ScatLayer.__init__'), (LYk, 'ScatLayer.forward')], replay=rp('scat_forward', order=1, colour=col)))
        gs.append(Group('ScatLayerj2[rot=%s]' % rot, S.g_scat_module, (2, False, rot),
                        functions=[(LYk, 'ScatLayerj2.__init__'), (LYk, 'ScatLayerj2.forward')], replay=rp('scat_forward', order=2)))
    gs.append(Group('ScatLayerj2[extent=2]', S.g_scat_module, (2, False, False, True), finding='F11', replay=rp('scat_forward', order=2)))
    # the DTCWT stages the layers are stated over (as C03)
    for l1 in (True, False):
        for rot in (False, True):
            gs.append(Group('%s%s' % ('fwd_j1' if l1 else 'fwd_j2plus', '_rot' if rot else ''), D.g_fwd_level, (l1, rot, False, 1),
                            functions=[(TFk, ('fwd_j1' if l1 else 'fwd_j2plus') + ('_rot' if rot else ''))]))
    gs.append(Group('canary:wrong-orientation-order', S.g_scat_j1, (False, False, True, True), canary=True))
    gs.append(Group('canary:j2-wrong-band', S.g_scat_j2_forward, (False, True, True), canary=True))
    gs.append(Group('canary:j2-colour-wrong-band', S.g_scat_j2_colour, (False, True), canary=True))
    jobs = []
    for b in (['near_sym_a', 'near_sym_b'] + (['antonini', 'legall'] if dense else [])):
        jobs.append({'fn': 'scat_forward', 'cfg': {'order': 1, 'biort': b}, 'grid': {'H': [2, 8, 9, 15], 'W': [12, 7]}})
        jobs.append({'fn': 'scat_forward', 'cfg': {'order': 1, 'biort': b, 'colour': True}, 'grid': {'H': [9], 'W': [12]}})
        jobs.append({'fn': 'scat_forward', 'cfg': {'order': 2, 'biort': b, 'qshift': 'qshift_a' if b == 'near_sym_a' else 'qshift_b'},
                     'grid': {'H': [2, 3, 16, 13, 29], 'W': [24, 9]}})
    jobs.append({'fn': 'scat_forward', 'cfg': {'order': 2, 'colour': True}, 'grid': {'H': [16, 11], 'W': [17]}})
    jobs.append({'fn': 'scat_forward', 'cfg': {'order': 2, 'colour': True, 'biort': 'near_sym_b_bp', 'qshift': 'qshift_b_bp'}, 'grid': {'H': [16], 'W': [17]}})
    jobs.append({'fn': 'scat_forward', 'cfg': {'order': 2, 'magbias': 0.3}, 'grid': {'H': [16], 'W': [16]}})
    jobs.append({'fn': 'scat_forward', 'cfg': {'order': 1, 'magbias': 0.0}, 'grid': {'H': [8], 'W': [8]}})
    # zero bias on images with exactly-zero regions (and the all-zero image): sqrt(0) - 0 = 0, never 0/0; and layers switched to eval()
    for col, bi_ in ((True, 'near_sym_a'), (True, 'near_sym_b_bp'), (False, 'near_sym_b_bp')):
        for o in (1, 2):
            jobs.append({'fn': 'scat_forward', 'cfg': {'order': o, 'magbias': 0.0, 'zero_image': True, 'colour': col, 'biort': bi_}, 'grid': {'H': [16], 'W': [16]}})
    for o in (1, 2):
        jobs.append({'fn': 'scat_forward', 'cfg': {'order': o, 'magbias': 0.0, 'sparse': True}, 'grid': {'H': [16], 'W': [16]}})
        jobs.append({'fn': 'scat_forward', 'cfg': {'order': o, 'magbias': 0.0, 'zero_image': True}, 'grid': {'H': [16], 'W': [16]}})
        jobs.append({'fn': 'scat_forward', 'cfg': {'order': o, 'eval_mode': True, 'magbias': 0.3}, 'grid': {'H': [16], 'W': [16]}})
    return {
        'groups': gs,
        'native': [('bounded.py', [write_jobs('C08', jobs), seed], 'bounded: real ScatLayer / ScatLayerj2 vs the reference dtcwt composed with the defining formulas; shapes for odd / small sizes')],
        'level': 'other', 'trusted_base': TRUSTED,
        'assumptions': ASSUMPTIONS + DT_ASSUME + [
            'term mode: the DTCWT stages are replaced by contracts returning NAMED uninterpreted tensors (their equality with the reference is C03); sqrt is an uninterpreted function with '
            'the axioms sqrt(u) >= 0 and sqrt(u)^2 = u for u >= 0 instantiated at every occurrence',
            'the band-pass (rot) second-order MODULE: the bounded tier checks shapes and non-negativity only (the reference package has no band-pass second-order transform to compare values with); its Function bodies are under contract',
            'size extension: proved that the first stage receives an image whose extents are the next multiple of 2 (8), containing the input as a block, every added sample being a copy of one of the 4 border rows/columns'],
        'explanation': 'the real forward bodies of ScatLayerj1_f, ScatLayerj1_rot_f, ScatLayerj2_f, ScatLayerj2_rot_f and the real ScatLayer / ScatLayerj2 __init__/forward are executed on z3 Real terms; '
                       'the output is compared, channel by channel (band-major, 7C / 49C), with pooled lowpass / sqrt(re^2+im^2+b^2)-b of the named stage outputs; non-negativity from the sqrt axioms',
    }
