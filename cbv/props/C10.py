"""C10 - DWT synthesis equals PyWavelets on arbitrary coefficient pyramids."""
from .common import *


def plan(tier, seed):
    gs = [g for g in helper_groups(tier) if g.gid.startswith('roll')] + sfb1d_groups()
    for w, nf in (('prep_filt_sfb1d', 2), ('prep_filt_sfb2d', 2), ('prep_filt_sfb2d', 4)):
        gs.append(Group('%s[%d]' % (w, nf), G.g_prep, (w, nf), functions=[(LL, w)]))
        gs.append(Group('%s[%d,(L,1) column arrays]' % (w, nf), G.g_prep, (w, nf, 'col'), functions=[(LL, w)],
                        replay=rp('dwt_forward' if 'afb' in w else 'dwt_inverse', dim=2, mode='zero', waveform='tuple4col')))
    gs.append(Group('mode-tables', G.g_mode_tables, functions=[(LL, 'mode_to_int'), (LL, 'int_to_mode')]))
    for m in MODES:
        gs.append(Group('SFB1D.forward[%s]' % m, G.g_SFB1D_fwd, (m,), functions=[(LL, 'SFB1D.forward')],
                        replay=rp('dwt_inverse', dim=1, mode=m, waveform='wavelet')))
        gs.append(Group('SFB2D.forward[%s]' % m, G.g_SFB2D_fwd, (m,), functions=[(LL, 'SFB2D.forward')],
                        replay=rp('dwt_inverse', dim=2, mode=m, waveform='tuple4')))
        for wf in ('name', 'wavelet', 'tuple2'):
            gs.append(Group('DWT1DInverse[%s,%s]' % (m, wf), M.g_inverse_module, (1, m, wf),
                            functions=[('dwt.transform1d', 'DWT1DInverse.__init__'), ('dwt.transform1d', 'DWT1DInverse.forward')],
                            replay=rp('dwt_inverse', dim=1, mode=m, waveform=wf, none_level=0)))
        for wf in ('name', 'wavelet', 'tuple2', 'tuple4'):
            gs.append(Group('DWTInverse[%s,%s]' % (m, wf), M.g_inverse_module, (2, m, wf),
                            functions=[('dwt.transform2d', 'DWTInverse.__init__'), ('dwt.transform2d', 'DWTInverse.forward')],
                            replay=rp('dwt_inverse', dim=2, mode=m, waveform=wf, none_level=0)))
    # region of known finding F13: an absent level whose own extent is one less than the running low-pass
    for m in MODES:
        gs.append(Group('DWT1DInverse[%s,wavelet,region=absent-level-needs-unpad]' % m, M.g_inverse_module, (1, m, 'wavelet', True, True), finding='F13',
                        functions=[('dwt.transform1d', 'DWT1DInverse.forward')], replay=rp('dwt_inverse', dim=1, mode=m, waveform='wavelet', none_level=1)))
        gs.append(Group('DWTInverse[%s,tuple4,region=absent-level-needs-unpad]' % m, M.g_inverse_module, (2, m, 'tuple4', True, True), finding='F13',
                        functions=[('dwt.transform2d', 'DWTInverse.forward')], replay=rp('dwt_inverse', dim=2, mode=m, waveform='tuple4', none_level=1)))
    gs += f1_groups_sfb()
    gs.append(Group('canary:sfb1d[zero]-shifted', G.g_sfb1d, ('zero', 3), {'canary': True}, canary=True))
    gs.append(Group('canary:sfb1d[periodization]-shifted', G.g_sfb1d, ('periodization', 2), {'canary': True}, canary=True))
    dense = tier != 'quick'
    jobs = []
    for m in MODES:
        for nl in (None, 0, 1):
            jobs.append({'fn': 'dwt_inverse', 'cfg': {'dim': 1, 'mode': m, 'waveform': 'wavelet', 'none_level': nl},
                         'grid': {'N': [2, 5, 8, 13] + ([21, 32] if dense else []), 'Lc2': [1, 2, 4] + ([3, 7] if dense else []),
                                  'J': [1, 2] + ([3] if dense else [])}})
            jobs.append({'fn': 'dwt_inverse', 'cfg': {'dim': 2, 'mode': m, 'waveform': 'tuple4', 'none_level': nl},
                         'grid': {'H': [2, 5, 8], 'W': [3, 6], 'Lc2': [1, 3], 'Lr2': [2], 'J': [1, 2]}})
    return {
        'groups': gs,
        'native': [('oracle_dwt.py', [seed] + (['dense'] if dense else []), 'oracle: spec functions vs pywt.dwt/idwt'),
                   ('bounded.py', [write_jobs('C10', jobs), seed], 'bounded: real DWT1DInverse/DWTInverse vs pywt.waverec/waverec2 on random pyramids (None levels included)')],
        'level': 'proof', 'trusted_base': TRUSTED,
        'assumptions': ASSUMPTIONS + [
            'pyramids have forward-compatible shapes: at every level the running lowpass is as long as the detail or one sample longer, and the synthesis output is non-empty',
            'periodization: 2*len >= L-2 at every level; the complementary region is known finding F1'],
        'explanation': 'contract-based deductive verification of sfb1d, prep_filt_sfb*, SFB1D/SFB2D.forward and the inverse modules '
                       '(loop invariant over a pyramid of symbolic depth; None level == zeros incl. dtype ghost); z3',
    }
