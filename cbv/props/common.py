"""Shared pieces of the property plans."""
import json, os, tempfile
from ..check import Group, ROOT
from .. import groups_dwt as G, modules_dwt as M

MODES = ('zero', 'symmetric', 'reflect', 'periodic', 'periodization')
LL = 'dwt.lowlevel'

ASSUMPTIONS = [
    'A-real: tensor arithmetic is over the reals (no rounding, overflow, NaN); "up to rounding" in the property is this gap',
    'A-prims: the axioms in cbv/sym.py and cbv/prims.py for conv2d / conv_transpose2d / pad / cat / stack / reshape / '
    'indexing / np.arange / np.pad(wrap) / np.fmod / pywt.dwt_coeff_len say what torch, numpy and pywt do '
    '(each axiom has a concrete twin compared with the installed library by native/twins.py)',
    'A-oracle: the spec functions of cbv/specs.py equal PyWavelets (cross-validated natively on a grid on every run)',
    'A-python: the AST interpreter (cbv/interp.py) implements the semantics of the Python subset listed in DESIGN.md 3.1; '
    'python ints are unbounded mathematical integers',
    'A-solver: z3 (and cvc5 where used) are sound',
    'A-module: nn.Module.to/.double/.float convert every registered buffer/parameter; module filters have the dtype of the input',
    'filter length is symbolic and EVEN (all 106 PyWavelets discrete wavelets have even dec_len); taps are symbolic reals',
]
TRUSTED = ['z3 4.x/5.x', 'cbv AST interpreter + primitive axioms', 'spec functions (validated against pywt on a grid)',
           'torch/numpy/pywt themselves']


def rp(fn_, **cfg):
    return {'fn': fn_, 'cfg': cfg}


def helper_groups(tier):
    Q = 8 if tier == 'quick' else 27
    gs = [Group('reflect[Q=%d]' % Q, G.g_reflect, (Q,), functions=[('utils', 'reflect')]),
          Group('symm_pad_1d', G.g_symm_pad, functions=[('utils', 'symm_pad_1d')])]
    for d in (2, 3, -1, -2) + ((0, 1) if tier != 'quick' else ()):
        gs.append(Group('roll[dim=%d]' % d, G.g_roll, (d,), functions=[(LL, 'roll')]))
    for m in ('symmetric', 'periodic', 'zero', 'reflect') + (('constant', 'replicate') if tier != 'quick' else ()):
        for w in 'vhb':
            gs.append(Group('mypad[%s,%s]' % (m, w), G.g_mypad, (m, w), functions=[(LL, 'mypad')]))
    return gs


def afb1d_groups(modes=MODES + ('per',)):
    gs = []
    for m in modes:
        for d in (3, 2, -1):
            gs.append(Group('afb1d[%s,dim=%d]' % (m, d), G.g_afb1d, (m, d), replay=rp('afb1d', mode=m, dim=d),
                            functions=[(LL, 'afb1d')]))
        gs.append(Group('afb1d[%s,reshaped-filters]' % m, G.g_afb1d_reshaped, (m,), functions=[(LL, 'afb1d')]))
    return gs


def sfb1d_groups(modes=MODES + ('per',)):
    gs = []
    for m in modes:
        for d in (3, 2, -1):
            gs.append(Group('sfb1d[%s,dim=%d]' % (m, d), G.g_sfb1d, (m, d), replay=rp('sfb1d', mode=m, dim=d),
                            functions=[(LL, 'sfb1d')]))
    return gs


def f1_groups():
    """region of known finding F1: periodization with even-extended length < filter length"""
    gs = []
    for d in (3, 2):
        gs.append(Group('afb1d[periodization,dim=%d,region=short-signal]' % d, G.g_afb1d, ('periodization', d),
                        {'short': True}, replay=rp('afb1d', mode='periodization', dim=d), finding='F1',
                        functions=[(LL, 'afb1d')]))
    return gs


def f1_groups_sfb():
    gs = []
    for d in (3, 2):
        gs.append(Group('sfb1d[periodization,dim=%d,region=short-signal]' % d, G.g_sfb1d, ('periodization', d),
                        {'short': True}, replay=rp('sfb1d', mode='periodization', dim=d), finding='F1',
                        functions=[(LL, 'sfb1d')]))
    return gs


def write_jobs(name, jobs):
    d = os.path.join(ROOT, 'replays', '_jobs')
    os.makedirs(d, exist_ok=True)
    p = os.path.join(d, name + '.json')
    with open(p, 'w') as f:
        json.dump(jobs, f)
    return p
