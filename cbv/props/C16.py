"""C16 - dtype is preserved and float32 results are float32-accurate; strides do not matter."""
from .dt_common import *
from .. import verify as V


def plan(tier, seed):
    V.CFG['dtype'] = True          # switch the dtype / stride ghosts on (runs in every worker that imports this plan)
    dense = tier != 'quick'
    gs = []
    for m in MODES:
        for d in (3, 2):
            gs.append(Group('afb1d[%s,dim=%d]' % (m, d), G.g_afb1d, (m, d), functions=[(LL, 'afb1d')]))
            gs.append(Group('sfb1d[%s,dim=%d]' % (m, d), G.g_sfb1d, (m, d), functions=[(LL, 'sfb1d')]))
        for w in ('AFB1D', 'SFB1D', 'AFB2D', 'SFB2D'):
            gs.append(Group('%s.forward[%s]' % (w, m), getattr(G, 'g_%s_fwd' % w), (m,), functions=[(LL, w + '.forward')]))
        for dim in (1, 2):
            for wf in ('wavelet', 'tuple2') + (('tuple4',) if dim == 2 else ()):
                gs.append(Group('DWT%sForward[%s,%s]' % ('1D' if dim == 1 else '', m, wf), M.g_forward_module, (dim, m, wf), replay=rp('precision', kind='dwt%dd' % dim)))
                gs.append(Group('DWT%sInverse[%s,%s]' % ('1D' if dim == 1 else '', m, wf), M.g_inverse_module, (dim, m, wf), replay=rp('precision', kind='idwt%dd' % dim)))
    for w, nf in (('prep_filt_afb1d', 2), ('prep_filt_sfb1d', 2), ('prep_filt_afb2d', 4), ('prep_filt_sfb2d', 4)):
        gs.append(Group('%s[%d]' % (w, nf), G.g_prep, (w, nf), functions=[(LL, w)]))
    for w in ('prep_filt_afb2d_nonsep', 'prep_filt_sfb2d_nonsep'):
        gs.append(Group('%s[4]' % w, G.g_prep_nonsep, (w, 4), functions=[(LL, w)]))
    gs.append(Group('SWTForward', G.g_swt_module, (2, None, 'wavelet'), functions=[('dwt.transform2d', 'SWTForward.forward')], replay=rp('precision', kind='swt')))
    for d in (2, 3):
        for dl in (1, 2):
            gs.append(Group('afb1d_atrous[dim=%d,dilation=%d]' % (d, dl), G.g_atrous1d, (d, dl), functions=[(LL, 'afb1d_atrous')], replay=rp('precision', kind='swt')))
    gs.append(Group('afb2d_atrous[dilation=2]', G.g_atrous2d, (2,), functions=[(LL, 'afb2d_atrous')], replay=rp('precision', kind='swt')))
    gs += fwd_lowlevel(tier) + [g for g in inv_lowlevel(tier) if 'ifilt' in g.gid or g.gid == 'c2q']
    for tr in (False, True):
        gs.append(Group('prep_filt[column,transpose=%s]' % tr, D.g_dt_prep, (tr, 'column'), functions=[(LLd, 'prep_filt')]))
    for l1 in (True, False):
        for skip in (False, True):
            gs.append(Group('fwd_level[l1=%s,skip=%s]' % (l1, skip), D.g_fwd_level, (l1, False, skip, 2)))
        gs.append(Group('inv_level[l1=%s]' % l1, D.g_inv_level, (l1, False, None, 2)))
    for cls in ('FWD_J1', 'FWD_J2PLUS', 'INV_J1', 'INV_J2PLUS'):
        gs.append(Group('%s.forward' % cls, D.g_function_forward, (cls, 2, -1), functions=[(TFk, cls + '.forward')]))
    # functional API handed python lists / arrays: filters are created in a hard-coded / default dtype (finding F12)
    for m in ('zero', 'periodization'):
        gs.append(Group('afb2d[%s,4,lists]' % m, G.g_afb2d, (m, 4, True), finding='F12', replay=rp('functional_dtype')))
        gs.append(Group('sfb2d[%s,4,lists]' % m, G.g_sfb2d, (m, 4, True), finding='F12', replay=rp('functional_dtype')))
    gs.append(Group('canary:dtype-ghost', g_dtype_canary, canary=True))
    kinds = ['dwt1d', 'idwt1d', 'dwt2d', 'idwt2d', 'swt', 'dtcwt', 'idtcwt', 'scat', 'scat2']
    jobs = [{'fn': 'precision', 'cfg': {'kind': k, 'input': p}, 'grid': {'x': [0, 1, 2] if dense else [0]}}
            for k in kinds for p in ('randn', 'range', 'sparse', 'const')]
    def default_replay(g):
        dt = any(k in g.gid for k in ('q2c', 'c2q', 'filt', 'fwd_level', 'inv_level', 'FWD_J', 'INV_J'))
        kinds_ = ['dtcwt', 'idtcwt', 'scat'] if dt else (['swt'] if 'SWT' in g.gid else ['dwt1d', 'idwt1d', 'dwt2d', 'idwt2d', 'swt'])
        return [rp('precision', kind=k, input='randn') for k in kinds_]
    return {
        'default_replay': default_replay,
        'groups': gs,
        'native': [('bounded.py', [write_jobs('C16', jobs), seed], 'bounded: output dtype, float32-vs-float64 error bound, .double() module vs float64-built module, strided vs contiguous input (real modules)')],
        'level': 'other', 'trusted_base': TRUSTED,
        'assumptions': ASSUMPTIONS + [
            'NOT PROVED (floating point): the float32 error bound. It is checked at run time only: max|y32 - y64| <= 64*eps32*(64*gain*max|x| + bias) on random, '
            'large-dynamic-range, sparse and constant inputs for every module family (bounded)',
            'dtype ghost: every tensor carries the dtype tag of the value it was computed from (input / default / float32 / float64); an operation whose operands carry different '
            'tags is reported; buffers and Parameters of a module carry the input tag (A-module), plain tensor attributes keep their construction tag',
            'a module built under the float32 default and then converted with .double() keeps float32-ROUNDED taps (filters are stored in the default dtype at construction): '
            'it equals a module built in float64 only up to float32 rounding of the taps (checked natively with that tolerance); structurally all filters are buffers / Parameters',
            'stride ghost: every .view in the catalogue is applied to a tensor known to be contiguous (results of cat / stack / new_zeros / conv); values never depend on strides in the axioms',
            'scattering layers: bounded tier only'],
        'explanation': 'DTYPE / STRIDE ghost obligations carried by the symbolic executor on every function and module of the DWT, SWT and DTCWT halves (proved), '
                       'float32 accuracy and the scattering layers by run-time contracts on a stated grid (bounded, never counted as proved)',
    }


def g_dtype_canary():
    """vacuity guard: mixing a default-dtype tensor with input-dtype data must be reported"""
    import z3
    from ..sym import Ctx, CUR, ctx, t_bin, t_zeros
    from .. import contracts_dwt as CD, prims
    Bn = z3.Int('B')
    CUR.ctx = Ctx([Bn >= 1])
    x = CD.data_tensor('x', (Bn, 3))
    y = t_bin('+', x, t_zeros((Bn, 3), dtype=prims.DT_DEFAULT, kind='torch'))
    return V.dtype_obs('canary', ctx(), y), {}
