"""C19 - the non-separable one-level filter bank equals the separable one."""
from .common import *

MODES4 = ('zero', 'symmetric', 'reflect', 'periodization')


def plan(tier, seed):
    gs = [g for g in helper_groups(tier) if g.gid.startswith(('roll', 'mypad[symmetric', 'mypad[zero', 'mypad[reflect', 'reflect'))]
    for w in ('prep_filt_afb2d_nonsep', 'prep_filt_sfb2d_nonsep'):
        for nf in (2, 4):
            gs.append(Group('%s[%d]' % (w, nf), G.g_prep_nonsep, (w, nf), functions=[(LL, w)]))
    for w, nf in (('prep_filt_afb2d', 2), ('prep_filt_afb2d', 4), ('prep_filt_sfb2d', 2), ('prep_filt_sfb2d', 4)):
        gs.append(Group('%s[%d]' % (w, nf), G.g_prep, (w, nf), functions=[(LL, w)]))
    for m in MODES4:
        for nf in (2, 4):
            gs.append(Group('afb2d_nonsep==afb2d[%s,%d]' % (m, nf), G.g_nonsep_afb, (m, nf), functions=[(LL, 'afb2d_nonsep')],
                            replay=rp('nonsep', mode=m, nf=nf, kind='afb')))
            gs.append(Group('sfb2d_nonsep==sfb2d[%s,%d]' % (m, nf), G.g_nonsep_sfb, (m, nf), functions=[(LL, 'sfb2d_nonsep')],
                            replay=rp('nonsep', mode=m, nf=nf, kind='sfb')))
            # the separable side: real afb2d / sfb2d bodies against the contract used above
            gs.append(Group('afb2d[%s,%d,lists]' % (m, nf), G.g_afb2d, (m, nf, True), functions=[(LL, 'afb2d')]))
            gs.append(Group('sfb2d[%s,%d,lists]' % (m, nf), G.g_sfb2d, (m, nf, True), functions=[(LL, 'sfb2d')]))
        for d in (2, 3):
            gs.append(Group('afb1d[%s,dim=%d]' % (m, d), G.g_afb1d, (m, d), functions=[(LL, 'afb1d')]))
            gs.append(Group('sfb1d[%s,dim=%d]' % (m, d), G.g_sfb1d, (m, d), functions=[(LL, 'sfb1d')]))
    if tier != 'quick':
        # inside the region of finding F1 both banks are wrong in the same way: proved by
        # executing the two real bodies side by side (slow: many paths)
        for kind in ('afb', 'sfb'):
            for nf in (2, 4):
                gs.append(Group('%s2d_nonsep==%s2d[periodization,%d,region=short-signal]' % (kind, kind, nf), G.g_nonsep_direct,
                                (kind, nf), functions=[(LL, kind + '2d_nonsep'), (LL, kind + '2d')],
                                replay=rp('nonsep', mode='periodization', nf=nf, kind=kind)))
    gs.append(Group('canary:nonsep-vs-shifted-separable', G.g_nonsep_afb, ('zero', 4), {'canary': True}, canary=True))
    dense = tier != 'quick'
    jobs = []
    for m in MODES4:
        for kind in ('afb', 'sfb'):
            for nf in (2, 4):
                jobs.append({'fn': 'nonsep', 'cfg': {'mode': m, 'nf': nf, 'kind': kind},
                             'grid': {'H': [2, 3, 6, 9] + ([16] if dense else []), 'W': [2, 5, 8], 'L2': [1, 2, 4] + ([6, 10] if dense else []), 'Lr2': [1, 3]}})
    return {
        'groups': gs,
        'native': [('bounded.py', [write_jobs('C19', jobs), seed], 'bounded: real afb2d_nonsep/sfb2d_nonsep vs real afb2d/sfb2d (pywt wavelets, sizes incl. shorter than the filter)')],
        'level': 'proof', 'trusted_base': TRUSTED,
        'assumptions': ASSUMPTIONS + ['periodization, quick tier: the deductive obligations cover even-extended sizes >= filter length; the short-signal region (where both banks share defect F1) is proved in the thorough tier by side-by-side execution of the two bodies and is covered by the bounded tier in the quick tier',
                                      'filters are given as array-likes (2 or 4), i.e. both functions prepare their own kernels'],
        'explanation': 'code-against-code: afb2d_nonsep/sfb2d_nonsep bodies are verified against the contracts of afb2d/sfb2d, and the afb2d/sfb2d '
                       'bodies against the same contracts, for symbolic sizes and symbolic (independent, even) row and column filter lengths: '
                       'the 2-D kernel sums carry two bound tap indices, so no bound on the filter length is needed; z3',
    }
