"""C07 - transforms are linear and act per (batch, channel) slice."""
from .common import *


def dwt_slice_groups(tier):
    gs = []
    for m in MODES:
        for w in ('afb1d', 'sfb1d'):
            for d in (3, 2):
                gs.append(Group('slices:%s[%s,dim=%d]' % (w, m, d), G.g_slices, (w, m, d), functions=[(LL, w)],
                                replay=rp('slices', fn=w, mode=m, dim=d)))
        for w in ('AFB1D', 'SFB1D', 'AFB2D', 'SFB2D'):
            gs.append(Group('slices:%s[%s]' % (w, m), G.g_slices, (w, m), functions=[(LL, w + '.forward')],
                            replay=rp('slices', fn=w, mode=m)))
    return gs


def plan(tier, seed):
    gs = dwt_slice_groups(tier)
    # linear-by-construction of the whole call chain: every function is executed in
    # kernel mode against a linear spec (LINEAR obligations inside these groups)
    for m in MODES:
        gs.append(Group('DWT1DForward[%s,wavelet]' % m, M.g_forward_module, (1, m, 'wavelet'), functions=[('dwt.transform1d', 'DWT1DForward.forward')]))
        gs.append(Group('DWTForward[%s,tuple4]' % m, M.g_forward_module, (2, m, 'tuple4'), functions=[('dwt.transform2d', 'DWTForward.forward')]))
        gs.append(Group('DWT1DInverse[%s,wavelet]' % m, M.g_inverse_module, (1, m, 'wavelet'), functions=[('dwt.transform1d', 'DWT1DInverse.forward')]))
        gs.append(Group('DWTInverse[%s,tuple4]' % m, M.g_inverse_module, (2, m, 'tuple4'), functions=[('dwt.transform2d', 'DWTInverse.forward')]))
    gs.append(Group('canary:wrong-channel-map', G.g_slices, ('afb1d', 'zero', 3), {'canary': True}, canary=True))
    from . import c07_more
    gs += c07_more.groups(tier)
    jobs = [{'fn': 'slices', 'cfg': {'fn': w, 'mode': m}, 'grid': {'B': [1, 2], 'C': [1, 3], 'N': [3, 6], 'L2': [1, 2]}}
            for w in ('DWT1DForward', 'DWTForward', 'DWT1DInverse', 'DWTInverse') for m in MODES]
    # DTCWT / SWT on multi-channel batches against the per-slice references (the run-time contracts use N, C >= 2)
    jobs += [{'fn': 'dtcwt_forward', 'cfg': {}, 'grid': {'J': [1, 2, 3], 'H': [9, 16], 'W': [12]}},
             {'fn': 'dtcwt_inverse', 'cfg': {}, 'grid': {'J': [1, 2, 3], 'H': [9, 16], 'W': [12]}},
             {'fn': 'dtcwt_inverse', 'cfg': {'absent': {'low': 'none'}}, 'grid': {'J': [2, 3], 'H': [8, 16], 'W': [16]}},
             {'fn': 'dtcwt_slices', 'cfg': {}, 'grid': {'J': [1, 2, 3], 'C': [2, 3]}},
             {'fn': 'swt_forward', 'cfg': {'wave': 'db2'}, 'grid': {'J': [1, 2], 'H': [8], 'W': [12]}}]
    return {
        'groups': gs,
        'native': [('bounded.py', [write_jobs('C07', jobs), seed], 'bounded: T(a x + b y) = a T(x) + b T(y), T(0)=0 and slice-wise action on the real modules')],
        'level': 'proof', 'trusted_base': TRUSTED + ['reference dtcwt 0.14 (oracle for the DTCWT specs)'],
        'assumptions': ASSUMPTIONS + ['slice obligations carry NO precondition on sizes for afb1d/sfb1d (signals shorter than the filter and the '
                                      'regions of the known findings are included); one-level Functions are checked through the 1-D contracts'],
        'explanation': 'linear-by-construction (every element of every result is a linear combination with data-independent coefficients: the '
                       'kernel-mode executor cannot represent anything else) + slice-independence obligations on symbolic batch/channel counts; z3',
    }
