"""C06 - DTCWT back-propagation is the exact adjoint."""
from .common import *
from .. import groups_dtcwt as D, groups_tables as T
TFk = 'dtcwt.transform_funcs'
LAYOUTS_Q = [(2, -1), (1, 2), (5, 0)]


def all_layouts():
    return [(o, r) for o in range(6) for r in range(6) if o != r]


def plan(tier, seed):
    dense = tier != 'quick'
    gs = []
    gs.append(Group('LEMMA:colfilter-self-adjoint(symmetric h)', D.g_adjoint_1d, ('f',)))
    for hp in (False, True):
        gs.append(Group('LEMMA:coldfilt^T==colifilt[highpass=%s]' % hp, D.g_adjoint_1d, ('d', hp)))
        gs.append(Group('LEMMA:colifilt^T==coldfilt[highpass=%s]' % hp, D.g_adjoint_1d, ('i', hp)))
    layouts = all_layouts() + ([(-4, -1), (-1, -2), (2, -1)] if dense else [(2, -1)])
    layouts = sorted(set(layouts))
    for (o, r) in layouts:
        for cls in ('FWD_J1', 'FWD_J2PLUS'):
            fns = [(TFk, cls + '.forward'), (TFk, cls + '.backward')]
            for skip in ((False, True) if (o, r) == (2, -1) or dense else (False,)):
                gs.append(Group('%s.backward[o=%d,ri=%d%s]' % (cls, o, r, ',skip' if skip else ''), D.g_function_adjoint,
                                (cls, o, r, (True,), skip), functions=fns,
                                replay=rp('dtcwt_grad', which='forward', o_dim=o, ri_dim=r, skip_hps=skip)))
        for cls in ('INV_J1', 'INV_J2PLUS'):
            fns = [(TFk, cls + '.forward'), (TFk, cls + '.backward')]
            for nd in (((True, True), (True, False), (False, True)) if (o, r) == (2, -1) or dense else ((True, True),)):
                gs.append(Group('%s.backward[o=%d,ri=%d,needs=%s]' % (cls, o, r, ''.join('T' if b else 'F' for b in nd)),
                                D.g_function_adjoint, (cls, o, r, nd), functions=fns,
                                replay=rp('dtcwt_grad', which='inverse', o_dim=o, ri_dim=r, needs=[nd[0]] + [nd[1]] * 3)))
    # absent low-pass (None / 0-dim placeholder) with the band-pass input requiring grad: its slot must get None, the band-pass its adjoint
    for cls in ('INV_J1', 'INV_J2PLUS'):
        for la in ('none', '0dim'):
            gs.append(Group('%s.backward[o=2,ri=-1,needs=FT,lowpass=%s]' % (cls, la), D.g_function_adjoint, (cls, 2, -1, (False, True)),
                            {'low_absent': la}, functions=[(TFk, cls + '.forward'), (TFk, cls + '.backward')],
                            replay=rp('dtcwt_grad', which='inverse', low_absent=la)))
    for cls in ('FWD_J1', 'FWD_J2PLUS', 'INV_J1', 'INV_J2PLUS'):
        gs.append(Group('%s.forward[o=2,ri=-1]' % cls, D.g_function_forward, (cls, 2, -1), functions=[(TFk, cls + '.forward')]))
    for n, loader in T.accepted():
        if n in ('farras', 'near_sym_a2'):
            continue
        gs.append(Group('TABLE:identities[%s]' % n, T.g_tables_identities, ([n],)))
    gs.append(Group('canary:adjoint-of-shifted-forward', D.g_function_adjoint, ('FWD_J1', 2, -1, (True,), True), {'canary': True}, canary=True))
    jobs = []
    pairs = [('near_sym_a', 'qshift_a'), ('antonini', 'qshift_06'), ('legall', 'qshift_b'), ('near_sym_b', 'qshift_d')] + \
        ([('near_sym_a', 'qshift_c'), ('legall', 'qshift_06')] if dense else [])
    for b, q in pairs:
        jobs.append({'fn': 'dtcwt_grad', 'cfg': {'which': 'forward', 'biort': b, 'qshift': q}, 'grid': {'J': [1, 2, 3], 'H': [4, 7], 'W': [6]}})
        jobs.append({'fn': 'dtcwt_grad', 'cfg': {'which': 'inverse', 'biort': b, 'qshift': q}, 'grid': {'J': [1, 2], 'H': [4, 7], 'W': [6]}})
    jobs.append({'fn': 'dtcwt_grad', 'cfg': {'which': 'forward', 'skip_hps': [False, True, False], 'include_scale': [True, False, True]}, 'grid': {'J': [3], 'H': [8], 'W': [12]}})
    jobs.append({'fn': 'dtcwt_grad', 'cfg': {'which': 'inverse', 'needs': [False, True, False, True]}, 'grid': {'J': [3], 'H': [8], 'W': [8]}})
    for la in ('none', 'empty', '0dim'):
        jobs.append({'fn': 'dtcwt_grad', 'cfg': {'which': 'inverse', 'low_absent': la}, 'grid': {'J': [1, 2, 3], 'H': [8], 'W': [8]}})
    for (o, r) in [(0, 1), (4, 2), (-1, 3)]:
        jobs.append({'fn': 'dtcwt_grad', 'cfg': {'which': 'forward', 'o_dim': o, 'ri_dim': r}, 'grid': {'J': [2], 'H': [6], 'W': [8]}})
        jobs.append({'fn': 'dtcwt_grad', 'cfg': {'which': 'inverse', 'o_dim': o, 'ri_dim': r}, 'grid': {'J': [2], 'H': [6], 'W': [8]}})
    return {
        'groups': gs,
        'lean_lemmas': ['adjoint_of_comp', 'adjoint_of_add'],
        'native': [('bounded.py', [write_jobs('C06', jobs), seed], 'bounded: autograd through the real DTCWTForward/DTCWTInverse vs J^T g (small images incl. images smaller than the filters)')],
        'level': 'proof', 'trusted_base': TRUSTED,
        'assumptions': ASSUMPTIONS + [
            'A-autograd: torch calls backward with the output cotangents and chains Functions; multi-level gradients, skip_hps / include_scale masks reduce to the per-Function obligations',
            'filter identities (TABLE obligations, exact arithmetic on every shipped table): level-1 filters symmetric, q-shift tree b = reverse(tree a); the kernels are compared for every filter set satisfying them',
            'Function level: the real forward and backward bodies (and the real fwd_j1/inv_j1/fwd_j2plus/inv_j2plus bodies they call) are executed with the 1-D column/row operations as GENERIC linear operators carrying only the facts of the 1-D lemmas (symmetric kernel for colfilter with a symmetric odd filter; colifilt(.,P,Q)=coldfilt(.,Q,P)^T for Q=reverse(P)); no assumption on sizes or filter lengths there',
            'the 1-D lemmas themselves are proved for images at least as long as the filter (single reflection of the symmetric extension); shorter images are covered by the bounded tier only',
            'level-1 filter lengths odd, q-shift lengths even'],
        'explanation': 'kernel transposition between the real forward and the real backward of FWD_J1 / FWD_J2PLUS / INV_J1 / INV_J2PLUS '
                       '(callees replaced by their contracts = the reference column operations), per layout and per needs_input_grad subset; '
                       '1-D adjoint lemmas; z3 with ground instances of the symmetric-extension axioms',
    }
