"""C01 - DWT analysis equals PyWavelets on every input (1-D and 2-D)."""
from .common import *


def plan(tier, seed):
    gs = helper_groups(tier) + afb1d_groups()
    for w, nf in (('prep_filt_afb1d', 2), ('prep_filt_afb2d', 2), ('prep_filt_afb2d', 4)):
        gs.append(Group('%s[%d]' % (w, nf), G.g_prep, (w, nf), functions=[(LL, w)]))
        gs.append(Group('%s[%d,(L,1) column arrays]' % (w, nf), G.g_prep, (w, nf, 'col'), functions=[(LL, w)],
                        replay=rp('dwt_forward' if 'afb' in w else 'dwt_inverse', dim=2, mode='zero', waveform='tuple4col')))
    gs.append(Group('mode-tables', G.g_mode_tables, functions=[(LL, 'mode_to_int'), (LL, 'int_to_mode')]))
    for m in MODES:
        gs.append(Group('AFB1D.forward[%s]' % m, G.g_AFB1D_fwd, (m,), functions=[(LL, 'AFB1D.forward')],
                        replay=rp('dwt_forward', dim=1, mode=m, waveform='wavelet')))
        gs.append(Group('AFB2D.forward[%s]' % m, G.g_AFB2D_fwd, (m,), functions=[(LL, 'AFB2D.forward')],
                        replay=rp('dwt_forward', dim=2, mode=m, waveform='tuple4')))
        for wf in ('name', 'wavelet', 'tuple2'):
            gs.append(Group('DWT1DForward[%s,%s]' % (m, wf), M.g_forward_module, (1, m, wf),
                            functions=[('dwt.transform1d', 'DWT1DForward.__init__'), ('dwt.transform1d', 'DWT1DForward.forward')],
                            replay=rp('dwt_forward', dim=1, mode=m, waveform=wf)))
        for wf in ('name', 'wavelet', 'tuple2', 'tuple4'):
            gs.append(Group('DWTForward[%s,%s]' % (m, wf), M.g_forward_module, (2, m, wf),
                            functions=[('dwt.transform2d', 'DWTForward.__init__'), ('dwt.transform2d', 'DWTForward.forward')],
                            replay=rp('dwt_forward', dim=2, mode=m, waveform=wf)))
    gs += f1_groups()
    gs.append(Group('canary:afb1d[zero]-shifted', G.g_afb1d, ('zero', 3), {'canary': True}, canary=True))
    gs.append(Group('canary:afb1d[periodization]-shifted', G.g_afb1d, ('periodization', 2), {'canary': True}, canary=True))
    dense = tier != 'quick'
    jobs = []
    for m in MODES:
        jobs.append({'fn': 'dwt_forward', 'cfg': {'dim': 1, 'mode': m, 'waveform': 'wavelet'},
                     'grid': {'N': [2, 3, 5, 8, 13] + ([21, 32] if dense else []), 'Lc2': [1, 2, 4] + ([3, 7, 10] if dense else []),
                              'J': [1, 2] + ([3] if dense else [])}})
        jobs.append({'fn': 'dwt_forward', 'cfg': {'dim': 2, 'mode': m, 'waveform': 'tuple4'},
                     'grid': {'H': [2, 5, 8] + ([11] if dense else []), 'W': [3, 6] + ([9] if dense else []),
                              'Lc2': [1, 3], 'Lr2': [2], 'J': [1, 2]}})
    # the PyWavelets alias 'per' must behave as 'periodization' in the modules as well
    jobs.append({'fn': 'dwt_forward', 'cfg': {'dim': 1, 'mode': 'per', 'waveform': 'wavelet'}, 'grid': {'N': [8, 13], 'Lc2': [2, 3], 'J': [1, 2]}})
    jobs.append({'fn': 'dwt_forward', 'cfg': {'dim': 2, 'mode': 'per', 'waveform': 'tuple4'}, 'grid': {'H': [8], 'W': [6, 9], 'Lc2': [2], 'Lr2': [1], 'J': [1, 2]}})
    return {
        'groups': gs,
        'native': [('oracle_dwt.py', [seed] + (['dense'] if dense else []), 'oracle: spec functions vs pywt.dwt/idwt'),
                   ('bounded.py', [write_jobs('C01', jobs), seed], 'bounded: real DWT1DForward/DWTForward vs pywt.wavedec/wavedec2')],
        'level': 'proof',
        'trusted_base': TRUSTED,
        'assumptions': ASSUMPTIONS + [
            'periodization mode: obligations are stated for levels whose even-extended input length is >= the filter length; '
            'the complementary region is known finding F1 (checked separately: must still be refuted)'],
        'explanation': 'contract-based deductive verification: VCs generated from the AST of the real source by symbolic '
                       'execution (symbolic sizes B,C,H,W, symbolic even filter length, symbolic taps, symbolic level count J via '
                       'a loop invariant), discharged by z3; bounded run-time contracts vs pywt underneath (never counted as proved)',
    }
