"""C17 - orthogonal wavelets with periodization give an orthogonal transform."""
from .common import *
from .. import tables


def orth_names():
    W = tables.wavelets()
    return sorted(n for n in W if W[n]['orthogonal'] and W[n]['short'] in ('db', 'sym', 'coif', 'haar'))


def plan(tier, seed):
    dense = tier != 'quick'
    m = 'periodization'
    gs = []
    for d in (2, 3):
        gs.append(Group('afb1d[%s,dim=%d]' % (m, d), G.g_afb1d, (m, d), functions=[(LL, 'afb1d')]))
        gs.append(Group('sfb1d[%s,dim=%d]' % (m, d), G.g_sfb1d, (m, d), functions=[(LL, 'sfb1d')]))
    for w in ('AFB1D', 'SFB1D', 'AFB2D', 'SFB2D'):
        gs.append(Group('%s.forward[%s]' % (w, m), getattr(G, 'g_%s_fwd' % w), (m,), functions=[(LL, w + '.forward')]))
    for cls in ('AFB1D', 'AFB2D'):
        gs.append(Group('%s.backward[periodization,even]' % cls, G.g_adjoint, (cls, m, (True,), 'even'),
                        functions=[(LL, cls + '.backward')], replay=rp('dwt_orth', dim=1 if cls == 'AFB1D' else 2)))
    for dim in (1, 2):
        gs.append(Group('%s[%s,wavelet]' % ('DWT1DForward' if dim == 1 else 'DWTForward', m), M.g_forward_module, (dim, m, 'wavelet'),
                        replay=rp('dwt_orth', dim=dim)))
        gs.append(Group('%s[%s,wavelet]' % ('DWT1DInverse' if dim == 1 else 'DWTInverse', m), M.g_inverse_module, (dim, m, 'wavelet'),
                        replay=rp('dwt_orth', dim=dim)))
        gs.append(Group('LEMMA:closed-form[%dD,%s]' % (dim, m), G.g_pr_closed_form, (dim, m)))
        gs.append(Group('LEMMA:synthesis==analysis^T[%dD]' % dim, G.g_orth_transpose, (dim,)))
    names = orth_names()
    if not dense:
        names = [n for n in names if n in ('haar', 'db1', 'db2', 'db4', 'db8', 'db16', 'db38', 'sym2', 'sym5', 'sym13', 'sym20', 'coif1', 'coif4', 'coif17')]
    for k in range(0, len(names), 8):
        gs.append(Group('TABLE:PR[%s..]' % names[k], tables.g_table_pr, (names[k:k + 8],)))
        gs.append(Group('TABLE:orth[%s..]' % names[k], tables.g_table_orth, (names[k:k + 8],)))
    gs.append(Group('canary:non-orthogonal-table', tables.g_table_orth, (['bior2.4'],), canary=True))
    jobs = [{'fn': 'dwt_orth', 'cfg': {'dim': dim, 'wave': wv}, 'grid': {'J': [1, 2, 3], 'm': [1, 2]}}
            for dim in (1, 2) for wv in (['haar', 'db2', 'db5', 'sym4', 'coif2'] + (['db12', 'sym11', 'coif6'] if dense else []))]
    return {
        'groups': gs,
        'lean_lemmas': ['adjoint_of_comp', 'inner_preserved', 'norm_preserved', 'pr_levels'],
        'native': [('oracle_dwt.py', [seed], 'oracle: spec functions vs pywt.dwt/idwt'),
                   ('bounded.py', [write_jobs('C17', jobs), seed], 'bounded: energy preservation and inverse(g)==backprop(g) on the real modules')],
        'level': 'proof', 'trusted_base': TRUSTED,
        'assumptions': ASSUMPTIONS + [
            'derivation (finite-dimensional linear algebra, not solver-checked): with S := synthesis and A := analysis on even extents >= L, '
            'the obligations give S = A^T (transposition lemma with rec = reverse(dec), a TABLE fact) and S A = I (closed form + TABLE PR identity); '
            'A is square (N/2 + N/2 = N outputs), so A^T A = I implies A A^T = I, i.e. A is orthogonal: inner products and energy are preserved, '
            'inverse = transpose = back-propagation (code level: AFB*.backward == A^T by the C05 obligations, DWTInverse == S by C10). '
            'Multi-level / 2-D transforms are products and Kronecker products of such maps',
            'dmey is excluded (pywt flags it orthogonal but it is only approximately so)'],
        'explanation': 'orthogonality reduced to: perfect reconstruction (C02 machinery, periodization) + synthesis is the transpose of analysis '
                       '(symbolic kernel transposition) + exact-arithmetic table facts for every orthogonal wavelet',
    }
