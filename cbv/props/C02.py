"""C02 - DWT synthesis inverts analysis: perfect reconstruction."""
from .common import *
from .. import tables

QUICK_WAVES = ['haar', 'db2', 'db3', 'db4', 'db8', 'db20', 'sym4', 'sym8', 'sym20', 'coif1', 'coif5', 'coif17', 'bior1.3', 'bior2.4',
               'bior3.9', 'bior6.8', 'rbio1.5', 'rbio3.1', 'rbio6.8', 'dmey']


def plan(tier, seed):
    dense = tier != 'quick'
    gs = []
    # (1) the code computes PyWavelets' dwt / idwt recursions (as C01 / C10): modules under contract
    for m in MODES:
        for d in (2, 3):
            gs.append(Group('afb1d[%s,dim=%d]' % (m, d), G.g_afb1d, (m, d), functions=[(LL, 'afb1d')], replay=rp('afb1d', mode=m, dim=d)))
            gs.append(Group('sfb1d[%s,dim=%d]' % (m, d), G.g_sfb1d, (m, d), functions=[(LL, 'sfb1d')], replay=rp('sfb1d', mode=m, dim=d)))
        for w in ('AFB1D', 'SFB1D', 'AFB2D', 'SFB2D'):
            gs.append(Group('%s.forward[%s]' % (w, m), getattr(G, 'g_%s_fwd' % w), (m,), functions=[(LL, w + '.forward')]))
        for dim, wf in ((1, 'wavelet'), (2, 'wavelet'), (2, 'tuple4')):
            gs.append(Group('%s[%s,%s]' % ('DWT1DForward' if dim == 1 else 'DWTForward', m, wf), M.g_forward_module, (dim, m, wf),
                            functions=[('dwt.transform%dd' % dim, ('DWT1DForward' if dim == 1 else 'DWTForward') + '.forward')],
                            replay=rp('dwt_pr', dim=dim, mode=m)))
            gs.append(Group('%s[%s,%s]' % ('DWT1DInverse' if dim == 1 else 'DWTInverse', m, wf), M.g_inverse_module, (dim, m, wf),
                            functions=[('dwt.transform%dd' % dim, ('DWT1DInverse' if dim == 1 else 'DWTInverse') + '.forward')],
                            replay=rp('dwt_pr', dim=dim, mode=m)))
        # (2) closed form of synthesis-after-analysis, symbolic taps and sizes
        for dim in (1, 2):
            gs.append(Group('LEMMA:closed-form[%dD,%s]' % (dim, m), G.g_pr_closed_form, (dim, m)))
    for w, nf in (('prep_filt_afb1d', 2), ('prep_filt_sfb1d', 2), ('prep_filt_afb2d', 4), ('prep_filt_sfb2d', 4)):
        gs.append(Group('%s[%d]' % (w, nf), G.g_prep, (w, nf), functions=[(LL, w)]))
    gs.append(Group('LEMMA:pyramid-shapes', G.g_pr_shapes))
    # (3) the filter-bank identity, exact arithmetic on the installed PyWavelets tables
    names = sorted(tables.wavelets()) if dense else QUICK_WAVES
    for k in range(0, len(names), 8):
        gs.append(Group('TABLE:PR[%s..]' % names[k], tables.g_table_pr, (names[k:k + 8],)))
    gs.append(Group('canary:closed-form-shifted', G.g_pr_closed_form, (1, 'symmetric'), {'canary': True}, canary=True))
    gs.append(Group('canary:perturbed-table', tables.g_table_pr, (['db4'],), {'perturb': 1e-6}, canary=True))
    jobs = []
    waves = ['db1', 'db3', 'sym5', 'bior2.4', 'rbio3.3', 'dmey'] + (['coif9', 'db19', 'bior6.8'] if dense else [])
    for m in MODES:
        for wv in waves:
            l2 = [tables.wavelets()[wv]['dec_len'] // 2]
            jobs.append({'fn': 'dwt_pr', 'cfg': {'dim': 1, 'mode': m, 'wave': wv}, 'grid': {'N': [5, 16, 33] + ([64] if dense else []), 'J': [1, 3], 'Lc2': l2}})
            jobs.append({'fn': 'dwt_pr', 'cfg': {'dim': 2, 'mode': m, 'wave': wv}, 'grid': {'H': [7, 16], 'W': [9, 12], 'J': [1, 2], 'Lc2': l2}})
    return {
        'groups': gs,
        'lean_lemmas': ['pr_2d', 'pr_2d_bands', 'pr_levels'],
        'native': [('oracle_dwt.py', [seed], 'oracle: spec functions vs pywt.dwt/idwt'),
                   ('bounded.py', [write_jobs('C02', jobs), seed], 'bounded: real inverse(forward(x)) vs x and vs PyWavelets own reconstruction error')],
        'level': 'proof', 'trusted_base': TRUSTED,
        'assumptions': ASSUMPTIONS + [
            'derivation step performed by the checker, not by the solver: the closed form (a double sum over tap indices u,v, proved symbolically) is '
            'regrouped by d = L-1-u-v into sum_d Phi_c(d) x_ext[n+d]; the TABLE obligations establish Phi_c(d) = delta(d) within rho_w in exact rational '
            'arithmetic for both parity classes c; hence |idwt(dwt(x))[n] - x[n]| <= rho_w * max|x| on the original extent',
            '2-D and multi-level: 2-D closed form proved directly; multi-level by the loop invariants of C01/C10 plus the pyramid-shape lemmas (unpad rule)',
            'dmey is only approximately PR (rho = 6.7e-3): its reconstruction error is that of the same operator in PyWavelets (C01/C10)',
            'periodization: outside the region of known finding F1'],
        'explanation': 'contract-based deductive verification of analysis and synthesis against the PyWavelets recursion (as C01/C10) + symbolic closed-form '
                       'lemma of their composition (z3) + exact-arithmetic filter-bank identities on every table',
    }
