"""C15 - calls are pure: no argument mutation, no dependence on call history or threads."""
from .dt_common import *
from .. import groups_purity as P
from ..sym import *


def g_frame_canary():
    """vacuity guard of the effect analysis: an in-place write through a view of an argument must be reported"""
    from .. import contracts_dwt as CD, verify
    import z3
    Bn, C, H, W = z3.Ints('B C H W')
    CUR.ctx = Ctx([Bn >= 1, C >= 1, H >= 2, W >= 2])
    x = CD.data_tensor('x', (Bn, C, H, W))
    y = t_contiguous(x)
    tset(y, (slice(None), slice(None), slice(0, 1)), tget(x, (slice(None), slice(None), slice(1, 2))))
    return verify.frame_obs('canary', ctx(), ([x], {})), {}


def plan(tier, seed):
    from .. import verify as V
    V.CFG['dtype'] = True          # the dtype ghost stands in for the former syntactic "reads the global default dtype" rule
    dense = tier != 'quick'
    gs = []
    T1, T2d = 'dwt.transform1d', 'dwt.transform2d'
    for m in MODES:
        for d in (3, 2):
            gs.append(Group('afb1d[%s,dim=%d]' % (m, d), G.g_afb1d, (m, d), functions=[(LL, 'afb1d')]))
            gs.append(Group('sfb1d[%s,dim=%d]' % (m, d), G.g_sfb1d, (m, d), functions=[(LL, 'sfb1d')]))
        for w in ('AFB1D', 'SFB1D', 'AFB2D', 'SFB2D'):
            gs.append(Group('%s.forward[%s]' % (w, m), getattr(G, 'g_%s_fwd' % w), (m,), functions=[(LL, w + '.forward')]))
        for dim in (1, 2):
            gs.append(Group('DWT%sForward[%s]' % ('1D' if dim == 1 else '', m), M.g_forward_module, (dim, m, 'wavelet'),
                            functions=[(T1 if dim == 1 else T2d, ('DWT1DForward' if dim == 1 else 'DWTForward') + '.forward')]))
            gs.append(Group('DWT%sInverse[%s]' % ('1D' if dim == 1 else '', m), M.g_inverse_module, (dim, m, 'wavelet'),
                            functions=[(T1 if dim == 1 else T2d, ('DWT1DInverse' if dim == 1 else 'DWTInverse') + '.forward')]))
    for cls in ('AFB1D', 'SFB1D', 'AFB2D', 'SFB2D'):
        nd = (True,) if cls.startswith('AFB') else (True, True)
        gs.append(Group('%s.backward[zero]' % cls, G.g_adjoint, (cls, 'zero', nd), functions=[(LL, cls + '.backward')]))
        gs.append(Group('%s.backward[periodization,even]' % cls, G.g_adjoint, (cls, 'periodization', nd, 'even'), functions=[(LL, cls + '.backward')]))
    for m in ('zero', 'symmetric', 'periodization'):
        for nf in (2, 4):
            gs.append(Group('afb2d_nonsep[%s,%d]' % (m, nf), G.g_nonsep_afb, (m, nf), functions=[(LL, 'afb2d_nonsep')]))
            gs.append(Group('sfb2d_nonsep[%s,%d]' % (m, nf), G.g_nonsep_sfb, (m, nf), functions=[(LL, 'sfb2d_nonsep')]))
    for w, nf in (('prep_filt_afb1d', 2), ('prep_filt_sfb1d', 2), ('prep_filt_afb2d', 4), ('prep_filt_sfb2d', 4)):
        gs.append(Group('%s[%d]' % (w, nf), G.g_prep, (w, nf), functions=[(LL, w)]))
    for d in (3, 2):
        gs.append(Group('afb1d_atrous[dim=%d,dilation=2]' % d, G.g_atrous1d, (d, 2), functions=[(LL, 'afb1d_atrous')]))
    gs.append(Group('SWTForward', G.g_swt_module, (3, None, 'wavelet'), functions=[(T2d, 'SWTForward.forward')]))
    for d in (0, 1, 2, 3):
        gs.append(Group('roll[dim=%d]' % d, G.g_roll, (d,), functions=[(LL, 'roll')]))
    for m in ('symmetric', 'periodic', 'zero', 'reflect'):
        gs.append(Group('mypad[%s,b]' % m, G.g_mypad, (m, 'b'), functions=[(LL, 'mypad')]))
    gs.append(Group('symm_pad_1d', G.g_symm_pad, functions=[('utils', 'symm_pad_1d')]))
    # dual-tree half
    gs += fwd_lowlevel(tier) + [g for g in inv_lowlevel(tier) if 'ifilt' in g.gid or g.gid == 'c2q']
    for tr in (False, True):
        gs.append(Group('prep_filt[column,transpose=%s]' % tr, D.g_dt_prep, (tr, 'column'), functions=[(LLd, 'prep_filt')]))
    for l1 in (True, False):
        gs.append(Group('fwd_level[l1=%s]' % l1, D.g_fwd_level, (l1, False, False, 2), functions=[(TFk, 'fwd_j1' if l1 else 'fwd_j2plus')]))
        gs.append(Group('inv_level[l1=%s]' % l1, D.g_inv_level, (l1, False, None, 2), functions=[(TFk, 'inv_j1' if l1 else 'inv_j2plus')]))
    for cls in ('FWD_J1', 'FWD_J2PLUS', 'INV_J1', 'INV_J2PLUS'):
        gs.append(Group('%s.forward' % cls, D.g_function_forward, (cls, 2, -1), functions=[(TFk, cls + '.forward')]))
        gs.append(Group('%s.backward' % cls, D.g_function_adjoint, (cls, 2, -1, (True,) if cls.startswith('FWD') else (True, True)),
                        functions=[(TFk, cls + '.backward')]))
    for J in (1, 2):
        gs.append(Group('DTCWTForward[J=%d]' % J, MD.g_dtcwt_forward, (J, 2, -1, 'default'), functions=[(T2, 'DTCWTForward.forward')]))
        gs.append(Group('DTCWTInverse[J=%d]' % J, MD.g_dtcwt_inverse, (J, 2, -1, 'none'), functions=[(T2, 'DTCWTInverse.forward')]))
    # autograd recording does not change what the scattering Functions return: each forward is proved equal to the SAME spec with
    # requires_grad on and off (the groups of C08)
    from .. import groups_scat as S
    SLk = 'scatternet.lowlevel'
    for rot in (False, True):
        nm = 'ScatLayerj1_rot_f' if rot else 'ScatLayerj1_f'
        for col in (False, True):
            for rg in (True, False):
                gs.append(Group('%s[colour=%s,requires_grad=%s]' % (nm, col, rg), S.g_scat_j1, (rot, col, rg), functions=[(SLk, nm + '.forward')],
                                replay=rp('purity', kind='scat0')))
        nm2 = 'ScatLayerj2_rot_f' if rot else 'ScatLayerj2_f'
        for rg in (True, False):
            gs.append(Group('%s.forward[requires_grad=%s]' % (nm2, rg), S.g_scat_j2_forward, (rot, rg), functions=[(SLk, nm2 + '.forward')],
                            replay=rp('purity', kind='scat2_0')))
    gs.append(Group('loaders[COEFF_CACHE]', T.g_loaders, functions=[('dtcwt.coeffs', '_load_from_file')]))
    gs.append(Group('READS/STATE syntactic scan', P.g_reads, replay=rp('history_order', family='all')))
    gs.append(Group('canary:write-through-contiguous()-of-an-argument', g_frame_canary, canary=True))
    kinds = ['dwt1d', 'idwt1d', 'dwt2d', 'idwt2d', 'swt', 'dtcwt', 'idtcwt', 'scat', 'scat2', 'scat0', 'scat2_0']
    jobs = [{'fn': 'purity', 'cfg': {'kind': k}, 'grid': {'x': [0, 1] if dense else [0]}} for k in kinds]
    jobs += [{'fn': 'history_order', 'cfg': {'family': f}, 'grid': {'x': [0]}} for f in ('dwt1d', 'dwt2d', 'swt', 'dtcwt', 'scat')]
    return {
        'groups': gs,
        'native': [('bounded.py', [write_jobs('C15', jobs), seed], 'bounded: arguments unchanged, same result after unrelated calls / other instances / autograd on, and from 4 concurrent threads (real modules); order independence: families of configurations sharing sizes run in three orders in fresh interpreters, bit-identical digests')],
        'level': 'other', 'trusted_base': TRUSTED,
        'assumptions': ASSUMPTIONS + [
            'A-threads: torch primitives are thread-safe on tensors no thread writes; CPython dict insertion is atomic. Thread and history independence are derived from '
            'FRAME (no call writes a storage it did not create, including through views and .contiguous()) and STATE/READS (no module attribute or module-level object is '
            'assigned or consulted, except the idempotent COEFF_CACHE fill) - interleavings themselves are NOT explored',
            'FRAME obligations are modular: every function is analysed with its callees replaced by contracts, and every callee in the catalogue carries its own FRAME obligation',
            'scattering layers: READS scan, independence of the returned values from requires_grad (paired forward groups), bounded tier; no FRAME obligations (term mode has no effect analysis)'],
        'explanation': 'effect analysis carried by the symbolic executor: every in-place write (slice assignment, augmented assignment, out-of-place result of .contiguous() '
                       'that may alias) is recorded with its storage; FRAME obligation = none of them is reachable from an argument or a module buffer; plus AST scans for '
                       'module-level state, default-dtype / requires_grad reads, attribute stores outside __init__, decorators and closures',
    }
