"""C03 - DTCWT analysis equals the reference dual-tree implementation."""
from .dt_common import *


def plan(tier, seed):
    dense = tier != 'quick'
    Jmax = 3 if not dense else 4
    gs = lowlevel_groups(tier) + fwd_lowlevel(tier)
    for l1 in (True, False):
        fn = 'fwd_j1' if l1 else 'fwd_j2plus'
        for rot in (False, True):
            for skip in (False, True):
                gs.append(Group('%s%s[skip=%s]' % (fn, '_rot' if rot else '', skip), D.g_fwd_level, (l1, rot, skip, 2),
                                functions=[(TFk, fn + ('_rot' if rot else ''))], replay=rp('dtcwt_forward')))
        for od in (0, 1, 3, 4):
            gs.append(Group('%s[o_dim=%d]' % (fn, od), D.g_fwd_level, (l1, False, False, od), functions=[(TFk, fn), (TFk, 'highs_to_orientations')]))
    gs.append(Group('fwd_j1[zero mode]', D.g_fwd_level, (True, False, False, 2, 'zero'), functions=[(TFk, 'fwd_j1')]))
    for cls in ('FWD_J1', 'FWD_J2PLUS'):
        for (o, r) in ((2, -1), (1, 2), (5, 0)):
            gs.append(Group('%s.forward[o=%d,ri=%d]' % (cls, o, r), D.g_function_forward, (cls, o, r), functions=[(TFk, cls + '.forward')],
                            replay=rp('dtcwt_forward', o_dim=o, ri_dim=r)))
        gs.append(Group('%s.forward[skip]' % cls, D.g_function_forward, (cls, 2, -1, True), functions=[(TFk, cls + '.forward')]))
    gs.append(Group('get_dimensions5', T.g_get_dimensions, ('get_dimensions5',), functions=[(TFk, 'get_dimensions5')]))
    for J in range(1, Jmax + 1):
        for names in (True, False):
            gs.append(Group('DTCWTForward[J=%d,%s]' % (J, 'names' if names else 'tuples'), MD.g_dtcwt_forward, (J, 2, -1, 'default', names),
                            level='bounded-in-J', functions=[(T2, 'DTCWTForward.__init__'), (T2, 'DTCWTForward.forward')],
                            replay=rp('dtcwt_forward')))
    # unbounded in the number of levels: level-loop invariant with symbolic J
    for (o, r, sk, inc) in ((2, -1, False, False), (2, -1, True, False), (2, -1, False, True), (1, 2, False, False), (5, 0, False, False)):
        gs.append(Group('DTCWTForward[J symbolic,o=%d,ri=%d,skip=%s,include=%s]' % (o, r, sk, inc), MD.g_dtcwt_forward_symJ, (o, r, sk, inc),
                        functions=[(T2, 'DTCWTForward.__init__'), (T2, 'DTCWTForward.forward')], replay=rp('dtcwt_forward', o_dim=o, ri_dim=r)))
    gs.append(Group('DTCWTForward[J symbolic,filters given as tuples]', MD.g_dtcwt_forward_symJ, (2, -1, False, False, 'symmetric', False, False),
                    functions=[(T2, 'DTCWTForward.__init__'), (T2, 'DTCWTForward.forward')], replay=rp('dtcwt_forward')))
    gs.append(Group('canary:symbolic-J-step-with-exchanged-tree-filters', MD.g_dtcwt_forward_symJ, (2, -1, False, False, 'symmetric', True), canary=True))
    gs += sign_table_groups()
    gs.append(Group('canary:wrong-interleave', D.g_dt_filter, ('coldfilt', 'symmetric', False, True), canary=True))
    gs.append(Group('canary:module-lowpass-of-wrong-level', MD.g_dtcwt_forward, (2, 2, -1, 'default', True, 'symmetric', True), canary=True))
    bi = ['antonini', 'legall', 'near_sym_a', 'near_sym_b']
    qs = ['qshift_06', 'qshift_a', 'qshift_b', 'qshift_c', 'qshift_d']
    pairs = [(b, q) for b in bi for q in qs] if dense else [('antonini', 'qshift_06'), ('legall', 'qshift_a'), ('near_sym_a', 'qshift_b'),
                                                            ('near_sym_b', 'qshift_c'), ('near_sym_a', 'qshift_d')]
    jobs = [{'fn': 'dtcwt_forward', 'cfg': {'biort': b, 'qshift': q}, 'grid': {'J': [1, 2, 4], 'H': [2, 5, 9, 14] + ([27] if dense else []), 'W': [3, 12]}}
            for b, q in pairs]
    return {
        'groups': gs,
        'native': [('oracle_dtcwt.py', [seed] + (['dense'] if dense else []), 'oracle: dual-tree column-operation specs vs dtcwt.numpy.lowlevel'),
                   ('bounded.py', [write_jobs('C03', jobs), seed], 'bounded: real DTCWTForward vs dtcwt.Transform2d.forward (float64), odd sizes and non-multiples of 4')],
        'level': 'proof', 'trusted_base': TRUSTED + ['reference dtcwt 0.14 (oracle)'],
        'assumptions': ASSUMPTIONS + DT_ASSUME,
        'explanation': 'contract-based deductive proof of every function between the module and conv2d (symm_pad_1d, prep_filt, colfilter, rowfilter, coldfilt, rowdfilt, q2c, '
                       'highs_to_orientations, fwd_j1(_rot), fwd_j2plus(_rot), FWD_J1/FWD_J2PLUS.forward, get_dimensions5, DTCWTForward.__init__/forward) against the reference '
                       'algorithm, for symbolic sizes (images smaller than the filters included: the symmetric extension is an uninterpreted map shared by code and spec), symbolic '
                       'filter lengths and taps; the module level is unrolled in J (bounded in J)',
    }
