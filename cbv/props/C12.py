"""C12 - DTCWT options only re-arrange or select outputs; pyramids are prefix-consistent."""
from .dt_common import *


def plan(tier, seed):
    dense = tier != 'quick'
    gs = [Group('get_dimensions5', T.g_get_dimensions, ('get_dimensions5',), functions=[(TFk, 'get_dimensions5')]),
          Group('get_dimensions6', T.g_get_dimensions, ('get_dimensions6',), functions=[(TFk, 'get_dimensions6')])]
    for (o, r) in layouts(tier):
        for cls in ('FWD_J1', 'FWD_J2PLUS', 'INV_J1') + (('INV_J2PLUS',) if dense or (o, r) in ((2, -1), (0, 4)) else ()):
            gs.append(Group('%s.forward[o=%d,ri=%d]' % (cls, o, r), D.g_function_forward, (cls, o, r), functions=[(TFk, cls + '.forward')],
                            replay=rp('dtcwt_pr', o_dim=o, ri_dim=r)))
        gs.append(Group('DTCWTForward[J=2,o=%d,ri=%d]' % (o, r), MD.g_dtcwt_forward, (2, o, r, 'default'), level='bounded-in-J',
                        functions=[(T2, 'DTCWTForward.forward')], replay=rp('dtcwt_forward', o_dim=o, ri_dim=r)))
        gs.append(Group('DTCWTInverse[J=2,o=%d,ri=%d]' % (o, r), MD.g_dtcwt_inverse, (2, o, r, 'none'), level='bounded-in-J',
                        functions=[(T2, 'DTCWTInverse.forward')], replay=rp('dtcwt_inverse', o_dim=o, ri_dim=r)))
    # skip / include masks: symbolic booleans; every level is stated against the mask-free reference level, so
    # skipping or including a level cannot change any other output, and level j never mentions J (prefix consistency)
    for J in (1, 2):
        gs.append(Group('DTCWTForward[J=%d,symbolic skip/include masks]' % J, MD.g_dtcwt_forward, (J, 2, -1, 'symbolic'), level='bounded-in-J',
                        functions=[(T2, 'DTCWTForward.__init__'), (T2, 'DTCWTForward.forward')],
                        replay=rp('dtcwt_forward', skip_hps=[False, True, False][:J], include_scale=[True, False, True][:J])))
    if dense:
        # J = 3: the two masks one at a time (both at once is 64 mask values x 64 size cases: more paths than the explorer allows)
        for mk in ('symbolic-skip', 'symbolic-include'):
            gs.append(Group('DTCWTForward[J=3,%s mask]' % mk, MD.g_dtcwt_forward, (3, 2, -1, mk), level='bounded-in-J',
                            functions=[(T2, 'DTCWTForward.forward')], replay=rp('dtcwt_forward', skip_hps=[False, True, False], include_scale=[True, False, True])))
    gs.append(Group('DTCWTForward[J=3]', MD.g_dtcwt_forward, (3, 2, -1, 'default'), level='bounded-in-J'))
    # prefix consistency for EVERY J: with the level-loop invariant the j-th level application and what is stored at index j do not
    # depend on J (J only bounds the loop), for each uniform skip / include setting
    for (sk, inc) in ((False, False), (True, False), (False, True), (True, True)):
        gs.append(Group('DTCWTForward[J symbolic,skip=%s,include=%s]' % (sk, inc), MD.g_dtcwt_forward_symJ, (2, -1, sk, inc),
                        functions=[('dtcwt.transform2d', 'DTCWTForward.forward')], replay=rp('dtcwt_forward')))
    gs.append(Group('canary:module-lowpass-of-wrong-level', MD.g_dtcwt_forward, (2, 2, -1, 'default', True, 'symmetric', True), canary=True))
    jobs = []
    for (o, r) in [(0, 1), (4, 2), (-1, 3), (5, 0), (3, -2), (1, 5)]:
        jobs.append({'fn': 'dtcwt_forward', 'cfg': {'o_dim': o, 'ri_dim': r}, 'grid': {'J': [2], 'H': [9, 14], 'W': [12]}})
        jobs.append({'fn': 'dtcwt_inverse', 'cfg': {'o_dim': o, 'ri_dim': r}, 'grid': {'J': [2, 3], 'H': [9, 14], 'W': [12]}})
        jobs.append({'fn': 'dtcwt_pr', 'cfg': {'o_dim': o, 'ri_dim': r}, 'grid': {'J': [3], 'H': [10], 'W': [13]}})
    for sk, inc in (([False, True, False], [True, False, True]), ([True, True, False], [False, False, True]), ([False, False, True], [True, True, False])):
        jobs.append({'fn': 'dtcwt_forward', 'cfg': {'skip_hps': sk, 'include_scale': inc}, 'grid': {'J': [3], 'H': [10, 17], 'W': [13]}})
    return {
        'groups': gs,
        'native': [('bounded.py', [write_jobs('C12', jobs), seed], 'bounded: real modules for several layouts and masks vs the reference (values, movedim, inverse accepts the layout)')],
        'level': 'other', 'trusted_base': TRUSTED,
        'assumptions': ASSUMPTIONS + DT_ASSUME + [
            'layout postcondition: the band-pass tensor is the default-layout tensor (N,C,6,H,W,2) with only the orientation and real/imaginary axes moved '
            '(permute by the permutation determined by (o_dim mod 6, ri_dim mod 6)); the inverse un-permutes with the same pair',
            'prefix consistency and mask independence are read off the module obligations: the value prescribed for level j (band-pass, lowpass) is the mask-free '
            'reference level applied to the previous lowpass and mentions neither J nor any mask'],
        'explanation': 'get_dimensions5/6 for ALL integers (VCs from the AST, z3); layout contracts of the four Functions for the enumerated pairs (7 quick / all 30 + negative '
                       'aliases thorough); module-level obligations with symbolic skip/include masks (module level unrolled in J)',
    }
