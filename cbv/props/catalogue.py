"""Callee catalogue: for every contract a plan may apply to a callee, the group(s) that verify the callee's real body against that very
contract.  cbv.check closes every plan under this map (modularity: a change inside a callee is noticed by a property's check only if
the callee's own obligations are part of that check), so that no property relies on a contract it does not also discharge."""
from .dt_common import *


def _mode_tables(tier):
    return [Group('mode-tables', G.g_mode_tables, functions=[(LL, 'mode_to_int'), (LL, 'int_to_mode')])]


def _helpers(prefix):
    return lambda tier: [g for g in helper_groups(tier) if g.gid.startswith(prefix)]


def _prep(w, nfs):
    def f(tier):
        out = []
        for nf in nfs:
            out.append(Group('%s[%d]' % (w, nf), G.g_prep, (w, nf), functions=[(LL, w)]))
            out.append(Group('%s[%d,(L,1) column arrays]' % (w, nf), G.g_prep, (w, nf, 'col'), functions=[(LL, w)]))
        return out
    return f


def _dt_filters(names):
    return lambda tier: [g for g in (fwd_lowlevel(tier) + inv_lowlevel(tier)) if g.gid.split('[')[0] in names]


def _level(l1, fwd, rot=False):
    def f(tier):
        fn = ('fwd_' if fwd else 'inv_') + ('j1' if l1 else 'j2plus') + ('_rot' if rot else '')
        if fwd:
            return [Group('%s[skip_hps=%s]' % (fn, sk), D.g_fwd_level, (l1, rot, sk, 2), functions=[(TFk, fn)]) for sk in (False, True)]
        return [Group('%s%s' % (fn, '[%s]' % ab if ab else ''), D.g_inv_level, (l1, rot, ab, 2), functions=[(TFk, fn)])
                for ab in ((None, 'high-none', 'low-none') if not rot else (None,))]
    return f


def _once(gs):
    seen, out = set(), []
    for g in gs:
        if g.gid not in seen:
            seen.add(g.gid)
            out.append(g)
    return out


CALLEE_GROUPS = {
    'dwt.lowlevel:mode_to_int': _mode_tables, 'dwt.lowlevel:int_to_mode': _mode_tables,
    'dwt.lowlevel:roll': _helpers('roll'), 'dwt.lowlevel:mypad': _helpers('mypad'),
    'utils:reflect': _helpers('reflect'), 'utils:symm_pad_1d': _helpers('symm_pad'),
    'dwt.lowlevel:afb1d': lambda tier: afb1d_groups() + f1_groups(),
    'dwt.lowlevel:sfb1d': lambda tier: sfb1d_groups() + f1_groups_sfb(),
    'dwt.lowlevel:prep_filt_afb1d': _prep('prep_filt_afb1d', (2,)), 'dwt.lowlevel:prep_filt_sfb1d': _prep('prep_filt_sfb1d', (2,)),
    'dwt.lowlevel:prep_filt_afb2d': _prep('prep_filt_afb2d', (2, 4)), 'dwt.lowlevel:prep_filt_sfb2d': _prep('prep_filt_sfb2d', (2, 4)),
    'dwt.lowlevel:prep_filt_afb2d_nonsep': lambda tier: [Group('prep_filt_afb2d_nonsep[4]', G.g_prep_nonsep, ('prep_filt_afb2d_nonsep', 4), functions=[(LL, 'prep_filt_afb2d_nonsep')])],
    'dwt.lowlevel:prep_filt_sfb2d_nonsep': lambda tier: [Group('prep_filt_sfb2d_nonsep[4]', G.g_prep_nonsep, ('prep_filt_sfb2d_nonsep', 4), functions=[(LL, 'prep_filt_sfb2d_nonsep')])],
    'dwt.lowlevel:afb2d_atrous': lambda tier: [Group('afb2d_atrous[dilation=%d]' % d, G.g_atrous2d, (d,), functions=[(LL, 'afb2d_atrous')]) for d in (1, 2)],
    'dtcwt.lowlevel:prep_filt': lambda tier: [g for g in lowlevel_groups(tier) if g.gid.startswith('prep_filt')],
    'dtcwt.coeffs:biort': lambda tier: [Group('loaders', T.g_loaders, functions=[('dtcwt.coeffs', '_load_from_file'), ('dtcwt.coeffs', 'biort'), ('dtcwt.coeffs', 'qshift')])],
    'dtcwt.coeffs:qshift': lambda tier: [Group('loaders', T.g_loaders, functions=[('dtcwt.coeffs', '_load_from_file'), ('dtcwt.coeffs', 'biort'), ('dtcwt.coeffs', 'qshift')])],
    'dtcwt.lowlevel:colfilter': _dt_filters(('colfilter',)), 'dtcwt.lowlevel:rowfilter': _dt_filters(('rowfilter',)),
    'dtcwt.lowlevel:coldfilt': _dt_filters(('coldfilt',)), 'dtcwt.lowlevel:rowdfilt': _dt_filters(('rowdfilt',)),
    'dtcwt.lowlevel:colifilt': _dt_filters(('colifilt',)), 'dtcwt.lowlevel:rowifilt': _dt_filters(('rowifilt',)),
    'dtcwt.lowlevel:q2c': _dt_filters(('q2c',)), 'dtcwt.lowlevel:c2q': _dt_filters(('c2q',)),
    'dtcwt.transform_funcs:fwd_j1': _level(True, True), 'dtcwt.transform_funcs:fwd_j2plus': _level(False, True),
    'dtcwt.transform_funcs:inv_j1': _level(True, False), 'dtcwt.transform_funcs:inv_j2plus': _level(False, False),
    'dtcwt.transform_funcs:fwd_j1_rot': _level(True, True, True), 'dtcwt.transform_funcs:fwd_j2plus_rot': _level(False, True, True),
    'dtcwt.transform_funcs:inv_j1_rot': _level(True, False, True), 'dtcwt.transform_funcs:inv_j2plus_rot': _level(False, False, True),
}


def closure_groups(missing, tier, have):
    """groups to add for the callee contracts in `missing` (ids already in the plan are skipped)"""
    out = []
    for k in missing:
        f = CALLEE_GROUPS.get(k)
        if f:
            out += f(tier)
    return [g for g in _once(out) if g.gid not in have]
