"""C07, the stationary WT and DTCWT halves: every function is proved equal to a spec that is written per (n, c) slice with
data-independent coefficients, for symbolic batch size and channel count - equality with such a spec IS linearity plus
slice independence ("the same operator for all n and c").  Groups shared with C03 / C11 / C13."""
from .dt_common import *


def groups(tier):
    gs = []
    seen = set()
    for g in fwd_lowlevel(tier) + inv_lowlevel(tier):
        if g.gid not in seen:
            seen.add(g.gid)
            gs.append(g)
    for l1 in (True, False):
        fw = 'fwd_j1' if l1 else 'fwd_j2plus'
        iv = 'inv_j1' if l1 else 'inv_j2plus'
        for skip in (False, True):
            gs.append(Group('%s[skip_hps=%s]' % (fw, skip), D.g_fwd_level, (l1, False, skip, 2), functions=[(TFk, fw)], replay=rp('dtcwt_slices')))
        gs.append(Group(iv, D.g_inv_level, (l1, False, None, 2), functions=[(TFk, iv)], replay=rp('dtcwt_slices')))
        for ab in ('high-none', 'low-none'):
            gs.append(Group('%s[%s]' % (iv, ab), D.g_inv_level, (l1, False, ab, 2), functions=[(TFk, iv)],
                            replay=rp('dtcwt_slices')))
    for cls in ('FWD_J1', 'FWD_J2PLUS', 'INV_J1', 'INV_J2PLUS'):
        gs.append(Group('%s.forward' % cls, D.g_function_forward, (cls, 2, -1), functions=[(TFk, cls + '.forward')]))
    gs.append(Group('DTCWTForward[J=2]', MD.g_dtcwt_forward, (2, 2, -1, 'default', True), level='bounded-in-J',
                    functions=[(T2, 'DTCWTForward.forward')], replay=rp('dtcwt_slices')))
    gs.append(Group('DTCWTInverse[J=2]', MD.g_dtcwt_inverse, (2, 2, -1, 'none'), level='bounded-in-J',
                    functions=[(T2, 'DTCWTInverse.forward')], replay=rp('dtcwt_slices')))
    gs.append(Group('DTCWTInverse[J=2,lowpass=none]', MD.g_dtcwt_inverse, (2, 2, -1, 'none', True, 'symmetric', 'none'), level='bounded-in-J',
                    functions=[(T2, 'DTCWTInverse.forward')], replay=rp('dtcwt_slices')))
    # symbolic number of levels: the level-loop invariants of C03 / C11 (INIT / STEP / EXIT).  Each step is ONE application of a
    # level Function whose own contract (above) is the per-slice linear spec, so the composition over any J is linear and slice-wise;
    # the J=2 groups above stay for the omitted-lowpass form and as the unrolled cross-check
    for sk in (False, True):
        gs.append(Group('DTCWTForward[J symbolic,skip=%s]' % sk, MD.g_dtcwt_forward_symJ, (2, -1, sk, False),
                        functions=[(T2, 'DTCWTForward.forward')], replay=rp('dtcwt_slices')))
    gs.append(Group('DTCWTInverse[J symbolic]', MD.g_dtcwt_inverse_symJ, (2, -1), functions=[(T2, 'DTCWTInverse.forward')],
                    replay=rp('dtcwt_slices')))
    # stationary WT
    for d in (2, 3):
        for dl in (1, 2):
            gs.append(Group('afb1d_atrous[dim=%d,dilation=%d]' % (d, dl), G.g_atrous1d, (d, dl), functions=[(LL, 'afb1d_atrous')], replay=rp('swt_forward')))
    gs.append(Group('afb2d_atrous[dilation=2]', G.g_atrous2d, (2,), functions=[(LL, 'afb2d_atrous')], replay=rp('swt_forward', minJ=2)))
    gs.append(Group('SWTForward[J<=2]', G.g_swt_module, (2, None, 'wavelet'), level='bounded-in-J',
                    functions=[('dwt.transform2d', 'SWTForward.forward')], replay=rp('swt_forward')))
    return gs
