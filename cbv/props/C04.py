"""C04 - DTCWT perfect reconstruction with symmetric extension."""
from .dt_common import *
BI = ['antonini', 'legall', 'near_sym_a', 'near_sym_b']
QS = ['qshift_06', 'qshift_a', 'qshift_b', 'qshift_c', 'qshift_d']


def plan(tier, seed):
    dense = tier != 'quick'
    gs = []
    # (1) the library computes the reference forward and the reference inverse (as C03 / C11)
    gs += fwd_lowlevel(tier) + [g for g in inv_lowlevel(tier) if 'ifilt' in g.gid or g.gid == 'c2q']
    for l1 in (True, False):
        gs.append(Group('%s' % ('fwd_j1' if l1 else 'fwd_j2plus'), D.g_fwd_level, (l1, False, False, 2), functions=[(TFk, 'fwd_j1' if l1 else 'fwd_j2plus')]))
        gs.append(Group('%s' % ('inv_j1' if l1 else 'inv_j2plus'), D.g_inv_level, (l1, False, None, 2), functions=[(TFk, 'inv_j1' if l1 else 'inv_j2plus')]))
    gs.append(Group('inv_j1[crop]', D.g_inv_level, (True, False, None, 2, 'symmetric', True), functions=[(TFk, 'inv_j1')]))
    for cls in ('FWD_J1', 'FWD_J2PLUS', 'INV_J1', 'INV_J2PLUS'):
        gs.append(Group('%s.forward' % cls, D.g_function_forward, (cls, 2, -1), functions=[(TFk, cls + '.forward')]))
    for J in (1, 2, 3):
        gs.append(Group('DTCWTForward[J=%d]' % J, MD.g_dtcwt_forward, (J, 2, -1, 'default'), level='bounded-in-J', replay=rp('dtcwt_pr')))
        gs.append(Group('DTCWTInverse[J=%d]' % J, MD.g_dtcwt_inverse, (J, 2, -1, 'none'), level='bounded-in-J', replay=rp('dtcwt_pr')))
    gs.append(Group('DTCWTForward[J symbolic]', MD.g_dtcwt_forward_symJ, (2, -1, False, False), functions=[(T2, 'DTCWTForward.forward')], replay=rp('dtcwt_pr')))
    gs.append(Group('DTCWTInverse[J symbolic]', MD.g_dtcwt_inverse_symJ, (2, -1), functions=[(T2, 'DTCWTInverse.forward')], replay=rp('dtcwt_pr')))
    # (2) perfect reconstruction of the reference recursion
    gs.append(Group('LEMMA:c2q(q2c(y))==y', D.g_q2c_roundtrip))
    gs.append(Group('LEMMA:crop-undoes-extension,odd-size-replication', D.g_ext_crop_roundtrip))
    gs.append(Group('LEMMA:level1-closed-form', D.g_level1_closed_form))
    for n in BI + ['near_sym_b_bp']:
        gs.append(Group('TABLE:identities[%s]' % n, T.g_tables_identities, ([n],)))
    for n in QS + ['qshift_b_bp']:
        gs.append(Group('TABLE:identities[%s]' % n, T.g_tables_identities, ([n],)))
    # 1-D q-shift PR with the exact taps and symbolic size, piecewise (interior by residue, boundary rows one by one + a covering
    # obligation): the cost of the single query grows much faster than the filter length and depends on term order (30 s .. 300 s for
    # 10 taps, hours for 18), the pieces take seconds each and run in parallel.  qshift_06 in both tiers, all five tables thorough.
    if True:
        for n in (QS if dense else ['qshift_06']):
            for kind, k in D.qshift_pr_pieces(n):
                gs.append(Group('LEMMA:qshift-PR-1d[%s]/%s=%d' % (n, kind, k), D.g_qshift_pr_piece, (n, kind, k)))
        gs.append(Group('canary:qshift-PR-piece-perturbed', D.g_qshift_pr_piece, ('qshift_a', 'interior', 3), {'canary': True}, canary=True))
    gs.append(Group('canary:level1-closed-form-shifted', D.g_level1_closed_form, (True,), canary=True))
    gs.append(Group('canary:perturbed-table', T.g_tables_identities, (['qshift_a'],), {'perturb': 1e-6}, canary=True))
    pairs = [(b, q) for b in BI for q in QS]
    jobs = [{'fn': 'ref_pr', 'cfg': {'biort': b, 'qshift': q}, 'grid': {'J': [1, 3, 5] if dense else [1, 3], 'H': [2, 7, 18, 40], 'W': [5, 24]}} for b, q in pairs]
    jobs += [{'fn': 'dtcwt_pr', 'cfg': {'biort': b, 'qshift': q}, 'grid': {'J': [1, 2, 4], 'H': [2, 7, 18, 34] + ([45] if dense else []), 'W': [5, 24]}}
             for b, q in (pairs if dense else pairs[::3])]
    return {
        'groups': gs,
        'lean_lemmas': ['pr_2d', 'pr_2d_bands', 'pr_levels'],
        'native': [('oracle_dtcwt.py', [seed], 'oracle: dual-tree column-operation specs vs dtcwt.numpy.lowlevel'),
                   ('bounded.py', [write_jobs('C04', jobs), seed], 'bounded: PR of the reference algorithm for all 20 filter pairs (sizes 2..40, J up to 3/5) and of the real modules')],
        'level': 'other', 'trusted_base': TRUSTED + ['reference dtcwt 0.14 (oracle)'],
        'assumptions': ASSUMPTIONS + DT_ASSUME + [
            'level 1, one axis: closed form (symbolic, symmetric odd filters) + TABLE identity conv(h0,g0)+conv(h1,g1)=delta => PR; images at least as long as the filters (single reflection)',
            'q-shift levels, one axis: PR lemma with the concrete exact taps of the shipped table and symbolic image length (>= filter length), tolerance 1e-9 (qshift_06 in the quick tier, all 5 tables thorough)',
            'derivation steps not discharged by the solver: 2-D PR from the two 1-D identities (row and column operations act on different axes and commute; linearity), '
            'and the multi-level induction (crop/extension lemmas); images shorter than the filters and the remaining tables in the quick tier are covered by the bounded tier'],
        'explanation': 'library == reference forward/inverse (deductive, as C03/C11) + PR lemmas for the reference recursion (z3: q2c/c2q round trip, extension/crop, level-1 closed form, '
                       'q-shift 1-D PR with concrete taps and symbolic size) + exact-arithmetic table identities; bounded PR runs of the reference and of the real modules for all 20 pairs',
    }
