"""C18 - shipped DTCWT filter tables satisfy the identities the code relies on."""
from .common import *
from .. import groups_tables as T
CO = 'dtcwt.coeffs'
F10 = ('farras', 'near_sym_a2')


def plan(tier, seed):
    gs = []
    for n, loader in T.accepted():
        fid = 'F10' if n in F10 else None
        gs.append(Group('TABLE:equals-reference[%s]' % n, T.g_tables_reference, ([n],), finding=fid,
                        replay=rp('dtcwt_table', name=n, loader=loader)))
        gs.append(Group('TABLE:identities[%s]' % n, T.g_tables_identities, ([n],), finding=fid,
                        replay=rp('dtcwt_table', name=n, loader=loader)))
    gs.append(Group('loaders', T.g_loaders, functions=[(CO, '_load_from_file'), (CO, 'level1'), (CO, 'biort'), (CO, 'qshift')]))
    gs.append(Group('canary:perturbed-table', T.g_tables_identities, (['qshift_a'],), {'perturb': 1e-6}, canary=True))
    jobs = [{'fn': 'dtcwt_table', 'cfg': {'name': n, 'loader': l}, 'grid': {'x': [0]}} for n, l in T.accepted()]
    return {
        'groups': gs,
        'native': [('bounded.py', [write_jobs('C18', jobs), seed], 'bounded: the real loaders against the reference package loaders, table by table')],
        'level': 'proof', 'trusted_base': ['numpy .npz reader', 'python Fraction arithmetic', 'cbv AST interpreter (loaders)'],
        'assumptions': [
            'domain = every .npz under pytorch_wavelets/dtcwt/data whose keys make level1/biort or qshift accept its name (enumerated from the working tree on every run; exhaustive)',
            'reference = the arrays shipped by the installed dtcwt 0.14 package (byte equality of dtype, shape and content)',
            'tolerances: symmetry and reversal identities 1e-12 (antonini is symmetric to 4.7e-15 only), PR 1e-10, double-shift orthonormality 1e-8 (qshift_32 is orthonormal to 1.5e-9 only); '
            'the band-pass filters h2* are required to be unit-norm and to satisfy the reversal identities (they are not part of the orthonormal pair)',
            'loader obligations are discharged by concrete evaluation of the real _load_from_file/level1/biort/qshift bodies in the AST interpreter (file access replaced by tokens): '
            'miss -> one cache insertion with the file content; hit -> same objects, no write; missing key -> ValueError'],
        'explanation': 'TABLE obligations: exhaustive exact-rational arithmetic over every shipped table + contract check of the loaders by interpretation of their real source',
    }
