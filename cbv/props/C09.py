"""C09 - scattering layers back-propagate the true gradient, finite everywhere."""
from .dt_common import *
from .. import groups_scat as S
SLk = 'scatternet.lowlevel'


def plan(tier, seed):
    dense = tier != 'quick'
    gs = [Group('LEMMA:d(smooth magnitude)', S.g_mag_derivative, (False,)), Group('LEMMA:d(smooth magnitude, colour)', S.g_mag_derivative, (True,)),
          Group('LEMMA:avg_pool^T', S.g_avgpool_adjoint)]
    for nd in ((True, True), (True, False), (False, True)):
        gs.append(Group('SmoothMagFn[needs=%s]' % ''.join('T' if q else 'F' for q in nd), S.g_smoothmag, (nd,),
                        functions=[(SLk, 'SmoothMagFn.forward'), (SLk, 'SmoothMagFn.backward')], replay=rp('scat_grad', order=0, needs=list(nd))))
    for rot in (False, True):
        nm = 'ScatLayerj1_rot_f' if rot else 'ScatLayerj1_f'
        for col in (False, True):
            gs.append(Group('%s[colour=%s]' % (nm, col), S.g_scat_j1, (rot, col, True), functions=[(SLk, nm + '.forward'), (SLk, nm + '.backward')],
                            replay=(rp('scat_grad', order=1, colour=col, biort='near_sym_b_bp') if rot else rp('scat_grad_ref', colour=col))))
        nm2 = 'ScatLayerj2_rot_f' if rot else 'ScatLayerj2_f'
        gs.append(Group('%s.backward' % nm2, S.g_scat_j2_backward, (rot,), functions=[(SLk, nm2 + '.forward'), (SLk, nm2 + '.backward')],
                        replay=rp('scat_grad', order=2, biort='near_sym_b_bp' if rot else 'near_sym_a')))
        gs.append(Group('%s[combine_colour]' % nm2, S.g_scat_j2_colour, (rot,), functions=[(SLk, nm2 + '.forward'), (SLk, nm2 + '.backward')],
                        replay=rp('scat_grad', order=2, colour=True, biort='near_sym_b_bp' if rot else 'near_sym_a')))
    # inverse stages with the analysis filters are the transposes of the forward stages (C06 obligations)
    for cls in ('FWD_J1', 'FWD_J2PLUS'):
        gs.append(Group('%s.backward[o=1-style layout]' % cls, D.g_function_adjoint, (cls, 1, 5), functions=[(TFk, cls + '.backward')]))
    gs.append(Group('LEMMA:colfilter-self-adjoint', D.g_adjoint_1d, ('f',)))
    for hp in (False, True):
        gs.append(Group('LEMMA:coldfilt^T==colifilt[%s]' % hp, D.g_adjoint_1d, ('d', hp)))
    gs.append(Group('canary:j1-wrong-cotangent', S.g_scat_j2_backward, (False, True), canary=True))
    jobs = [{'fn': 'scat_grad', 'cfg': {'order': 0, 'needs': nd}, 'grid': {'x': [0]}} for nd in ([True, True], [True, False], [False, True])]
    for o in (1, 2):
        for b in ('near_sym_a', 'near_sym_b_bp'):
            for col in (False, True):
                jobs.append({'fn': 'scat_grad', 'cfg': {'order': o, 'biort': b, 'colour': col}, 'grid': {'x': [0, 1] if dense else [0]}})
                jobs.append({'fn': 'scat_grad', 'cfg': {'order': o, 'biort': b, 'colour': col, 'zero_image': True}, 'grid': {'x': [0]}})
    for b in ('near_sym_a', 'near_sym_b'):
        for col in (False, True):
            jobs.append({'fn': 'scat_grad_ref', 'cfg': {'biort': b, 'colour': col}, 'grid': {'x': [0, 1] if dense else [0]}})
    return {
        'groups': gs,
        'native': [('bounded.py', [write_jobs('C09', jobs), seed], 'bounded: back-propagated gradient vs central finite differences (float64), finiteness at the all-zero image, all layer configurations; first-order layers vs autograd of an independent composition over bias / image-scale regimes down to 1e-9')],
        'level': 'other', 'trusted_base': TRUSTED,
        'assumptions': ASSUMPTIONS + [
            'A-autograd; decomposition of the gradient obligation: (i) every argument the real backward hands to an inverse DTCWT stage equals the true cotangent of the corresponding forward '
            'stage output - chain rule written from calculus, with the elementwise derivative d/d re (sqrt(re^2+im^2+b^2)-b) = re/r proved by forward-mode tangents (sqrt axioms), avg_pool^T = 1/4 upsample '
            'proved in kernel mode, and views / slices checked as index maps; (ii) the inverse stage is called with the ANALYSIS filters (tree a/b swapped at level 2), which is the transpose of the '
            'forward stage by the C06 obligations (filter identities: TABLE obligations of C18)',
            'finite gradient for b > 0: every factor is re/r or im/r with r >= b > 0, |re/r| <= 1 (lemma); no other division occurs',
            ],
        'explanation': 'real forward + real backward of SmoothMagFn, ScatLayerj1_f(_rot) and ScatLayerj2_f(_rot) (both colour settings) executed on z3 Real terms; cotangent obligations per inverse stage; '
                       'lemmas for the elementwise derivative and the pooling transpose; finite differences on the real layers underneath',
    }
