"""C05 - DWT back-propagation is the exact adjoint, for every grad subset."""
from .common import *

F2_WHAT = ('AFB*/SFB*.backward is not the transpose of the forward at the boundary in symmetric / reflect / periodic '
           'modes, nor AFB*.backward in periodization with an odd extent (padding / duplication is not folded back); '
           'pinned by tests/test_dwt.py::test_gradients_fwd[db3-1-symmetric] and [db3-2-reflect]')


def plan(tier, seed):
    gs = []
    for cls in ('AFB1D', 'SFB1D', 'AFB2D', 'SFB2D'):
        ana = cls.startswith('AFB')
        allneeds = [(True,)] if ana else [(True, True), (True, False), (False, True)]
        fns = [(LL, cls + '.forward'), (LL, cls + '.backward')]
        for m in MODES:
            for nd in allneeds:
                tag = ''.join('T' if b else 'F' for b in nd)
                cfg = dict(cls=cls, mode=m, needs=list(nd))
                if m == 'zero':
                    gs.append(Group('%s.backward[zero,needs=%s]' % (cls, tag), G.g_adjoint, (cls, m, nd), functions=fns,
                                    replay=rp('dwt_grad', **cfg)))
                elif m == 'periodization':
                    gs.append(Group('%s.backward[periodization,needs=%s,even]' % (cls, tag), G.g_adjoint, (cls, m, nd, 'even'),
                                    functions=fns, replay=rp('dwt_grad', **cfg)))
                    gs.append(Group('%s.backward[periodization,needs=%s,odd]' % (cls, tag), G.g_adjoint, (cls, m, nd, 'odd'),
                                    functions=fns, replay=rp('dwt_grad', **cfg), finding='F2' if ana else None))
                else:
                    gs.append(Group('%s.backward[%s,needs=%s,interior]' % (cls, m, tag), G.g_adjoint, (cls, m, nd, 'interior'),
                                    functions=fns, replay=rp('dwt_grad', **cfg)))
                    gs.append(Group('%s.backward[%s,needs=%s,boundary]' % (cls, m, tag), G.g_adjoint, (cls, m, nd),
                                    functions=fns, replay=rp('dwt_grad', **cfg), finding='F2'))
    # the kernels used above are those of the real forward bodies; they are tied to the contracts by:
    for m in MODES:
        gs.append(Group('AFB1D.forward[%s]' % m, G.g_AFB1D_fwd, (m,), functions=[(LL, 'AFB1D.forward')]))
        gs.append(Group('SFB1D.forward[%s]' % m, G.g_SFB1D_fwd, (m,), functions=[(LL, 'SFB1D.forward')]))
    gs.append(Group('canary:adjoint-of-shifted-forward', G.g_adjoint, ('AFB1D', 'zero', (True,)), {'canary': True}, canary=True))
    jobs = []
    for cls in ('AFB1D', 'SFB1D', 'AFB2D', 'SFB2D'):
        for m in MODES:
            for nd in ([[True]] if cls.startswith('AFB') else [[True, True], [False, True], [True, False]]):
                grid = {'N': [2, 4, 7, 10], 'L2': [1, 2, 3]} if cls.endswith('1D') else {'H': [2, 5, 6], 'W': [3, 4], 'L2': [1, 2], 'Lr2': [1, 3]}
                jobs.append({'fn': 'dwt_grad', 'cfg': {'cls': cls, 'mode': m, 'needs': nd}, 'grid': grid})
    return {
        'groups': gs,
        'lean_lemmas': ['adjoint_of_comp', 'adjoint_of_add'],
        'native': [('bounded.py', [write_jobs('C05', jobs), seed], 'bounded: autograd through the real Functions vs J^T g assembled from the real forward')],
        'level': 'proof', 'trusted_base': TRUSTED,
        'assumptions': ASSUMPTIONS + [
            'A-autograd: torch calls Function.backward with the cotangents of the outputs, sets needs_input_grad from requires_grad, and chains '
            'VJPs of consecutive Functions and built-in ops correctly; hence multi-level gradients reduce to per-Function obligations',
            'periodization: outside the region of known finding F1'],
        'explanation': 'kernel transposition: K_bwd(M;P) == K_fwd(P;M) with both kernels extracted by symbolic execution of the real forward and '
                       'backward bodies (symbolic sizes, filter length, taps), per needs_input_grad subset; None-slot obligations; z3',
    }
