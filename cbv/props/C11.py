"""C11 - DTCWT synthesis equals the reference inverse on arbitrary pyramids."""
from .dt_common import *


def plan(tier, seed):
    dense = tier != 'quick'
    Jmax = 3 if not dense else 4
    gs = lowlevel_groups(tier) + inv_lowlevel(tier)
    for l1 in (True, False):
        fn = 'inv_j1' if l1 else 'inv_j2plus'
        for rot in (False, True):
            gs.append(Group('%s%s' % (fn, '_rot' if rot else ''), D.g_inv_level, (l1, rot, None, 2), functions=[(TFk, fn + ('_rot' if rot else ''))]))
        for ab in ('high-none', 'high-0dim', 'low-none', 'low-0dim'):
            gs.append(Group('%s[%s]' % (fn, ab), D.g_inv_level, (l1, False, ab, 2), functions=[(TFk, fn)]))
        for od in (0, 1, 3, 4):
            gs.append(Group('%s[o_dim=%d]' % (fn, od), D.g_inv_level, (l1, False, None, od), functions=[(TFk, fn), (TFk, 'orientations_to_highs')]))
    gs.append(Group('inv_j1[crop]', D.g_inv_level, (True, False, None, 2, 'symmetric', True), functions=[(TFk, 'inv_j1')]))
    for cls in ('INV_J1', 'INV_J2PLUS'):
        for (o, r) in ((2, -1), (1, 2), (5, 0)):
            gs.append(Group('%s.forward[o=%d,ri=%d]' % (cls, o, r), D.g_function_forward, (cls, o, r), functions=[(TFk, cls + '.forward')]))
        for ab in ('none', '0dim'):
            gs.append(Group('%s.forward[highs=%s]' % (cls, ab), D.g_function_forward, (cls, 2, -1, False, ab), functions=[(TFk, cls + '.forward')]))
        for wh in ('high', 'low'):
            for kd in ('none', '0dim'):
                gs.append(Group('LEMMA:%s[%s %s==zeros]' % (cls, wh, kd), D.g_inv_absent_lemma, (cls, wh, kd)))
    gs.append(Group('get_dimensions5', T.g_get_dimensions, ('get_dimensions5',), functions=[(TFk, 'get_dimensions5')]))
    gs.append(Group('get_dimensions6', T.g_get_dimensions, ('get_dimensions6',), functions=[(TFk, 'get_dimensions6')]))
    for J in range(1, Jmax + 1):
        gs.append(Group('DTCWTInverse[J=%d]' % J, MD.g_dtcwt_inverse, (J, 2, -1, 'none'), level='bounded-in-J',
                        functions=[(T2, 'DTCWTInverse.__init__'), (T2, 'DTCWTInverse.forward')], replay=rp('dtcwt_inverse')))
    gs.append(Group('DTCWTInverse[J=2,tuples]', MD.g_dtcwt_inverse, (2, 2, -1, 'none', False), level='bounded-in-J', replay=rp('dtcwt_inverse')))
    for la in ('none', '0dim', 'empty1d'):
        gs.append(Group('DTCWTInverse[J=2,lowpass=%s]' % la, MD.g_dtcwt_inverse, (2, 2, -1, 'none', True, 'symmetric', la), level='bounded-in-J',
                        replay=rp('dtcwt_inverse', absent={'low': {'none': 'none', '0dim': '0dim', 'empty1d': 'empty'}[la]})))
    for J in (2, 3):
        gs.append(Group('DTCWTInverse[J=%d,absent band-pass levels,no crop needed]' % J, MD.g_dtcwt_inverse,
                        (J, 2, -1, 'symbolic', True, 'symmetric', None, None, 'never'), level='bounded-in-J', replay=rp('dtcwt_inverse', absent={'level': 0, 'kind': 'none'})))
    gs.append(Group('DTCWTInverse[J=2,level=torch.tensor([]),no crop needed]', MD.g_dtcwt_inverse, (2, 2, -1, 'none', True, 'symmetric', None, 1, 'never'),
                    level='bounded-in-J'))
    gs.append(Group('DTCWTInverse[J=2,absent band-pass levels,region=crop-needed]', MD.g_dtcwt_inverse, (2, 2, -1, 'symbolic'), finding='F8',
                    level='bounded-in-J', replay=rp('dtcwt_inverse', absent={'level': 0, 'kind': 'none'})))
    # unbounded in the number of levels (all levels present): level-loop invariant with symbolic J
    for (o, r) in ((2, -1), (1, 2), (5, 0)):
        gs.append(Group('DTCWTInverse[J symbolic,o=%d,ri=%d]' % (o, r), MD.g_dtcwt_inverse_symJ, (o, r),
                        functions=[(T2, 'DTCWTInverse.__init__'), (T2, 'DTCWTInverse.forward')], replay=rp('dtcwt_inverse', o_dim=o, ri_dim=r)))
    gs.append(Group('canary:symbolic-J-step-with-exchanged-tree-filters', MD.g_dtcwt_inverse_symJ, (2, -1, 'symmetric', True), canary=True))
    gs += sign_table_groups()
    gs.append(Group('canary:wrong-interleave', D.g_dt_filter, ('colifilt', 'symmetric', False, True), canary=True))
    pairs = [('antonini', 'qshift_06'), ('legall', 'qshift_a'), ('near_sym_a', 'qshift_b'), ('near_sym_b', 'qshift_c'), ('near_sym_a', 'qshift_d')]
    jobs = [{'fn': 'dtcwt_inverse', 'cfg': {'biort': b, 'qshift': q}, 'grid': {'J': [1, 2, 3], 'H': [2, 5, 9, 14], 'W': [3, 12]}} for b, q in pairs]
    for ab in ({'low': 'none'}, {'low': 'empty'}, {'low': '0dim'}, {'level': 0, 'kind': 'none'}, {'level': 1, 'kind': 'empty'}, {'level': 1, 'kind': '0dim'}):
        jobs.append({'fn': 'dtcwt_inverse', 'cfg': {'absent': ab}, 'grid': {'J': [2, 3], 'H': [8, 10, 16], 'W': [16, 13]}})
    return {
        'groups': gs,
        'native': [('oracle_dtcwt.py', [seed], 'oracle: dual-tree column-operation specs vs dtcwt.numpy.lowlevel'),
                   ('bounded.py', [write_jobs('C11', jobs), seed], 'bounded: real DTCWTInverse on random pyramids vs the reference inverse; absent inputs vs zeros')],
        'level': 'other', 'trusted_base': TRUSTED + ['reference dtcwt 0.14 (oracle)'],
        'assumptions': ASSUMPTIONS + DT_ASSUME + [
            'pyramids have the shapes the forward transform produces: the lowpass handed to a level is twice the band-pass extent, or that plus 2 (lowpass extension to a multiple of 4)',
            'an absent input (None, 0-dim placeholder, torch.tensor([])) must equal zeros of the shape the forward transform gives that level'],
        'explanation': 'contract-based deductive proof of colifilt, rowifilt, c2q, orientations_to_highs, inv_j1(_rot), inv_j2plus(_rot), INV_J1/INV_J2PLUS.forward, '
                       'get_dimensions5/6, DTCWTInverse.__init__/forward against the reference inverse (crop rule, absent inputs), module level unrolled in J',
    }
