"""Contracts for the dual-tree half (dtcwt/lowlevel.py, dtcwt/transform_funcs.py).
Postconditions are the reference package's column operations (specs.dt_*),
expressed on the tensors the functions receive: prep_filt stores a filter
time-reversed, so tensor entry a is the reference's tap m-1-a."""
import z3
from .sym import *
from . import specs, prims
from .specbk import SymBk as bk
from .contracts_dwt import data_tensor, filt_tensor, np1d, _flat


def _is0dim(t):
    return isinstance(t, STensor) and t.ndim == 0


def _absent(t):
    return t is None or _is0dim(t)


def _zeros1111():
    return t_zeros((1, 1, 1, 1), dtype=prims.DT_DEFAULT, kind='torch')


def _ftap(h):
    """reference tap t of a prepared filter tensor (1,1,m,1)"""
    if not (isinstance(h, STensor) and h.ndim == 4):
        raise Unsupported('dual-tree filter must be a (1,1,m,1) tensor')
    m = h.shape[2]
    return (lambda t: h.at([0, 0, simp(I(m) - 1 - I(t)), 0])), m


def _axis(x, d):
    if d == 2:
        return (lambda n, c, r, j: x.at([n, c, j, r])), x.shape[3], x.shape[2]
    return (lambda n, c, r, j: x.at([n, c, r, j])), x.shape[2], x.shape[3]


def prep_filt_contract(it, h, c, transpose=False):
    """(c,1,m,1) tensor (or (c,1,1,m) when transpose) holding h time-reversed; default dtype; fresh"""
    if not (is_conc(c) and c == 1):
        raise Unsupported('prep_filt contract: c == 1')
    if isinstance(h, STensor) and h.ndim == 2:
        if not (is_conc(h.shape[1]) and h.shape[1] == 1):
            raise Unsupported('prep_filt contract: column vector expected')
        hs = h.snap()
        rd = lambda k: hs([k, 0])
        m = h.shape[0]
    else:
        h1 = _flat(h)
        hs = h1.snap()
        rd = lambda k: hs([k])
        m = h1.shape[0]
    ctx().require('prep_filt-pre:at least 2 taps', I(m) >= 2)
    ax = 3 if transpose else 2
    shape = (1, 1, 1, m) if transpose else (1, 1, m, 1)
    return STensor(shape, lambda idx: rd(simp(I(m) - 1 - I(idx[ax]))),
                   meta=dict(kind='torch', dtype=prims.DT_DEFAULT, contig=True, name=h.meta.get('name')))


def _filter_axis(kind, d):
    """contract of colfilter/rowfilter (kind='f'), coldfilt/rowdfilt ('d'), colifilt/rowifilt ('i') along axis d"""
    def contract(it, X, *a, **k):
        c = ctx()
        if kind == 'f':
            h = a[0]
            mode = a[1] if len(a) > 1 else k.get('mode', 'symmetric')
        else:
            ha, hb = a[0], a[1]
            highpass = a[2] if len(a) > 2 else k.get('highpass', False)
            mode = a[3] if len(a) > 3 else k.get('mode', 'symmetric')
        if X is None:
            raise Raised('AttributeError', "'NoneType' object has no attribute 'device'")
        if _is0dim(X):
            return _zeros1111()
        if X.ndim != 4:
            raise Raised('ValueError', 'not enough values to unpack')
        read, R, Nn = _axis(X, d)
        Bn, Cc = X.shape[0], X.shape[1]
        if kind == 'f':
            tap, m = _ftap(h)
            if mode != 'symmetric':
                mode = 'zero'
            No = specs.dt_colfilter_len(bk, Nn, m)
            f = lambda n_, c_, r: specs.dt_colfilter(bk, lambda j: read(n_, c_, r, j), Nn, tap, m, mode)
        else:
            tapa, m = _ftap(ha)
            tapb, mb = _ftap(hb)
            c.require('dual-tree-pre:tree filters have equal length', I(m) == I(mb))
            c.require('dual-tree-pre:even filter length', I(m) % 2 == 0)
            delta = 1 if highpass else 0
            if kind == 'd':
                if c.decide(I(Nn) % 4 != 0):
                    raise Raised('ValueError', 'No. of rows/cols in X must be a multiple of 4')
                if mode != 'symmetric':
                    raise Raised('NotImplementedError', '')
                No = simp(I(Nn) / 2)
                f = lambda n_, c_, r: specs.dt_coldfilt(bk, lambda j: read(n_, c_, r, j), Nn, tapa, tapb, m, delta)
            else:
                if c.decide(I(Nn) % 2 != 0):
                    raise Raised('ValueError', 'No. of rows/cols in X must be a multiple of 2')
                No = simp(2 * I(Nn))
                f = lambda n_, c_, r: specs.dt_colifilt(bk, lambda j: read(n_, c_, r, j), Nn, tapa, tapb, m, delta)

        def elem(idx):
            n_, c_, p_, q_ = idx
            i, r = (p_, q_) if d == 2 else (q_, p_)
            return lift(f(n_, c_, r)(i))
        shape = (Bn, Cc, No, X.shape[3]) if d == 2 else (Bn, Cc, X.shape[2], No)
        return fresh_like(shape, elem, X)
    return contract


def q2c_contract(it, y, dim=-1):
    """quads -> two complex subimages: ((a-d, b+c), (a+d, b-c)) / sqrt2, a=y[0::2,0::2], b=y[0::2,1::2], c=y[1::2,0::2], d=y[1::2,1::2]"""
    Bn, Cc, R, Cn = y.shape
    ys = y.snap()
    sh = (Bn, Cc, simp((I(R) + 1) / 2) if False else simp(I(R) / 2), simp(I(Cn) / 2))
    ctx().require('q2c-pre:even extents', z3.And(I(R) % 2 == 0, I(Cn) % 2 == 0))

    def mk(sa, ia, ja, sb, ib, jb):
        def elem(idx):
            n_, c_, i, j = idx
            u = ys([n_, c_, simp(2 * I(i) + ia), simp(2 * I(j) + ja)])
            v = ys([n_, c_, simp(2 * I(i) + ib), simp(2 * I(j) + jb)])
            return (u * sa + v * sb).half()
        return fresh_like(sh, elem, y)
    a_d = mk(1, 0, 0, -1, 1, 1)
    b_c = mk(1, 0, 1, 1, 1, 0)
    apd = mk(1, 0, 0, 1, 1, 1)
    bmc = mk(1, 0, 1, -1, 1, 0)
    return ((a_d, b_c), (apd, bmc))


def c2q_contract(it, w1, w2):
    """y[2i,2j] = (w1r+w2r)/sqrt2, y[2i,2j+1] = (w1i+w2i)/sqrt2, y[2i+1,2j] = (w1i-w2i)/sqrt2, y[2i+1,2j+1] = (w2r-w1r)/sqrt2"""
    w1r, w1i = w1
    w2r, w2i = w2
    Bn, Cc, R, Cn = w1r.shape
    for t in (w1i, w2r, w2i):
        for a_, b_ in zip(t.shape, w1r.shape):
            ctx().require('c2q-pre:same shapes', I(a_) == I(b_))
    s = [t.snap() for t in (w1r, w1i, w2r, w2i)]

    def elem(idx):
        n_, c_, p_, q_ = idx
        i, j = simp(I(p_) / 2), simp(I(q_) / 2)
        pr, qr = simp(I(p_) % 2), simp(I(q_) % 2)
        src = [n_, c_, i, j]
        out = ZERO
        for (a_, b_), val in (((0, 0), lambda: s[0](src) + s[2](src)), ((0, 1), lambda: s[1](src) + s[3](src)),
                              ((1, 0), lambda: s[1](src) - s[3](src)), ((1, 1), lambda: s[2](src) - s[0](src))):
            g = simp(z3.And(I(pr) == a_, I(qr) == b_))
            if g is False:
                continue
            out = out + lift(val()).half().guard(g)
        return out
    return fresh_like((Bn, Cc, simp(2 * I(R)), simp(2 * I(Cn))), elem, w1r)


CONTRACTS = {
    'dtcwt.lowlevel:prep_filt': prep_filt_contract,
    'dtcwt.lowlevel:colfilter': _filter_axis('f', 2),
    'dtcwt.lowlevel:rowfilter': _filter_axis('f', 3),
    'dtcwt.lowlevel:coldfilt': _filter_axis('d', 2),
    'dtcwt.lowlevel:rowdfilt': _filter_axis('d', 3),
    'dtcwt.lowlevel:colifilt': _filter_axis('i', 2),
    'dtcwt.lowlevel:rowifilt': _filter_axis('i', 3),
    'dtcwt.lowlevel:q2c': q2c_contract,
    'dtcwt.lowlevel:c2q': c2q_contract,
}


def dt_filter(name, m, **meta):
    """prepared dual-tree filter tensor (1,1,m,1) with symbolic taps name[a]"""
    return filt_tensor(name, (1, 1, m, 1), 2, **meta)


# ---------------------------------------------------------------------------
# one DTCWT level (dtcwt/transform_funcs.py).  The contracts follow the
# REFERENCE forward/inverse (dtcwt/numpy/transform2d.py): columns (vertical axis)
# first, then rows; orientation order 15,45,75,105,135,165 degrees with
#   (15,165) = q2c(vertical-highpass, horizontal-lowpass)   "lh"
#   (75,105) = q2c(vertical-lowpass, horizontal-highpass)   "hl"
#   (45,135) = q2c(highpass both / band-pass both)          "hh"
# ---------------------------------------------------------------------------
COLF, ROWF = CONTRACTS['dtcwt.lowlevel:colfilter'], CONTRACTS['dtcwt.lowlevel:rowfilter']
COLD, ROWD = CONTRACTS['dtcwt.lowlevel:coldfilt'], CONTRACTS['dtcwt.lowlevel:rowdfilt']
COLI, ROWI = CONTRACTS['dtcwt.lowlevel:colifilt'], CONTRACTS['dtcwt.lowlevel:rowifilt']
ORDER = ('lh0', 'hh0', 'hl0', 'hl1', 'hh1', 'lh1')      # orientation k -> (quad, which complex subimage)


def stack_orientations(it, lh, hl, hh, o_dim):
    (a15r, a15i), (a165r, a165i) = q2c_contract(it, lh)
    (a45r, a45i), (a135r, a135i) = q2c_contract(it, hh)
    (a75r, a75i), (a105r, a105i) = q2c_contract(it, hl)
    reals = t_stack([a15r, a45r, a75r, a105r, a135r, a165r], o_dim)
    imags = t_stack([a15i, a45i, a75i, a105i, a135i, a165i], o_dim)
    return reals, imags


def fwd_j1_contract(it, x, h0, h1, skip_hps, o_dim, mode, h2=None):
    if not is_conc(o_dim):
        raise Unsupported('symbolic o_dim')
    lo = COLF(it, x, h0, mode)
    ll = ROWF(it, lo, h0, mode)
    if it.P and skip_hps is True:
        z = t_zeros((), dtype=x.meta.get('dtype', prims.DT_IN), kind='torch')
        return ll, z, t_zeros((), dtype=x.meta.get('dtype', prims.DT_IN), kind='torch')
    if skip_hps is not False:
        raise Unsupported('symbolic skip flag')
    hi = COLF(it, x, h1, mode)
    lh = ROWF(it, hi, h0, mode)
    hl = ROWF(it, lo, h1, mode)
    if h2 is None:
        hh = ROWF(it, hi, h1, mode)
    else:
        hh = ROWF(it, COLF(it, x, h2, mode), h2, mode)
    highr, highi = stack_orientations(it, lh, hl, hh, o_dim)
    return ll, highr, highi


def fwd_j1_rot_contract(it, x, h0, h1, h2, skip_hps, o_dim, mode):
    return fwd_j1_contract(it, x, h0, h1, skip_hps, o_dim, mode, h2=h2)


def fwd_j2plus_contract(it, x, h0a, h1a, h0b, h1b, skip_hps, o_dim, mode, h2a=None, h2b=None):
    """reference level >= 2: Lo = coldfilt(X, h0b, h0a), Hi = coldfilt(X, h1b, h1a) (highpass pair), ..."""
    if not is_conc(o_dim):
        raise Unsupported('symbolic o_dim')
    lo = COLD(it, x, h0b, h0a, False, mode)
    ll = ROWD(it, lo, h0b, h0a, False, mode)
    if skip_hps is True:
        return ll, None, None
    if skip_hps is not False:
        raise Unsupported('symbolic skip flag')
    hi = COLD(it, x, h1b, h1a, True, mode)
    lh = ROWD(it, hi, h0b, h0a, False, mode)
    hl = ROWD(it, lo, h1b, h1a, True, mode)
    if h2a is None:
        hh = ROWD(it, hi, h1b, h1a, True, mode)
    else:
        hh = ROWD(it, COLD(it, x, h2b, h2a, True, mode), h2b, h2a, True, mode)
    highr, highi = stack_orientations(it, lh, hl, hh, o_dim)
    return ll, highr, highi


def fwd_j2plus_rot_contract(it, x, h0a, h1a, h0b, h1b, h2a, h2b, skip_hps, o_dim, mode):
    return fwd_j2plus_contract(it, x, h0a, h1a, h0b, h1b, skip_hps, o_dim, mode, h2a=h2a, h2b=h2b)


def split_orientations(it, reals, imags, o_dim):
    if reals.ndim != 5:
        raise Raised('RuntimeError', 'band-pass tensors must have 5 dimensions here')
    ctx().require('orientations-pre:6 orientations', I(reals.shape[o_dim]) == 6)
    pick = lambda t, k: tget(t, (slice(None),) * (o_dim % 5) + (k,))
    r = [pick(reals, k) for k in range(6)]
    i = [pick(imags, k) for k in range(6)]
    lh = c2q_contract(it, (r[0], i[0]), (r[5], i[5]))
    hl = c2q_contract(it, (r[2], i[2]), (r[3], i[3]))
    hh = c2q_contract(it, (r[1], i[1]), (r[4], i[4]))
    return lh, hl, hh


def _crop_to(ll, r1, c1):
    """reference: the lowpass is cropped by one sample on each side where it is not twice the band-pass size"""
    c = ctx()
    if c.decide(I(ll.shape[2]) != 2 * I(r1)):
        ll = tget(ll, (slice(None), slice(None), slice(1, -1)))
    if c.decide(I(ll.shape[3]) != 2 * I(c1)):
        ll = tget(ll, (slice(None), slice(None), slice(None), slice(1, -1)))
    return ll


def _add(a, b):
    return t_bin('+', a, b)


def inv_j1_contract(it, ll, highr, highi, g0, g1, o_dim, h_dim, w_dim, mode, g2=None):
    if _absent(highr):
        # only the lowpass contributes (the library filters with the default symmetric extension here)
        return ROWF(it, COLF(it, ll, g0), g0)
    lh, hl, hh = split_orientations(it, highr, highi, o_dim)
    if g2 is None:
        y2 = _add(COLF(it, hh, g1, mode), COLF(it, hl, g0, mode))
        y1 = COLF(it, lh, g1, mode)
        if not _absent(ll):
            ll = _crop_to(ll, highr.shape[h_dim], highr.shape[w_dim])
            y1 = _add(y1, COLF(it, ll, g0, mode))
        return _add(ROWF(it, y2, g1, mode), ROWF(it, y1, g0, mode))
    y1 = COLF(it, lh, g1, mode)
    if not _absent(ll):
        ll = _crop_to(ll, highr.shape[h_dim], highr.shape[w_dim])
        y1 = _add(y1, COLF(it, ll, g0, mode))
    y2 = COLF(it, hl, g0, mode)
    yb = COLF(it, hh, g2, mode)
    return _add(_add(ROWF(it, y2, g1, mode), ROWF(it, y1, g0, mode)), ROWF(it, yb, g2, mode))


def inv_j1_rot_contract(it, ll, highr, highi, g0, g1, g2, o_dim, h_dim, w_dim, mode):
    return inv_j1_contract(it, ll, highr, highi, g0, g1, o_dim, h_dim, w_dim, mode, g2=g2)


def inv_j2plus_contract(it, ll, highr, highi, g0a, g1a, g0b, g1b, o_dim, h_dim, w_dim, mode, g2a=None, g2b=None):
    if _absent(highr):
        return ROWI(it, COLI(it, ll, g0b, g0a, False, mode), g0b, g0a, False, mode)
    lh, hl, hh = split_orientations(it, highr, highi, o_dim)
    y1 = COLI(it, lh, g1b, g1a, True, mode)
    if not _absent(ll):
        y1 = _add(y1, COLI(it, ll, g0b, g0a, False, mode))
    if g2a is None:
        y2 = _add(COLI(it, hh, g1b, g1a, True, mode), COLI(it, hl, g0b, g0a, False, mode))
        return _add(ROWI(it, y2, g1b, g1a, True, mode), ROWI(it, y1, g0b, g0a, False, mode))
    y2 = COLI(it, hl, g0b, g0a, False, mode)
    yb = COLI(it, hh, g2b, g2a, True, mode)
    return _add(_add(ROWI(it, y2, g1b, g1a, True, mode), ROWI(it, y1, g0b, g0a, False, mode)),
                ROWI(it, yb, g2b, g2a, True, mode))


def inv_j2plus_rot_contract(it, ll, highr, highi, g0a, g1a, g0b, g1b, g2a, g2b, o_dim, h_dim, w_dim, mode):
    return inv_j2plus_contract(it, ll, highr, highi, g0a, g1a, g0b, g1b, o_dim, h_dim, w_dim, mode, g2a=g2a, g2b=g2b)


TF = 'dtcwt.transform_funcs'
CONTRACTS.update({
    TF + ':fwd_j1': fwd_j1_contract, TF + ':fwd_j1_rot': fwd_j1_rot_contract,
    TF + ':fwd_j2plus': fwd_j2plus_contract, TF + ':fwd_j2plus_rot': fwd_j2plus_rot_contract,
    TF + ':inv_j1': inv_j1_contract, TF + ':inv_j1_rot': inv_j1_rot_contract,
    TF + ':inv_j2plus': inv_j2plus_contract, TF + ':inv_j2plus_rot': inv_j2plus_rot_contract,
})


# ---------------------------------------------------------------------------
# autograd Functions: layout of the band-pass tensor
#   6-D tensor obtained from (N,C,H,W) by inserting the orientation axis at
#   o_dim mod 6 and the real/imaginary axis at ri_dim mod 6: only these two axes
#   move, the values are those of the default layout (N,C,6,H,W,2).
# ---------------------------------------------------------------------------
from .contracts_dwt import int_to_mode_contract


def layout_perm(o_dim, ri_dim):
    o6, r6 = o_dim % 6, ri_dim % 6
    if o6 == r6:
        raise Raised('ValueError', 'orientation and real/imaginary axes coincide')
    others = [d for d in range(6) if d not in (o6, r6)]
    src = {o6: 2, r6: 5}
    for pos, s_ in zip(others, (0, 1, 3, 4)):
        src[pos] = s_
    return [src[d] for d in range(6)]        # target axis d <- default axis src[d]


def to_layout(highr, highi, o_dim, ri_dim):
    """default-layout real/imag parts (N,C,6,H,W) -> 6-D tensor in the requested layout"""
    d = t_stack([highr, highi], 5)
    return t_permute(d, layout_perm(o_dim, ri_dim))


def from_layout(highs, o_dim, ri_dim):
    perm = layout_perm(o_dim, ri_dim)
    inv = [perm.index(k) for k in range(6)]
    d = t_permute(highs, inv)                 # back to (N,C,6,H,W,2)
    return tget(d, (Ellipsis, 0)), tget(d, (Ellipsis, 1))


def _zero0(x):
    return t_zeros((), dtype=x.meta.get('dtype', prims.DT_IN), kind='torch')


def FWD_J1_apply_contract(it, x, h0, h1, skip_hps, o_dim, ri_dim, mode):
    m = int_to_mode_contract(it, mode)
    ll, hr, hi = fwd_j1_contract(it, x, h0, h1, skip_hps, 2, m)
    if skip_hps:
        return ll, _zero0(ll)
    return ll, to_layout(hr, hi, o_dim, ri_dim)


def FWD_J2PLUS_apply_contract(it, x, h0a, h1a, h0b, h1b, skip_hps, o_dim, ri_dim, mode):
    ll, hr, hi = fwd_j2plus_contract(it, x, h0a, h1a, h0b, h1b, skip_hps, 2, 'symmetric')
    if skip_hps:
        return ll, _zero0(ll)
    return ll, to_layout(hr, hi, o_dim, ri_dim)


def _highs_in(highs, o_dim, ri_dim):
    if _absent(highs):
        return None, None
    if highs.ndim != 6:
        raise Raised('RuntimeError', 'band-pass input must have 6 dimensions')
    return from_layout(highs, o_dim, ri_dim)


def INV_J1_apply_contract(it, lows, highs, g0, g1, o_dim, ri_dim, mode):
    m = int_to_mode_contract(it, mode)
    hr, hi = _highs_in(highs, o_dim, ri_dim)
    return inv_j1_contract(it, lows, hr, hi, g0, g1, 2, 3, 4, m)


def INV_J2PLUS_apply_contract(it, lows, highs, g0a, g1a, g0b, g1b, o_dim, ri_dim, mode):
    hr, hi = _highs_in(highs, o_dim, ri_dim)
    return inv_j2plus_contract(it, lows, hr, hi, g0a, g1a, g0b, g1b, 2, 3, 4, 'symmetric')


CONTRACTS.update({
    TF + ':FWD_J1.apply': FWD_J1_apply_contract, TF + ':FWD_J2PLUS.apply': FWD_J2PLUS_apply_contract,
    TF + ':INV_J1.apply': INV_J1_apply_contract, TF + ':INV_J2PLUS.apply': INV_J2PLUS_apply_contract,
})


def sym_filter(name, m, **meta):
    """prepared level-1 filter tensor whose taps satisfy h[t] == h[m-1-t] (a TABLE fact of C18):
    both positions refer to the same symbolic tap"""
    mt = dict(kind='torch', dtype=prims.DT_IN, contig=True, name=name)
    mt.update(meta)

    def elem(idx):
        a = idx[2]
        return GS.atom(name, [simp(z3.If(2 * I(a) <= I(m) - 1, I(a), I(m) - 1 - I(a)))])
    t = STensor((1, 1, m, 1), elem, meta=mt)
    t.base.owner = 'arg:' + name
    return t


def rev_filter(name, m, **meta):
    """tree-b q-shift filter = time reverse of tree a (a TABLE fact of C18): entry a is tap m-1-a of `name`"""
    mt = dict(kind='torch', dtype=prims.DT_IN, contig=True, name=name + '(reversed)')
    mt.update(meta)
    t = STensor((1, 1, m, 1), lambda idx: GS.atom(name, [simp(I(m) - 1 - I(idx[2]))]), meta=mt)
    t.base.owner = 'arg:' + name + '_b'
    return t


# ---------------------------------------------------------------------------
# ABSTRACT 1-D operators (glue mode): a column/row operation is replaced by a
# generic linear operator along one axis whose kernel is an uninterpreted
# two-index array, named by (operation, filter names, flag, axis, extents).  Only
# what the 1-D lemmas establish is built in:
#   colfilter(., h) with symmetric odd h is self-adjoint        -> symmetric kernel
#   colifilt(., P, Q, hp) == coldfilt(., Q, P, hp)^T (Q=rev P)   -> same array, indices swapped
# Identities proved with these hold for every operator with those properties,
# independently of filter lengths and image sizes.
# ---------------------------------------------------------------------------
def _fname(h):
    n = h.meta.get('name')
    if not n:
        raise Unsupported('abstract operator: unnamed filter')
    return n.replace('(reversed)', '~')


def _abs_axis(kind, d):
    def contract(it, X, *a, **k):
        c = ctx()
        if kind == 'f':
            h = a[0]
            mode = a[1] if len(a) > 1 else k.get('mode', 'symmetric')
        else:
            ha, hb = a[0], a[1]
            highpass = a[2] if len(a) > 2 else k.get('highpass', False)
            mode = a[3] if len(a) > 3 else k.get('mode', 'symmetric')
        if X is None:
            raise Raised('AttributeError', "'NoneType' object has no attribute 'device'")
        if _is0dim(X):
            return _zeros1111()
        read, R, Nn = _axis(X, d)
        Bn, Cc = X.shape[0], X.shape[1]
        ax = 'v' if d == 2 else 'h'
        if kind == 'f':
            m = h.shape[2]
            c.require('abstract-colfilter-pre:odd filter length', I(m) % 2 == 1)
            No = Nn
            nm = 'K:F[%s,%s]%s' % (_fname(h), 'sym' if mode == 'symmetric' else 'zero', ax)
            idxf = lambda i, j: [simp(z3.If(I(i) <= I(j), I(i), I(j))), simp(z3.If(I(i) <= I(j), I(j), I(i)))]
        elif kind == 'd':
            if c.decide(I(Nn) % 4 != 0):
                raise Raised('ValueError', 'No. of rows/cols in X must be a multiple of 4')
            No = simp(I(Nn) / 2)
            nm = 'K:D[%s,%s,%s]%s' % (_fname(ha), _fname(hb), highpass, ax)
            idxf = lambda i, j: [i, j]
        else:
            if c.decide(I(Nn) % 2 != 0):
                raise Raised('ValueError', 'No. of rows/cols in X must be a multiple of 2')
            No = simp(2 * I(Nn))
            nm = 'K:D[%s,%s,%s]%s' % (_fname(hb), _fname(ha), highpass, ax)
            idxf = lambda i, j: [j, i]

        def elem(idx):
            n_, c_, p_, q_ = idx
            i, r = (p_, q_) if d == 2 else (q_, p_)
            j = fresh_int('s')
            return (GS.atom(nm, idxf(i, j)) * read(n_, c_, r, j)).bind(j, 0, Nn)
        shape = (Bn, Cc, No, X.shape[3]) if d == 2 else (Bn, Cc, X.shape[2], No)
        return fresh_like(shape, elem, X)
    return contract


ABSTRACT = {
    'dtcwt.lowlevel:colfilter': _abs_axis('f', 2), 'dtcwt.lowlevel:rowfilter': _abs_axis('f', 3),
    'dtcwt.lowlevel:coldfilt': _abs_axis('d', 2), 'dtcwt.lowlevel:rowdfilt': _abs_axis('d', 3),
    'dtcwt.lowlevel:colifilt': _abs_axis('i', 2), 'dtcwt.lowlevel:rowifilt': _abs_axis('i', 3),
    'dtcwt.lowlevel:q2c': q2c_contract, 'dtcwt.lowlevel:c2q': c2q_contract,
}
