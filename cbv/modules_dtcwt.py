"""Module-level obligations of the dual-tree half: real __init__ and forward of
DTCWTForward / DTCWTInverse, number of levels unrolled (J = 1..Jmax: BOUNDED in J),
everything else symbolic (sizes incl. odd and non-multiples of 4, batch, channels,
filter lengths, taps, skip / include masks as symbolic booleans)."""
import z3
from .sym import *
from . import contracts_dwt as CD, contracts_dtcwt as CT, verify, solve, prims
from .solve import Ob
from .interp import Interp, explore, SObj, RepoClass

Bn, C, H, W = z3.Ints('B C H W')
mo0, mo1, mg0, mg1, qa, qb = z3.Ints('m_h0o m_h1o m_g0o m_g1o q_h0 q_h1')
MV = [Bn, C, H, W, mo0, mo1, mg0, mg1, qa, qb]
BASE = [Bn >= 1, C >= 1, H >= 1, W >= 1] + [v >= 1 for v in (qa, qb)] + [z3.And(v >= 3, v % 2 == 1) for v in (mo0, mo1, mg0, mg1)]
T2 = 'dtcwt.transform2d'
TFk = 'dtcwt.transform_funcs'


def col(name, m):
    t = STensor((m, 1), lambda idx, name=name: GS.atom(name, [idx[0]]), meta=dict(kind='np', dtype=prims.F64, name=name))
    t.base.owner = 'table:' + name
    return t


def tables():
    """symbolic filter tables with the shapes of the shipped ones"""
    bi = {'h0o': col('h0o', mo0), 'g0o': col('g0o', mg0), 'h1o': col('h1o', mo1), 'g1o': col('g1o', mg1)}
    qs = {}
    for k, q in (('h0', qa), ('h1', qb), ('g0', qa), ('g1', qb)):
        qs[k + 'a'] = col(k + 'a', 2 * q)
        qs[k + 'b'] = col(k + 'b', 2 * q)
    return bi, qs


def module_callees(bi, qs):
    c = {
        'dtcwt.coeffs:biort': lambda it, name: (bi['h0o'], bi['g0o'], bi['h1o'], bi['g1o']),
        'dtcwt.coeffs:qshift': lambda it, name: tuple(qs[k] for k in ('h0a', 'h0b', 'g0a', 'g0b', 'h1a', 'h1b', 'g1a', 'g1b')),
        'dtcwt.lowlevel:prep_filt': CT.prep_filt_contract,
        'dwt.lowlevel:mode_to_int': CD.mode_to_int_contract,
    }
    for k in ('FWD_J1', 'FWD_J2PLUS', 'INV_J1', 'INV_J2PLUS'):
        c[TFk + ':' + k + '.apply'] = CT.CONTRACTS[TFk + ':' + k + '.apply']
    return c


class Recorder:
    """Modular treatment of the per-level Functions: every X.apply(...) is replaced by its contract, the
    arguments are recorded, and the results are handed on as FRESH named tensors (L<k>, HS<k>) of the
    contract's output shape.  The code run and the reference run use the same names, so what is compared
    is (a) the arguments of the k-th application and (b) which named results end up where."""
    def __init__(s):
        s.calls = []

    def wrap(s, key, contract, n_data):
        def w(it, *args):
            args = list(args)
            for q, a in enumerate(args):
                if isz(a) and a.sort() == z3.BoolSort():
                    args[q] = bool(ctx().decide(a))
            res = contract(it, *args)
            k = len(s.calls)
            outs = list(res) if isinstance(res, tuple) else [res]
            named = []
            for q, t in enumerate(outs):
                if isinstance(t, STensor) and t.ndim:
                    named.append(CD.data_tensor('%s%d_%d' % ('R', k, q), t.shape))
                else:
                    named.append(t)
            s.calls.append((key, args, outs, named))
            return tuple(named) if isinstance(res, tuple) else named[0]
        return w


def compare_records(pid, rc, rs, pc):
    """code-run records rc against reference-run records rs"""
    obs = []
    ok = len(rc.calls) == len(rs.calls) and all(a[0] == b[0] for a, b in zip(rc.calls, rs.calls))
    obs.append(Ob(pid + '/same-sequence-of-level-applications', 'POST', 'proved' if ok else 'refuted', 'structural', 0,
                  {} if ok else {'code': [c[0] for c in rc.calls], 'reference': [c[0] for c in rs.calls], 'model': {}}))
    if not ok:
        return obs
    for k, (a, b) in enumerate(zip(rc.calls, rs.calls)):
        for q, (x, y) in enumerate(zip(a[1], b[1])):
            nm = '%s/apply%d[%s]/arg%d' % (pid, k, a[0].split(':')[1], q)
            gone_x = x is None or (isinstance(x, STensor) and x.ndim == 0)
            if gone_x and isinstance(y, STensor) and y.meta.get('allzero'):
                obs.append(Ob(nm + '[absent==zeros]', 'PRE', 'proved', 'lemma', 0))
                continue
            if isinstance(y, STensor) or y is None or isinstance(x, STensor):
                if (x is None) != (y is None) or (isinstance(x, STensor) and x.ndim == 0) != (isinstance(y, STensor) and y.ndim == 0):
                    obs.append(Ob(nm, 'PRE', 'refuted', 'structural', 0, {'model': {}}))
                elif isinstance(y, STensor) and y.ndim:
                    obs += verify.value_equal(nm, 'PRE', x, y, pc, MV)
            else:
                same = (x == y) if not (isz(x) or isz(y)) else None
                if same is None:
                    obs.append(solve.prove(nm, 'PRE', pc, I(x) == I(y), MV))
                else:
                    obs.append(Ob(nm, 'PRE', 'proved' if same else 'refuted', 'structural', 0, {} if same else {'code': str(x), 'reference': str(y), 'model': {}}))
    return obs


def module_callees_rec(bi, qs, rec):
    c = module_callees(bi, qs)
    for k in ('FWD_J1', 'FWD_J2PLUS', 'INV_J1', 'INV_J2PLUS'):
        key = TFk + ':' + k + '.apply'
        c[key] = rec.wrap(key, CT.CONTRACTS[key], 1)
    return c


def T(it, arr):
    return CT.prep_filt_contract(it, arr, 1)


def ext_odd(x):
    c = ctx()
    if c.decide(I(x.shape[2]) % 2 != 0):
        x = t_cat([x, tget(x, (slice(None), slice(None), slice(-1, None)))], 2)
    if c.decide(I(x.shape[3]) % 2 != 0):
        x = t_cat([x, tget(x, (slice(None), slice(None), slice(None), slice(-1, None)))], 3)
    return x


def ext_mult4(low):
    c = ctx()
    if c.decide(I(low.shape[2]) % 4 != 0):
        low = t_cat([tget(low, (slice(None), slice(None), slice(0, 1))), low,
                     tget(low, (slice(None), slice(None), slice(-1, None)))], 2)
    if c.decide(I(low.shape[3]) % 4 != 0):
        low = t_cat([tget(low, (slice(None), slice(None), slice(None), slice(0, 1))), low,
                     tget(low, (slice(None), slice(None), slice(None), slice(-1, None)))], 3)
    return low


def ref_forward(it, rec, x, bi, qs, J, skip, o_dim, ri_dim, mode='symmetric'):
    """the reference Transform2d.forward: returns (lowpass after each level, band-pass tensor per level or None where skipped)"""
    mi = CD.MODE2INT[mode]
    F1 = rec.wrap(TFk + ':FWD_J1.apply', CT.FWD_J1_apply_contract, 1)
    F2 = rec.wrap(TFk + ':FWD_J2PLUS.apply', CT.FWD_J2PLUS_apply_contract, 1)
    x = ext_odd(x)
    lows, highs = [], []
    low, h = F1(it, x, T(it, bi['h0o']), T(it, bi['h1o']), skip[0], o_dim, ri_dim, mi)
    lows.append(low)
    highs.append(None if skip[0] else h)
    for j in range(1, J):
        low = ext_mult4(low)
        low, h = F2(it, low, T(it, qs['h0a']), T(it, qs['h1a']), T(it, qs['h0b']), T(it, qs['h1b']), skip[j], o_dim, ri_dim, mi)
        lows.append(low)
        highs.append(None if skip[j] else h)
    return lows, highs


def is_placeholder(t):
    return isinstance(t, STensor) and t.ndim == 0


def g_dtcwt_forward(J, o_dim=2, ri_dim=-1, masks='symbolic', as_names=True, mode='symmetric', canary=False):
    """masks: 'symbolic' (skip_hps / include_scale lists of symbolic booleans), 'default' (plain False)"""
    oid = 'DTCWTForward[J=%d,o=%d,ri=%d,%s,%s]' % (J, o_dim, ri_dim, masks, 'names' if as_names else 'tuples')
    sk = [z3.Bool('skip%d' % j) for j in range(J)] if masks in ('symbolic', 'symbolic-skip') else [False] * J
    inc = [z3.Bool('inc%d' % j) for j in range(J)] if masks in ('symbolic', 'symbolic-include') else [False] * J

    def run():
        bi, qs = tables()
        rc, rs = Recorder(), Recorder()
        it = Interp(contracts=module_callees_rec(bi, qs, rc))
        kw = dict(J=J, o_dim=o_dim, ri_dim=ri_dim, mode=mode)
        if as_names:
            kw.update(biort='near_sym_a', qshift='qshift_a')
        else:
            kw.update(biort=(bi['h0o'], bi['h1o']), qshift=(qs['h0a'], qs['h0b'], qs['h1a'], qs['h1b']))
        if masks.startswith('symbolic'):
            kw.update(skip_hps=list(sk), include_scale=list(inc))
        self = prims.instantiate(it, RepoClass(T2, 'DTCWTForward'), [], kw)
        x = CD.data_tensor('x', (Bn, C, H, W))
        out = it.call(T2, 'DTCWTForward.forward', [self, x], {})
        skc = [bool(ctx().decide(b)) if isz(b) else b for b in sk]
        incc = [bool(ctx().decide(b)) if isz(b) else b for b in inc]
        lows, highs = ref_forward(Interp(), rs, x, bi, qs, J, skc, o_dim, ri_dim, mode)
        return out, lows, highs, skc, incc, rc, rs, (self, x)
    obs = []
    info = {'paths': 0}
    for k, (c, res) in enumerate(explore(run, BASE, 4000)):
        CUR.ctx = c
        if c.solver.check() == z3.unsat:
            continue
        pid = '%s/path%d' % (oid, k)
        info['paths'] += 1
        if res[0] == 'raise':
            obs.append(Ob(pid + '/unexpected-raise', 'POST', 'refuted', 'path', 0, {'what': '%s: %s' % (res[1].kind, res[1].msg), 'model': {}}))
            continue
        out, lows, highs, skc, incc, rc, rs, owned = res[1]
        obs += verify.frame_obs(pid, c, owned)
        obs += compare_records(pid, rc, rs, c.pc)
        ok = isinstance(out, tuple) and len(out) == 2 and isinstance(out[1], list) and len(out[1]) == J
        obs.append(Ob(pid + '/POST[(yl, list of J band-pass levels)]', 'POST', 'proved' if ok else 'refuted', 'structural', 0))
        if not ok:
            continue
        yl, yh = out
        if canary:
            lows = lows[:-1] + [lows[0]]
        for j in range(J):
            if skc[j]:
                obs.append(Ob('%s/level%d/skipped-level-is-an-empty-placeholder' % (pid, j + 1), 'POST',
                              'proved' if is_placeholder(yh[j]) else 'refuted', 'structural', 0))
            else:
                obs += verify.value_equal('%s/level%d/bandpass' % (pid, j + 1), 'POST', yh[j], highs[j], c.pc, MV)
        if any(incc):
            ok = isinstance(yl, list) and len(yl) == J
            obs.append(Ob(pid + '/POST[yl is the list of lowpasses]', 'POST', 'proved' if ok else 'refuted', 'structural', 0))
            if ok:
                for j in range(J):
                    if incc[j]:
                        obs += verify.value_equal('%s/scale%d' % (pid, j + 1), 'POST', yl[j], lows[j], c.pc, MV)
                    else:
                        obs.append(Ob('%s/scale%d/not-requested-is-placeholder' % (pid, j + 1), 'POST',
                                      'proved' if is_placeholder(yl[j]) else 'refuted', 'structural', 0))
        else:
            obs += verify.value_equal(pid + '/lowpass', 'POST', yl, lows[-1], c.pc, MV)
        obs += solve.safety_obligations(pid, c, MV)
    return obs, info


# ---------------------------------------------------------------------------
# inverse
# ---------------------------------------------------------------------------
def ref_inverse(it, rec, low, highs, bi, qs, o_dim, ri_dim, mode='symmetric', shapes=None):
    """reference Transform2d.inverse (level J down to 1), with the library's documented convention that an absent
    level (None / empty) counts as zeros"""
    mi = CD.MODE2INT[mode]
    I1 = rec.wrap(TFk + ':INV_J1.apply', CT.INV_J1_apply_contract, 2)
    I2 = rec.wrap(TFk + ':INV_J2PLUS.apply', CT.INV_J2PLUS_apply_contract, 2)
    perm = CT.layout_perm(o_dim, ri_dim)
    hpos, wpos = perm.index(3), perm.index(4)
    J = len(highs)

    def gone(t):
        return t is None or (isinstance(t, STensor) and (t.ndim == 0 or (t.ndim == 1 and is_conc(t.shape[0]) and t.shape[0] == 0)))
    # documented convention: None or an empty tensor (torch.tensor([])) stands for zeros of the right shape
    # ... of the RIGHT SHAPE: the shape the forward transform gives that level (shapes[j] = (h_j, w_j))
    d_ = lambda j: [highs_shape_src[0], highs_shape_src[1], 6, shapes[j][0], shapes[j][1], 2]
    highs_shape_src = None
    for t in list(highs) + [low]:
        if isinstance(t, STensor) and t.ndim >= 4:
            highs_shape_src = (t.shape[perm.index(0)], t.shape[perm.index(1)]) if t.ndim == 6 else (t.shape[0], t.shape[1])
            break
    if shapes is not None and highs_shape_src is not None:
        highs = [t_zeros(tuple(d_(j)[p] for p in perm), dtype=prims.DT_IN, kind='torch', allzero=True) if gone(h) else h
                 for j, h in enumerate(highs)]
        if gone(low):
            low = t_zeros((highs_shape_src[0], highs_shape_src[1], 2 * I(shapes[J - 1][0]), 2 * I(shapes[J - 1][1])),
                          dtype=prims.DT_IN, kind='torch', allzero=True)
    else:
        highs = [None if gone(h) else h for h in highs]
        if gone(low):
            low = None

    def crop(low, s):
        if s is None or low is None:
            return low
        c = ctx()
        if c.decide(I(low.shape[2]) != 2 * I(s.shape[hpos])):
            low = tget(low, (slice(None), slice(None), slice(1, -1)))
        if c.decide(I(low.shape[3]) != 2 * I(s.shape[wpos])):
            low = tget(low, (slice(None), slice(None), slice(None), slice(1, -1)))
        return low
    for j in range(J - 1, 0, -1):
        s = highs[j]
        low = crop(low, s)
        low = I2(it, low, s, T(it, qs['g0a']), T(it, qs['g1a']), T(it, qs['g0b']), T(it, qs['g1b']), o_dim, ri_dim, mi)
    low = crop(low, highs[0])
    return I1(it, low, highs[0], T(it, bi['g0o']), T(it, bi['g1o']), o_dim, ri_dim, mi)


def g_dtcwt_inverse(J, o_dim=2, ri_dim=-1, absent='symbolic', as_names=True, mode='symmetric', low_absent=None, high_empty1d=None,
                    crop='any'):
    # crop: 'any' | 'never' (every level's lowpass is already twice the next band-pass: sizes that need no crop)
    """absent: 'symbolic' (each band-pass level present / None / 0-dim placeholder, chosen symbolically) | 'none'.
    The pyramid has the shapes the forward transform produces for an (H, W) image."""
    oid = 'DTCWTInverse[J=%d,o=%d,ri=%d,absent=%s,crop=%s%s%s]' % (J, o_dim, ri_dim, absent, crop, ',low=' + low_absent if low_absent else '',
                                                       ',level%d=torch.tensor([])' % (high_empty1d + 1) if high_empty1d is not None else '')
    perm = CT.layout_perm(o_dim, ri_dim)

    def run():
        c = ctx()
        bi, qs = tables()
        rc, rs = Recorder(), Recorder()
        it = Interp(contracts=module_callees_rec(bi, qs, rc))
        kw = dict(o_dim=o_dim, ri_dim=ri_dim, mode=mode)
        if as_names:
            kw.update(biort='near_sym_a', qshift='qshift_a')
        else:
            kw.update(biort=(bi['g0o'], bi['g1o']), qshift=(qs['g0a'], qs['g0b'], qs['g1a'], qs['g1b']))
        self = prims.instantiate(it, RepoClass(T2, 'DTCWTInverse'), [], kw)
        # forward-compatible shapes: level j band-pass has extents (h_j, w_j); the lowpass handed to level j is
        # 2*h_j (+2 when the forward had to extend to a multiple of 4)
        hs = []
        hj, wj = [fresh_int('h') for _ in range(J)], [fresh_int('w') for _ in range(J)]
        for j in range(J):
            c.assume(z3.And(hj[j] >= 1, wj[j] >= 1))
            if j + 1 < J:
                # level j+2 consumed the level-(j+1) lowpass (2h_j x 2w_j), possibly extended by 2, and halved it twice
                if crop == 'never':
                    c.assume(z3.And(4 * hj[j + 1] == 2 * hj[j], 4 * wj[j + 1] == 2 * wj[j]))
                else:
                    c.assume(z3.Or(4 * hj[j + 1] == 2 * hj[j], 4 * hj[j + 1] == 2 * hj[j] + 2))
                    c.assume(z3.Or(4 * wj[j + 1] == 2 * wj[j], 4 * wj[j + 1] == 2 * wj[j] + 2))
            d = [Bn, C, 6, hj[j], wj[j], 2]
            t = CD.data_tensor('yh%d' % j, tuple(d[p] for p in perm))
            if absent == 'symbolic':
                if c.decide(z3.Bool('none%d' % j)):
                    t = None
                elif c.decide(z3.Bool('empty%d' % j)):
                    t = t_zeros((), dtype=prims.DT_IN, kind='torch')
            if high_empty1d == j:
                t = t_zeros((0,), dtype=prims.DT_DEFAULT, kind='torch')
            hs.append(t)
        low = CD.data_tensor('yl', (Bn, C, 2 * hj[J - 1], 2 * wj[J - 1]))
        if low_absent == 'none':
            low = None
        elif low_absent == '0dim':
            low = t_zeros((), dtype=prims.DT_IN, kind='torch')
        elif low_absent == 'empty1d':
            low = t_zeros((0,), dtype=prims.DT_DEFAULT, kind='torch')
        try:
            got = ('ret', it.call(T2, 'DTCWTInverse.forward', [self, (low, list(hs))], {}))
        except Raised as r:
            got = ('raise', r)
        try:
            want = ('ret', ref_inverse(Interp(), rs, low, hs, bi, qs, o_dim, ri_dim, mode, shapes=list(zip(hj, wj))))
        except Raised as r:
            want = ('raise', r)
        return got, want, rc, rs, (self, low, hs)
    obs = []
    info = {'paths': 0}
    for k, (c, res) in enumerate(explore(run, BASE, 6000)):
        CUR.ctx = c
        if c.solver.check() == z3.unsat:
            continue
        pid = '%s/path%d' % (oid, k)
        info['paths'] += 1
        if res[0] == 'raise':
            obs.append(Ob(pid + '/unexpected-raise', 'POST', 'refuted', 'path', 0, {'what': str(res[1]), 'model': {}}))
            continue
        got, want, rc, rs, owned = res[1]
        obs += verify.frame_obs(pid, c, owned)
        if got[0] == 'raise' or want[0] == 'raise':
            ok = got[0] == want[0]
            obs.append(Ob(pid + '/raises-iff-reference-convention-raises', 'POST', 'proved' if ok else 'refuted', 'path', 0,
                          {} if ok else {'what': 'library: %s ; documented behaviour: %s' % (
                              (got[1].kind + ': ' + got[1].msg) if got[0] == 'raise' else 'returns',
                              (want[1].kind + ': ' + want[1].msg) if want[0] == 'raise' else 'returns (absent input counts as zeros)'), 'model': {}}))
            continue
        # absent inputs: an absent argument on the code side must face an all-zero tensor on the reference side
        # (LEMMA groups: INV_J*.apply(.., absent) == INV_J*.apply(.., zeros))
        obs += compare_records(pid, rc, rs, c.pc)
        obs += verify.value_equal(pid + '/result', 'POST', got[1], want[1], c.pc, MV)
        obs += solve.safety_obligations(pid, c, MV)
    return obs, info


def unname(t, rec):
    """substitute the recorded contract results for the fresh names, recursively"""
    if not isinstance(t, STensor):
        return t
    for key, args, outs, named in reversed(rec.calls):
        for o, n in zip(outs, named):
            if n is t:
                # o is expressed over the (possibly named) arguments: un-name those first
                args2 = [unname(a, rec) if isinstance(a, STensor) else a for a in args]
                res = CT.CONTRACTS[key](Interp(), *args2)
                return res if not isinstance(res, tuple) else res[named.index(t)]
    return t


# ---------------------------------------------------------------------------
# forward module, SYMBOLIC number of levels (level-loop invariant)
# ---------------------------------------------------------------------------
class _Calls:
    def __init__(s, calls):
        s.calls = calls


def g_dtcwt_forward_symJ(o_dim=2, ri_dim=-1, skip=False, include=False, mode='symmetric', canary=False, as_names=True):
    """DTCWTForward.__init__ + forward with a SYMBOLIC number of levels J >= 1 (uniform skip_hps / include_scale flags).
    Level-loop invariant, proved by the INIT / STEP / EXIT obligations below:
        before iteration j (1 <= j < J):  `low` is the low-pass of level j, a tensor with EVEN extents;
                                          band-pass list[k], k < j, holds the result of the k-th level application
        STEP  (generic j, arbitrary even-sized low-pass A): exactly one FWD_J2PLUS.apply, on ext_mult4(A) with the four
              q-shift analysis filters, skip flag, layout and mode of the module; its band-pass result is stored at index j of
              the band-pass list (and its low-pass at index j of the scale list iff include_scale), nothing else is written;
              the new `low` is its low-pass result, again with even extents
        INIT  the code before the loop performs the reference level-1 step and establishes the invariant for j = 1
        EXIT  what is returned is (the loop-carried low-pass | the scale list, the band-pass list)
    Together with the contracts of FWD_J1 / FWD_J2PLUS (C03) this is the reference recursion for every J."""
    import ast as _ast
    from .modules_dwt import loop_state
    Jv = z3.Int('J')
    oid = 'DTCWTForward[J symbolic,o=%d,ri=%d,skip=%s,include=%s,%s]' % (o_dim, ri_dim, skip, include, 'names' if as_names else 'tuples')
    base = BASE + [Jv >= 1]
    mi = CD.MODE2INT[mode]

    def run():
        bi, qs = tables()
        rc = Recorder()
        it = Interp(contracts=module_callees_rec(bi, qs, rc))
        side = {}

        def rule(it_, node, rng, env):
            c = ctx()
            tv, _ = loop_state(node, env, 'low', None)
            if tv is None:
                raise Unsupported('level loop without a carried tensor')
            written = set()
            for st in node.body:
                for q in _ast.walk(st):
                    if isinstance(q, _ast.Subscript) and isinstance(q.ctx, _ast.Store) and isinstance(q.value, _ast.Name):
                        written.add(q.value.id)
            lists = {k: env[k] for k in sorted(written) if isinstance(env.get(k), PList)}
            side['init'] = {'low': env[tv], 'lists': {k: list(v.writes) for k, v in lists.items()}, 'ncalls': len(rc.calls), 'range': (rng.lo, rng.hi)}
            j = fresh_int('j')
            c.assume(z3.And(j >= 1, j < I(Jv)))
            ra, ca = fresh_int('ra'), fresh_int('ca')
            c.assume(z3.And(ra >= 1, ca >= 1))
            T0 = env[tv]
            A = CD.data_tensor('A', (T0.shape[0], T0.shape[1], 2 * ra, 2 * ca))
            env[tv] = A
            w0 = {k: len(v.writes) for k, v in lists.items()}
            n0 = len(rc.calls)
            before = dict(env)
            it_.assign(node.target, j, env)
            it_.run(node.body, env)
            side['step'] = {'j': j, 'A': A, 'calls': rc.calls[n0:], 'writes': {k: v.writes[w0[k]:] for k, v in lists.items()}, 'low': env[tv],
                            'other': [k for k in env if k in before and env[k] is not before[k] and k != tv and k not in lists
                                      and not isinstance(node.target, _ast.Name) or (k in before and env[k] is not before[k] and k != tv and k not in lists
                                                                                     and k != getattr(node.target, 'id', None) and k not in ('r', 'c', 'h'))]}
            for k, v in lists.items():
                del v.writes[w0[k]:]
            rj, cj = fresh_int('rJ'), fresh_int('cJ')
            c.assume(z3.And(rj >= 1, cj >= 1))
            AJ = CD.data_tensor('AJ', (T0.shape[0], T0.shape[1], 2 * rj, 2 * cj))
            env[tv] = AJ
            side['exit'] = {'low': AJ, 'lists': lists, 'tv': tv}
        it.loop_contracts[((T2, 'DTCWTForward.forward'), 0)] = rule
        kw = dict(J=Jv, o_dim=o_dim, ri_dim=ri_dim, mode=mode, skip_hps=skip, include_scale=include)
        if as_names:
            kw.update(biort='near_sym_a', qshift='qshift_a')
        else:
            kw.update(biort=(bi['h0o'], bi['h1o']), qshift=(qs['h0a'], qs['h0b'], qs['h1a'], qs['h1b']))
        self = prims.instantiate(it, RepoClass(T2, 'DTCWTForward'), [], kw)
        x = CD.data_tensor('x', (Bn, C, H, W))
        out = it.call(T2, 'DTCWTForward.forward', [self, x], {})
        return out, rc, side, (self, x), bi, qs
    obs = []
    info = {'paths': 0}
    for k, (c, res) in enumerate(explore(run, base, 4000)):
        CUR.ctx = c
        if c.solver.check() == z3.unsat:
            continue
        pid = '%s/path%d' % (oid, k)
        info['paths'] += 1
        if res[0] == 'raise':
            obs.append(Ob(pid + '/unexpected-raise', 'POST', 'refuted', 'path', 0, {'what': '%s: %s' % (res[1].kind, res[1].msg), 'model': {}}))
            continue
        out, rc, side, owned, bi, qs = res[1]
        self, x = owned
        obs += verify.frame_obs(pid, c, owned)
        if 'init' not in side:
            # J == 1 on this path: no loop iteration is possible; compare with the one-level reference
            obs.append(solve.prove(pid + '/loop-not-entered-only-when-J==1', 'POST', c.pc, Jv == 1, MV + [Jv]))
            continue
        ini, stp, ext = side['init'], side['step'], side['exit']
        # ---- INIT: the reference level-1 step
        rs = Recorder()
        lows1, highs1 = ref_forward(Interp(), rs, x, bi, qs, 1, [skip], o_dim, ri_dim, mode)
        obs += compare_records(pid + '/INIT', _Calls(rc.calls[:ini['ncalls']]), rs, c.pc)
        ok = len(rc.calls[:ini['ncalls']]) == 1
        if ok:
            named = rc.calls[0][3]
            ok_low = ini['low'] is named[0]
            hw = [w for w in ini['lists'].get('highs', [])] if 'highs' in ini['lists'] else None
            lists0 = ini['lists']
            band = [nm for nm, ws in lists0.items() if any(v is named[1] for _, v in ws)]
            obs.append(Ob(pid + '/INIT/low==lowpass-of-level-1', 'INV', 'proved' if ok_low else 'refuted', 'structural', 0))
            okb = len(band) == 1 and all(simp(I(i_)) == 0 for i_, v in lists0[band[0]] if v is named[1]) if band else False
            obs.append(Ob(pid + '/INIT/band-pass-list[0]==band-pass-of-level-1', 'INV', 'proved' if okb else 'refuted', 'structural', 0))
            obs.append(solve.prove(pid + '/INIT/low-has-even-extents', 'INV', c.pc,
                                   z3.And(I(ini['low'].shape[2]) % 2 == 0, I(ini['low'].shape[3]) % 2 == 0, I(ini['low'].shape[2]) >= 2, I(ini['low'].shape[3]) >= 2), MV + [Jv]))
        obs.append(solve.prove(pid + '/INIT/loop-runs-over-levels-1..J-1', 'INV', c.pc, z3.And(I(ini['range'][0]) == 1, I(ini['range'][1]) == Jv), MV + [Jv]))
        # ---- STEP
        rs2 = Recorder()
        it2 = Interp()
        F2 = rs2.wrap(TFk + ':FWD_J2PLUS.apply', CT.FWD_J2PLUS_apply_contract, 1)
        A4 = ext_mult4(stp['A'])
        fa, fb = ('h0b', 'h0a') if canary else ('h0a', 'h0b')          # canary: tree a / tree b low-pass filters exchanged
        F2(it2, A4, T(it2, qs[fa]), T(it2, qs['h1a']), T(it2, qs[fb]), T(it2, qs['h1b']), skip, o_dim, ri_dim, mi)
        obs += compare_records(pid + '/STEP', _Calls(stp['calls']), rs2, c.pc)
        if len(stp['calls']) == 1:
            named = stp['calls'][0][3]
            obs.append(Ob(pid + '/STEP/low==lowpass-result', 'INV', 'proved' if stp['low'] is named[0] else 'refuted', 'structural', 0))
            bandlists = [nm for nm, ws in stp['writes'].items() if len(ws) == 1 and ws[0][1] is named[1]]
            scal = [nm for nm, ws in stp['writes'].items() if len(ws) == 1 and ws[0][1] is named[0]]
            empty = [nm for nm, ws in stp['writes'].items() if not ws]
            okw = len(bandlists) == 1 and (len(scal) == 1 if include else len(scal) == 0) and len(bandlists) + len(scal) + len(empty) == len(stp['writes'])
            obs.append(Ob(pid + '/STEP/writes[band-pass list[j] = band-pass result%s; nothing else]' % ('; scale list[j] = low-pass result' if include else ''),
                          'INV', 'proved' if okw else 'refuted', 'structural', 0, {} if okw else {'writes': {k_: len(v) for k_, v in stp['writes'].items()}, 'model': {}}))
            for nm in bandlists + scal:
                obs.append(solve.prove(pid + '/STEP/%s-written-at-index-j' % nm, 'INV', c.pc, I(stp['writes'][nm][0][0]) == I(stp['j']), MV + [Jv]))
            obs.append(solve.prove(pid + '/STEP/low-has-even-extents-again', 'INV', c.pc,
                                   z3.And(I(stp['low'].shape[2]) % 2 == 0, I(stp['low'].shape[3]) % 2 == 0, I(stp['low'].shape[2]) >= 2, I(stp['low'].shape[3]) >= 2), MV + [Jv]))
            side['band'] = bandlists[0] if bandlists else None
            side['scale'] = scal[0] if scal else None
        # ---- EXIT
        ok = isinstance(out, tuple) and len(out) == 2
        if ok:
            want0 = ext['lists'].get(side.get('scale')) if include else ext['low']
            ok = (out[0] is want0) and (out[1] is ext['lists'].get(side.get('band')))
        obs.append(Ob(pid + '/EXIT[returns (%s, band-pass list)]' % ('scale list' if include else 'loop-carried low-pass'), 'POST',
                      'proved' if ok else 'refuted', 'structural', 0))
        obs.append(solve.prove(pid + '/EXIT/band-pass-list-has-J-entries', 'POST', c.pc,
                               I(ext['lists'][side['band']].length()) == Jv if side.get('band') else z3.BoolVal(False), MV + [Jv]))
        obs += solve.safety_obligations(pid, c, MV + [Jv])
    return obs, info


# ---------------------------------------------------------------------------
# inverse module, SYMBOLIC number of levels
# ---------------------------------------------------------------------------
class SPyr:
    """the list of band-pass levels handed to DTCWTInverse: symbolic length J >= 1, every entry a 6-D tensor of the module's
    layout whose extents are unknowns (absent levels stay with the unrolled groups).  Supports exactly what a level loop needs:
    len, [0], [1:], [::-1], iteration through a loop contract, an element-wise comprehension, zip with a symbolic range."""
    def __init__(s, J, perm, lo=0, rev=False, root=None, fmap=None):
        s.J, s.perm, s.lo, s.rev, s.root, s.fmap = J, perm, lo, rev, root or s, fmap
        if root is None:
            s.elems = {}
            s.generic_index = None

    def length(s):
        return simp(I(s.J) - s.lo)

    def element(s, tag):
        """the element called `tag` ('first' = index 0, 'generic' = the one the loop is looking at)"""
        root = s.root
        if tag not in root.elems:
            r, c_ = fresh_int('r_' + tag), fresh_int('c_' + tag)
            ctx().assume(z3.And(r >= 1, c_ >= 1))
            d = [Bn, C, 6, r, c_, 2]
            root.elems[tag] = CD.data_tensor('yh_' + tag, tuple(d[p] for p in s.perm))
        return root.elems[tag]

    def get(s, k):
        if isinstance(k, slice):
            if k.start is None and k.stop is None and k.step == -1:
                return SPyr(s.J, s.perm, s.lo, not s.rev, s.root, s.fmap)
            if k.stop is None and k.step is None and is_conc(k.start) and k.start >= 0 and not s.rev:
                return SPyr(s.J, s.perm, s.lo + k.start, s.rev, s.root, s.fmap)
            raise Unsupported('slice %r of the symbolic pyramid' % (k,))
        if is_conc(k) and k == 0 and s.lo == 0 and not s.rev:
            return s.apply_map(s.element('first'))
        gi = getattr(s.root, 'generic_index', None)
        if isz(k) and gi is not None and s.lo == 0 and not s.rev and simp(I(k) - I(gi)) == 0:
            return s.apply_map(s.element('generic'))          # indexed by the loop variable of the level loop
        raise Unsupported('index %r into the symbolic pyramid' % (k,))

    def apply_map(s, v):
        if s.fmap is None:
            return v
        it, elt, target, env = s.fmap
        e2 = dict(env)
        it.assign(target, v, e2)
        return it.ev(elt, e2)


class SymZip:
    def __init__(s, parts):
        s.parts = parts


def g_dtcwt_inverse_symJ(o_dim=2, ri_dim=-1, mode='symmetric', canary=False):
    """DTCWTInverse.__init__ + forward on a pyramid with a SYMBOLIC number of levels J >= 1 (every level present; absent levels
    are covered by the unrolled groups).  Precondition on the shapes (as for the unrolled groups): the low-pass handed to a level is
    twice the band-pass extent of that level, or that plus 2.
        INIT  before the loop `low` is the given low-pass; the loop visits levels J..2 (band-pass list [1:] reversed)
        STEP  (generic level, arbitrary low-pass A of an admissible size): the low-pass is cropped by one sample at each end along an
              axis iff it is not twice the band-pass extent there; exactly one INV_J2PLUS.apply(cropped, band-pass, g0a, g1a, g0b, g1b,
              layout, mode); its result becomes `low`; nothing else is written
        EXIT  the same crop rule against level 1, one INV_J1.apply(cropped, level-1 band-pass, g0o, g1o, layout, mode), whose result is returned"""
    from .modules_dwt import loop_state
    Jv = z3.Int('J')
    oid = 'DTCWTInverse[J symbolic,o=%d,ri=%d]' % (o_dim, ri_dim)
    perm = CT.layout_perm(o_dim, ri_dim)
    hpos, wpos = perm.index(3), perm.index(4)
    base = BASE + [Jv >= 1]
    mi = CD.MODE2INT[mode]

    def admissible(low, s):
        c = ctx()
        c.assume(z3.Or(I(low.shape[2]) == 2 * I(s.shape[hpos]), I(low.shape[2]) == 2 * I(s.shape[hpos]) + 2))
        c.assume(z3.Or(I(low.shape[3]) == 2 * I(s.shape[wpos]), I(low.shape[3]) == 2 * I(s.shape[wpos]) + 2))

    def run():
        c = ctx()
        bi, qs = tables()
        rc = Recorder()
        it = Interp(contracts=module_callees_rec(bi, qs, rc))
        side = {}
        pyr = SPyr(Jv, perm)

        def rule(it_, node, zipped, env):
            parts = zipped.parts if isinstance(zipped, SymZip) else [zipped]
            lists = [p for p in parts if isinstance(p, SPyr)]
            rngs = [p for p in parts if isinstance(p, prims.SymRange)]
            if len(lists) > 1 or (not lists and len(rngs) != 1):
                raise Unsupported('level loop over something else than the band-pass list or its index range')
            L = lists[0] if lists else pyr
            tv, _ = loop_state(node, env, 'low', None)
            if tv is None:
                raise Unsupported('synthesis loop without a carried tensor')
            side['init'] = {'low': env[tv], 'list': (L.lo, L.rev, L.root is pyr) if lists else None,
                            'ranges': [(r.lo, r.hi, getattr(r, 'step', 1)) for r in rngs], 'ncalls': len(rc.calls)}
            S = L.apply_map(L.element('generic'))
            jvars = []
            ra, ca = fresh_int('ra'), fresh_int('ca')
            c.assume(z3.And(ra >= 1, ca >= 1))
            T0 = env[tv]
            A = CD.data_tensor('A', (T0.shape[0], T0.shape[1], ra, ca))
            if isinstance(S, STensor) and S.ndim == 6:
                admissible(A, S)
            env[tv] = A
            n0 = len(rc.calls)
            before = dict(env)
            vals = []
            for p in parts:
                if isinstance(p, SPyr):
                    vals.append(S)
                else:
                    jv = fresh_int('j')
                    c.assume(z3.And(jv >= 1, jv < I(Jv)))
                    jvars.append(jv)
                    vals.append(jv)
            if not lists:
                pyr.generic_index = jvars[0]          # the body reads the level through band_pass_list[j]
            it_.assign(node.target, tuple(vals) if isinstance(zipped, SymZip) else vals[0], env)
            tnames = {q.id for q in __import__('ast').walk(node.target) if isinstance(q, __import__('ast').Name)}
            it_.run(node.body, env)
            pyr.generic_index = None
            side['step'] = {'A': A, 'S': S, 'calls': rc.calls[n0:], 'low': env[tv],
                            'other': [k for k in env if k in before and env[k] is not before[k] and k != tv and k not in tnames and k not in ('r', 'c', 'r1', 'c1')]}
            rj, cj = fresh_int('rJ'), fresh_int('cJ')
            c.assume(z3.And(rj >= 1, cj >= 1))
            AJ = CD.data_tensor('AJ', (T0.shape[0], T0.shape[1], rj, cj))
            first = pyr.apply_map(pyr.element('first'))
            if isinstance(first, STensor) and first.ndim == 6:
                admissible(AJ, first)
            env[tv] = AJ
            side['exit'] = {'low': AJ, 'ncalls': len(rc.calls)}
        it.loop_contracts[((T2, 'DTCWTInverse.forward'), 0)] = rule
        it.symbolic_iter = {'SPyr': SPyr, 'SymZip': SymZip}
        self = prims.instantiate(it, RepoClass(T2, 'DTCWTInverse'), [], dict(o_dim=o_dim, ri_dim=ri_dim, mode=mode, biort='near_sym_a', qshift='qshift_a'))
        rl, cl = fresh_int('rl'), fresh_int('cl')
        c.assume(z3.And(rl >= 1, cl >= 1))
        low = CD.data_tensor('yl', (Bn, C, rl, cl))
        # J == 1: the given low-pass goes straight to level 1
        side['yl'] = low
        out = it.call(T2, 'DTCWTInverse.forward', [self, (low, pyr)], {})
        return out, rc, side, (self, low), bi, qs, pyr
    obs = []
    info = {'paths': 0}
    for k, (c, res) in enumerate(explore(run, base, 4000)):
        CUR.ctx = c
        if c.solver.check() == z3.unsat:
            continue
        pid = '%s/path%d' % (oid, k)
        info['paths'] += 1
        if res[0] == 'raise':
            obs.append(Ob(pid + '/unexpected-raise', 'POST', 'refuted', 'path', 0, {'what': '%s: %s' % (res[1].kind, res[1].msg), 'model': {}}))
            continue
        out, rc, side, owned, bi, qs, pyr = res[1]
        obs += verify.frame_obs(pid, c, owned)
        if 'init' not in side:
            obs.append(Ob(pid + '/loop-reached', 'POST', 'refuted', 'structural', 0, {'model': {}}))
            continue
        ini, stp, ext = side['init'], side['step'], side['exit']
        # INIT
        obs.append(Ob(pid + '/INIT/low==given-lowpass', 'INV', 'proved' if ini['low'] is side['yl'] else 'refuted', 'structural', 0))
        if ini['list'] is not None:
            lo_, rev_, same_ = ini['list']
            obs.append(Ob(pid + '/INIT/loop-visits-bandpass[1:]-reversed', 'INV', 'proved' if (lo_ == 1 and rev_ and same_) else 'refuted', 'structural', 0,
                          {} if (lo_ == 1 and rev_ and same_) else {'slice_from': lo_, 'reversed': rev_, 'model': {}}))
        else:
            (a_, b_, st_) = ini['ranges'][0]
            okr = st_ == -1
            obs.append(Ob(pid + '/INIT/loop-index-descends', 'INV', 'proved' if okr else 'refuted', 'structural', 0, {} if okr else {'step': st_, 'model': {}}))
            obs.append(solve.prove(pid + '/INIT/loop-index-runs-from-J-1-down-to-1', 'INV', c.pc, z3.And(I(a_) == Jv - 1, I(b_) == 0), MV + [Jv]))
        obs.append(Ob(pid + '/INIT/no-level-application-before-the-loop', 'INV', 'proved' if ini['ncalls'] == 0 else 'refuted', 'structural', 0))
        for (a_, b_, st_) in (ini['ranges'] if ini['list'] is not None else []):
            obs.append(solve.prove(pid + '/INIT/index-range-has-J-1-entries', 'INV', c.pc,
                                   (I(a_) - I(b_) == Jv - 1) if st_ == -1 else (I(b_) - I(a_) == Jv - 1), MV + [Jv]))
        # STEP against the reference step
        A, S = stp['A'], stp['S']
        ok6 = isinstance(S, STensor) and S.ndim == 6
        obs.append(Ob(pid + '/STEP/element-normalisation-keeps-present-levels', 'INV', 'proved' if (ok6 and S is pyr.elems.get('generic')) else 'refuted', 'structural', 0))
        if ok6:
            rs2 = Recorder()
            it2 = Interp()
            I2 = rs2.wrap(TFk + ':INV_J2PLUS.apply', CT.INV_J2PLUS_apply_contract, 2)

            def crop(low, s):
                cc = ctx()
                if cc.decide(I(low.shape[2]) != 2 * I(s.shape[hpos])):
                    low = tget(low, (slice(None), slice(None), slice(1, -1)))
                if cc.decide(I(low.shape[3]) != 2 * I(s.shape[wpos])):
                    low = tget(low, (slice(None), slice(None), slice(None), slice(1, -1)))
                return low
            ga, gb = ('g0b', 'g0a') if canary else ('g0a', 'g0b')
            I2(it2, crop(A, S), S, T(it2, qs[ga]), T(it2, qs['g1a']), T(it2, qs[gb]), T(it2, qs['g1b']), o_dim, ri_dim, mi)
            obs += compare_records(pid + '/STEP', _Calls(stp['calls']), rs2, c.pc)
            if len(stp['calls']) == 1:
                obs.append(Ob(pid + '/STEP/low==result-of-the-level', 'INV', 'proved' if stp['low'] is stp['calls'][0][3][0] else 'refuted', 'structural', 0))
            obs.append(Ob(pid + '/STEP/nothing-else-rebound', 'INV', 'proved' if not stp['other'] else 'refuted', 'structural', 0,
                          {} if not stp['other'] else {'names': stp['other'], 'model': {}}))
        # EXIT against the reference level-1 step
        first = pyr.elems.get('first')
        calls_exit = rc.calls[ext['ncalls']:]
        if first is not None:
            rs3 = Recorder()
            it3 = Interp()
            I1 = rs3.wrap(TFk + ':INV_J1.apply', CT.INV_J1_apply_contract, 2)
            I1(it3, crop(ext['low'], first), first, T(it3, bi['g0o']), T(it3, bi['g1o']), o_dim, ri_dim, mi)
            obs += compare_records(pid + '/EXIT', _Calls(calls_exit), rs3, c.pc)
            ok = len(calls_exit) == 1 and out is calls_exit[0][3][0]
            obs.append(Ob(pid + '/EXIT/returns-the-level-1-result', 'POST', 'proved' if ok else 'refuted', 'structural', 0))
        else:
            obs.append(Ob(pid + '/EXIT/level-1-band-pass-used', 'POST', 'refuted', 'structural', 0, {'model': {}}))
        obs += solve.safety_obligations(pid, c, MV + [Jv])
    return obs, info
