"""Contracts (pre/postconditions) for the DWT half of the library, in sidecar
form: keyed by the qualified name of the real function.  A contract is a python
function that, given the symbolic arguments, (1) emits PRE obligations and
(2) returns the value the postcondition prescribes (spec application).  The same
function serves callers (modular verification: callee replaced by contract) and
the verification of the callee itself (body result == contract result)."""
import z3
from .sym import *
from . import specs, prims
from .specbk import SymBk as bk
from .prims import EXT_SYM, WRAP

MODES5 = ('zero', 'symmetric', 'reflect', 'periodic', 'periodization')


def _axis_args(x, d):
    """(read(n,c,other,j), other-extent, axis-extent) along axis d of a 4-D tensor"""
    if d == 3:
        return (lambda n, c, r, j: x.at([n, c, r, j])), x.shape[2], x.shape[3]
    return (lambda n, c, r, j: x.at([n, c, j, r])), x.shape[3], x.shape[2]


def _tap_reader(h, d):
    """filters may arrive as (1,1,L,1), (1,1,1,L) or any shape with L elements:
    afb1d/sfb1d reshape them.  Returns (tap(a), L) in the tensor's own order."""
    L = h.numel()
    pos = [k for k, m in enumerate(h.shape) if not (is_conc(m) and m == 1)]
    if len(pos) > 1:
        raise Unsupported('filter tensor with more than one non-unit extent')

    def tap(a):
        idx = [0] * h.ndim
        if pos:
            idx[pos[0]] = a
        return h.at(idx)
    return tap, L


# ---------------------------------------------------------------------------
def reflect_contract(it, x, minx, maxx):
    """utils.reflect for the call pattern minx=-1/2, maxx=l-1/2:
    out[k] = ext_sym(x[k], l) (half-sample symmetric extension index)"""
    mn, mx = toQ(minx), toQ(maxx)
    if not (mn.den == 2 and is_conc(mn.num) and mn.num == -1 and mx.den == 2):
        raise Unsupported('reflect contract: only minx=-0.5, maxx=l-0.5')
    l = simp((I(mx.num) + 1) / 2)
    ctx().require('reflect-pre:l>=1', I(l) >= 1)
    if not isinstance(x, IArr) or x.den != 1:
        raise Unsupported('reflect contract: integer index array expected')
    return IArr(x.shape, lambda k: EXT_SYM(I(x.elem(k)), I(l)), 1, x.dtype)


def symm_pad_1d_contract(it, l, m):
    ctx().require('symm_pad-pre', z3.And(I(l) >= 1, I(m) >= 0))
    return IArr((simp(I(l) + 2 * I(m)),), lambda k: EXT_SYM(simp(I(k[0]) - I(m)), I(l)), 1, 'int')


def roll_contract(it, x, n, dim, make_even=False):
    """circular shift by n along dim, for -len < n < len"""
    d = dim % x.ndim
    ln = x.shape[d]
    ctx().require('roll-pre:|n|<len', z3.And(I(n) > -I(ln), I(n) < I(ln)))
    if make_even:
        raise Unsupported('roll contract: make_even')
    xs = x.snap()

    def elem(idx):
        j = list(idx)
        k = simp(I(idx[d]) - I(n))
        return (xs(j[:d] + [simp(I(k) + I(ln))] + j[d + 1:]).guard(I(k) < 0) +
                xs(j[:d] + [k] + j[d + 1:]).guard(z3.And(I(k) >= 0, I(k) < I(ln))) +
                xs(j[:d] + [simp(I(k) - I(ln))] + j[d + 1:]).guard(I(k) >= I(ln)))
    return fresh_like(x.shape, elem, x)


def mypad_contract(it, x, pad, mode='constant', value=0):
    l, r, t, b = pad
    Bn, C, H, W = x.shape
    xs = x.snap()
    shape = (Bn, C, simp(I(H) + I(t) + I(b)), simp(I(W) + I(l) + I(r)))
    if mode in ('symmetric', 'periodic'):
        f = EXT_SYM if mode == 'symmetric' else WRAP

        def ex(k, n, p0, p1):
            if is_conc(simp(p0)) and is_conc(simp(p1)) and simp(p0) == 0 and simp(p1) == 0:
                return k
            return f(simp(I(k) - I(p0)), I(n))

        def elem(idx):
            n_, c_, i, j = idx
            return xs([n_, c_, ex(i, H, t, b), ex(j, W, l, r)])
        return fresh_like(shape, elem, x)
    if mode in ('constant', 'reflect', 'replicate'):
        return f_pad(x, pad, mode, value)
    if mode == 'zero':
        return f_pad(x, pad)
    raise Raised('ValueError', 'Unkown pad type')


def afb1d_contract(it, x, h0, h1, mode='zero', dim=-1):
    """out[n, 2c+b, .., i ..] = dwt1(x[n, c] along dim, dec = reverse(h_b), mode)[i]
    (PyWavelets' single-level analysis); reflect mode raises when pad >= size;
    periodization: requires even-extended length >= L (see known finding F1)."""
    c = ctx()
    if not (isinstance(x, STensor) and isinstance(h0, STensor) and isinstance(h1, STensor)):
        raise Unsupported('afb1d contract with array-like filters')
    if x.ndim != 4:
        raise Raised('RuntimeError', 'afb1d expects a 4-D input')
    d = dim % 4
    if d not in (2, 3):
        raise Unsupported('afb1d contract: dim must address a spatial axis')
    tap0, L = _tap_reader(h0, d)
    tap1, L1 = _tap_reader(h1, d)
    c.require('afb1d-pre:len(h0)==len(h1)', I(L) == I(L1))
    read, R, N = _axis_args(x, d)
    per = mode in ('per', 'periodization')
    if mode not in MODES5 + ('per',):
        raise Raised('ValueError', 'Unkown pad type')
    if mode == 'reflect':
        # torch reflect pad: raises unless pad < size
        p = simp(2 * (specs.dwt_len(bk, N, L, mode) - 1) - I(N) + I(L))
        ok = simp((I(p) + 1) / 2 < I(N))
        if c.decide(ok) is False:
            raise Raised('RuntimeError', 'Padding size should be less than the corresponding input dimension')
    if per:
        c.require('afb1d-pre:periodization-length>=L (F1)', I(N) + I(N) % 2 >= I(L))
    Lo = specs.dwt_len(bk, N, L, mode)
    Bn, C = x.shape[0], x.shape[1]

    def elem(idx):
        n_, oc, p_, q_ = idx
        i, r = (q_, p_) if d == 3 else (p_, q_)
        ch = simp(I(oc) / 2)
        band = simp(I(oc) % 2)
        out = ZERO
        for b_, tap in ((0, tap0), (1, tap1)):
            g = simp(band == b_)
            if g is False:
                continue
            f = specs.dwt1(bk, lambda j: read(n_, ch, r, j), N, lambda u: tap(simp(I(L) - 1 - I(u))), L, mode)
            out = out + lift(f(i)).guard(g)
        return out
    shape = (Bn, simp(2 * I(C)), R, Lo) if d == 3 else (Bn, simp(2 * I(C)), Lo, R)
    return fresh_like(shape, elem, x)


def sfb1d_contract(it, lo, hi, g0, g1, mode='zero', dim=-1):
    """y[n, c] = idwt1(lo[n,c], hi[n,c], rec = (g0, g1), mode) along dim"""
    c = ctx()
    if not all(isinstance(t, STensor) for t in (lo, hi, g0, g1)):
        raise Unsupported('sfb1d contract with array-like filters')
    d = dim % 4
    tap0, L = _tap_reader(g0, d)
    tap1, L1 = _tap_reader(g1, d)
    c.require('sfb1d-pre:len(g0)==len(g1)', I(L) == I(L1))
    for a_, b_ in zip(lo.shape, hi.shape):
        c.require('sfb1d-pre:lo/hi same shape', I(a_) == I(b_))
    rl, R, Nc = _axis_args(lo, d)
    rh, _, _ = _axis_args(hi, d)
    if mode not in MODES5 + ('per',):
        raise Raised('ValueError', 'Unkown pad type')
    per = mode in ('per', 'periodization')
    if per:
        c.require('sfb1d-pre:periodization 2*len>=L-2 (F1)', 2 * I(Nc) >= I(L) - 2)
        c.require('sfb1d-pre:periodization L>=2', I(L) >= 2)
    else:
        c.require('sfb1d-pre:output non-empty', 2 * I(Nc) - I(L) + 2 >= 1)
    No = specs.idwt_len(bk, Nc, L, mode)
    Bn, C = lo.shape[0], lo.shape[1]

    def elem(idx):
        n_, ch, p_, q_ = idx
        i, r = (q_, p_) if d == 3 else (p_, q_)
        f = specs.idwt1(bk, lambda k: rl(n_, ch, r, k), lambda k: rh(n_, ch, r, k), Nc, tap0, tap1, L, mode)
        return lift(f(i))
    shape = (Bn, C, R, No) if d == 3 else (Bn, C, No, R)
    return fresh_like(shape, elem, lo)


CONTRACTS = {
    'utils:reflect': reflect_contract,
    'utils:symm_pad_1d': symm_pad_1d_contract,
    'dwt.lowlevel:roll': roll_contract,
    'dwt.lowlevel:mypad': mypad_contract,
    'dwt.lowlevel:afb1d': afb1d_contract,
    'dwt.lowlevel:sfb1d': sfb1d_contract,
}


# ---------------------------------------------------------------------------
# generic arguments
# ---------------------------------------------------------------------------
def data_tensor(name, shape, **meta):
    m = dict(kind='torch', dtype=prims.DT_IN, contig=True)
    m.update(meta)
    t = STensor(shape, lambda idx, name=name: GS.atom(name, idx, True), meta=m)
    t.base.owner = 'arg:' + name
    return t


def filt_tensor(name, shape, axis, **meta):
    """filter tensor whose entry a along `axis` is the symbolic tap name[a]"""
    m = dict(kind='torch', dtype=prims.DT_IN, contig=True, name=name)
    m.update(meta)
    t = STensor(shape, lambda idx, name=name, axis=axis: GS.atom(name, [idx[axis]]), meta=m)
    t.base.owner = 'arg:' + name
    return t
