"""Contracts (pre/postconditions) for the DWT half of the library, in sidecar
form: keyed by the qualified name of the real function.  A contract is a python
function that, given the symbolic arguments, (1) emits PRE obligations and
(2) returns the value the postcondition prescribes (spec application).  The same
function serves callers (modular verification: callee replaced by contract) and
the verification of the callee itself (body result == contract result)."""
import z3
from .sym import *
from . import specs, prims
from .specbk import SymBk as bk
from .prims import EXT_SYM, WRAP

MODES5 = ('zero', 'symmetric', 'reflect', 'periodic', 'periodization')


def _axis_args(x, d):
    """(read(n,c,other,j), other-extent, axis-extent) along axis d of a 4-D tensor"""
    if d == 3:
        return (lambda n, c, r, j: x.at([n, c, r, j])), x.shape[2], x.shape[3]
    return (lambda n, c, r, j: x.at([n, c, j, r])), x.shape[3], x.shape[2]


def _tap_reader(h, d):
    """filters may arrive as (1,1,L,1), (1,1,1,L) or any shape with L elements:
    afb1d/sfb1d reshape them.  Returns (tap(a), L) in the tensor's own order."""
    L = h.numel()
    pos = [k for k, m in enumerate(h.shape) if not (is_conc(m) and m == 1)]
    if len(pos) > 1:
        raise Unsupported('filter tensor with more than one non-unit extent')

    def tap(a):
        idx = [0] * h.ndim
        if pos:
            idx[pos[0]] = a
        return h.at(idx)
    return tap, L


# ---------------------------------------------------------------------------
def reflect_contract(it, x, minx, maxx):
    """utils.reflect for the call pattern minx=-1/2, maxx=l-1/2:
    out[k] = ext_sym(x[k], l) (half-sample symmetric extension index)"""
    mn, mx = toQ(minx), toQ(maxx)
    if not (mn.den == 2 and is_conc(mn.num) and mn.num == -1 and mx.den == 2):
        raise Unsupported('reflect contract: only minx=-0.5, maxx=l-0.5')
    l = simp((I(mx.num) + 1) / 2)
    ctx().require('reflect-pre:l>=1', I(l) >= 1)
    if not isinstance(x, IArr) or x.den != 1:
        raise Unsupported('reflect contract: integer index array expected')
    return IArr(x.shape, lambda k: EXT_SYM(I(x.elem(k)), I(l)), 1, x.dtype)


def symm_pad_1d_contract(it, l, m):
    ctx().require('symm_pad-pre', z3.And(I(l) >= 1, I(m) >= 0))
    return IArr((simp(I(l) + 2 * I(m)),), lambda k: EXT_SYM(simp(I(k[0]) - I(m)), I(l)), 1, 'int')


def roll_contract(it, x, n, dim, make_even=False):
    """circular shift by n along dim, for -len < n < len"""
    d = dim % x.ndim
    ln = x.shape[d]
    ctx().require('roll-pre:|n|<len', z3.And(I(n) > -I(ln), I(n) < I(ln)))
    if make_even:
        raise Unsupported('roll contract: make_even')
    xs = x.snap()

    def elem(idx):
        j = list(idx)
        k = simp(I(idx[d]) - I(n))
        return (xs(j[:d] + [simp(I(k) + I(ln))] + j[d + 1:]).guard(I(k) < 0) +
                xs(j[:d] + [k] + j[d + 1:]).guard(z3.And(I(k) >= 0, I(k) < I(ln))) +
                xs(j[:d] + [simp(I(k) - I(ln))] + j[d + 1:]).guard(I(k) >= I(ln)))
    return fresh_like(x.shape, elem, x)


def mypad_contract(it, x, pad, mode='constant', value=0):
    l, r, t, b = pad
    Bn, C, H, W = x.shape
    xs = x.snap()
    shape = (Bn, C, simp(I(H) + I(t) + I(b)), simp(I(W) + I(l) + I(r)))
    if mode in ('symmetric', 'periodic'):
        f = EXT_SYM if mode == 'symmetric' else WRAP

        def ex(k, n, p0, p1):
            if is_conc(simp(p0)) and is_conc(simp(p1)) and simp(p0) == 0 and simp(p1) == 0:
                return k
            return f(simp(I(k) - I(p0)), I(n))

        def elem(idx):
            n_, c_, i, j = idx
            return xs([n_, c_, ex(i, H, t, b), ex(j, W, l, r)])
        return fresh_like(shape, elem, x)
    if mode in ('constant', 'reflect', 'replicate'):
        return f_pad(x, pad, mode, value)
    if mode == 'zero':
        return f_pad(x, pad)
    raise Raised('ValueError', 'Unkown pad type')


def afb1d_contract(it, x, h0, h1, mode='zero', dim=-1, f1_pre=True):
    """out[n, 2c+b, .., i ..] = dwt1(x[n, c] along dim, dec = reverse(h_b), mode)[i]
    (PyWavelets' single-level analysis); reflect mode raises when pad >= size;
    periodization: requires even-extended length >= L (see known finding F1)."""
    c = ctx()
    if not (isinstance(x, STensor) and isinstance(h0, STensor) and isinstance(h1, STensor)):
        raise Unsupported('afb1d contract with array-like filters')
    if x.ndim != 4:
        raise Raised('RuntimeError', 'afb1d expects a 4-D input')
    d = dim % 4
    if d not in (2, 3):
        raise Unsupported('afb1d contract: dim must address a spatial axis')
    tap0, L = _tap_reader(h0, d)
    tap1, L1 = _tap_reader(h1, d)
    c.require('afb1d-pre:len(h0)==len(h1)', I(L) == I(L1))
    read, R, N = _axis_args(x, d)
    per = mode in ('per', 'periodization')
    if mode not in MODES5 + ('per',):
        raise Raised('ValueError', 'Unkown pad type')
    if mode == 'reflect':
        # torch reflect pad: raises unless pad < size
        p = simp(2 * (specs.dwt_len(bk, N, L, mode) - 1) - I(N) + I(L))
        ok = simp((I(p) + 1) / 2 < I(N))
        if c.decide(ok) is False:
            raise Raised('RuntimeError', 'Padding size should be less than the corresponding input dimension')
    if per and f1_pre:
        c.require('afb1d-pre:periodization-length>=L (F1)', I(N) + I(N) % 2 >= I(L))
    Lo = specs.dwt_len(bk, N, L, mode)
    Bn, C = x.shape[0], x.shape[1]

    def elem(idx):
        n_, oc, p_, q_ = idx
        i, r = (q_, p_) if d == 3 else (p_, q_)
        ch = simp(I(oc) / 2)
        band = simp(I(oc) % 2)
        out = ZERO
        for b_, tap in ((0, tap0), (1, tap1)):
            g = simp(band == b_)
            if g is False:
                continue
            f = specs.dwt1(bk, lambda j: read(n_, ch, r, j), N, lambda u: tap(simp(I(L) - 1 - I(u))), L, mode)
            out = out + lift(f(i)).guard(g)
        return out
    shape = (Bn, simp(2 * I(C)), R, Lo) if d == 3 else (Bn, simp(2 * I(C)), Lo, R)
    return fresh_like(shape, elem, x)


def sfb1d_contract(it, lo, hi, g0, g1, mode='zero', dim=-1, f1_pre=True):
    """y[n, c] = idwt1(lo[n,c], hi[n,c], rec = (g0, g1), mode) along dim"""
    c = ctx()
    if not all(isinstance(t, STensor) for t in (lo, hi, g0, g1)):
        raise Unsupported('sfb1d contract with array-like filters')
    d = dim % 4
    tap0, L = _tap_reader(g0, d)
    tap1, L1 = _tap_reader(g1, d)
    c.require('sfb1d-pre:len(g0)==len(g1)', I(L) == I(L1))
    for a_, b_ in zip(lo.shape, hi.shape):
        c.require('sfb1d-pre:lo/hi same shape', I(a_) == I(b_))
    rl, R, Nc = _axis_args(lo, d)
    rh, _, _ = _axis_args(hi, d)
    if mode not in MODES5 + ('per',):
        raise Raised('ValueError', 'Unkown pad type')
    per = mode in ('per', 'periodization')
    if per:
        if f1_pre:
            c.require('sfb1d-pre:periodization 2*len>=L-2 (F1)', 2 * I(Nc) >= I(L) - 2)
        c.require('sfb1d-pre:periodization L>=2', I(L) >= 2)
    else:
        c.require('sfb1d-pre:output non-empty', 2 * I(Nc) - I(L) + 2 >= 1)
    No = specs.idwt_len(bk, Nc, L, mode)
    Bn, C = lo.shape[0], lo.shape[1]

    def elem(idx):
        n_, ch, p_, q_ = idx
        i, r = (q_, p_) if d == 3 else (p_, q_)
        f = specs.idwt1(bk, lambda k: rl(n_, ch, r, k), lambda k: rh(n_, ch, r, k), Nc, tap0, tap1, L, mode)
        return lift(f(i))
    shape = (Bn, C, R, No) if d == 3 else (Bn, C, No, R)
    return fresh_like(shape, elem, lo)


CONTRACTS = {
    'utils:reflect': reflect_contract,
    'utils:symm_pad_1d': symm_pad_1d_contract,
    'dwt.lowlevel:roll': roll_contract,
    'dwt.lowlevel:mypad': mypad_contract,
    'dwt.lowlevel:afb1d': afb1d_contract,
    'dwt.lowlevel:sfb1d': sfb1d_contract,
}


# ---------------------------------------------------------------------------
# generic arguments
# ---------------------------------------------------------------------------
def data_tensor(name, shape, **meta):
    m = dict(kind='torch', dtype=prims.DT_IN, contig=True)
    m.update(meta)
    t = STensor(shape, lambda idx, name=name: GS.atom(name, idx, True), meta=m)
    t.base.owner = 'arg:' + name
    return t


def filt_tensor(name, shape, axis, **meta):
    """filter tensor whose entry a along `axis` is the symbolic tap name[a]"""
    m = dict(kind='torch', dtype=prims.DT_IN, contig=True, name=name)
    m.update(meta)
    t = STensor(shape, lambda idx, name=name, axis=axis: GS.atom(name, [idx[axis]]), meta=m)
    t.base.owner = 'arg:' + name
    return t


# ---------------------------------------------------------------------------
# filter preparation
# ---------------------------------------------------------------------------
def np1d(name, L_):
    """array-like filter argument (numpy 1-D array / python list) of symbolic taps"""
    t = STensor((L_,), lambda idx, name=name: GS.atom(name, [idx[0]]), meta=dict(kind='np', dtype=prims.F64, name=name))
    t.base.owner = 'arg:' + name
    return t


def npcol(name, L_):
    """array-like filter argument given as an (L, 1) column array (the layout of the shipped DTCWT tables)"""
    t = STensor((L_, 1), lambda idx, name=name: GS.atom(name, [idx[0]]), meta=dict(kind='np', dtype=prims.F64, name=name))
    t.base.owner = 'arg:' + name
    return t


def _prepped(src, shape, axis, reverse, name=None):
    """tensor of `shape` whose entry a along `axis` is src[a] (or src[L-1-a])"""
    L_ = src.shape[0]
    ss = src.snap()

    def elem(idx):
        a = idx[axis]
        return ss([simp(I(L_) - 1 - I(a))]) if reverse else ss([a])
    return STensor(shape, elem, meta=dict(kind='torch', dtype=prims.DT_DEFAULT, contig=True,
                                          name=name or src.meta.get('name')))


def _flat(v):
    if isinstance(v, STensor):
        if v.ndim == 2 and is_conc(v.shape[1]) and v.shape[1] == 1:
            return tget(v, (slice(None), 0))           # an (L, 1) column array stands for its L taps
        if v.ndim != 1:
            raise Unsupported('filter argument of rank %d' % v.ndim)
        return v
    raise Unsupported('filter argument %r' % (v,))


def prep_filt_afb1d_contract(it, h0, h1, device=None):
    """analysis filters are time-reversed (conv2d correlates): out[0,0,a] = h[L-1-a];
    dtype = torch default dtype; fresh storage"""
    h0, h1 = _flat(h0), _flat(h1)
    return (_prepped(h0, (1, 1, h0.shape[0]), 2, True), _prepped(h1, (1, 1, h1.shape[0]), 2, True))


def prep_filt_sfb1d_contract(it, g0, g1, device=None):
    g0, g1 = _flat(g0), _flat(g1)
    return (_prepped(g0, (1, 1, g0.shape[0]), 2, False), _prepped(g1, (1, 1, g1.shape[0]), 2, False))


def _prep2d(rev):
    def contract(it, c0, c1, r0=None, r1=None, device=None):
        c0, c1 = _flat(c0), _flat(c1)
        if r0 is None:
            r0, r1 = c0, c1
        else:
            r0, r1 = _flat(r0), _flat(r1)
        return (_prepped(c0, (1, 1, c0.shape[0], 1), 2, rev), _prepped(c1, (1, 1, c1.shape[0], 1), 2, rev),
                _prepped(r0, (1, 1, 1, r0.shape[0]), 3, rev), _prepped(r1, (1, 1, 1, r1.shape[0]), 3, rev))
    return contract


prep_filt_afb2d_contract = _prep2d(True)
prep_filt_sfb2d_contract = _prep2d(False)

INT2MODE = {0: 'zero', 1: 'symmetric', 2: 'periodization', 3: 'constant', 4: 'reflect', 5: 'replicate', 6: 'periodic'}
MODE2INT = {v: k for k, v in INT2MODE.items()}
MODE2INT['per'] = 2


def mode_to_int_contract(it, mode):
    if mode not in MODE2INT:
        raise Raised('ValueError', 'Unkown pad type')
    return MODE2INT[mode]


def int_to_mode_contract(it, mode):
    if not is_conc(mode) or mode not in INT2MODE:
        raise Raised('ValueError', 'Unkown pad type')
    return INT2MODE[mode]


# ---------------------------------------------------------------------------
# one-level Functions
# ---------------------------------------------------------------------------
def _unsq(t):
    """(B,C,N) -> (B,C,1,N) view"""
    return tget(t, (slice(None), slice(None), None, slice(None)))


def AFB1D_apply_contract(it, x, h0, h1, mode):
    """(x0, x1)[n,c,i] = dwt1(x[n,c,:], dec=reverse(h_b), mode)[i]"""
    if x.ndim != 3:
        raise Raised('RuntimeError', 'AFB1D expects (N,C,L)')
    m = int_to_mode_contract(it, mode)
    lohi = afb1d_contract(it, _unsq(x), _unsq(h0), _unsq(h1), m, 3)
    ls = lohi.snap()
    Bn, C2, _, No = lohi.shape
    Cc = x.shape[1]
    x0 = fresh_like((Bn, Cc, No), lambda idx: ls([idx[0], simp(2 * I(idx[1])), 0, idx[2]]), x)
    x1 = fresh_like((Bn, Cc, No), lambda idx: ls([idx[0], simp(2 * I(idx[1]) + 1), 0, idx[2]]), x)
    return x0, x1


def SFB1D_apply_contract(it, low, high, g0, g1, mode):
    m = int_to_mode_contract(it, mode)
    ctx().require('SFB1D-pre:lowpass and highpass have the same dtype',
                  z3.BoolVal(low.meta.get('dtype') == high.meta.get('dtype')))
    y = sfb1d_contract(it, _unsq(low), _unsq(high), _unsq(g0), _unsq(g1), m, 3)
    ys = y.snap()
    return fresh_like((y.shape[0], y.shape[1], y.shape[3]), lambda idx: ys([idx[0], idx[1], 0, idx[2]]), low)


def dwt2_bands(it, x, h0_row, h1_row, h0_col, h1_col, mode):
    """4C-channel tensor y[n, 4c + 2a + b] = colband_b(rowband_a(x[n,c])): rows
    (axis -1) are filtered with the *_row filters, columns (axis -2) with *_col"""
    lohi = afb1d_contract(it, x, h0_row, h1_row, mode, 3)
    return afb1d_contract(it, lohi, h0_col, h1_col, mode, 2)


def AFB2D_apply_contract(it, x, h0_row, h1_row, h0_col, h1_col, mode):
    """low = LL; highs[:, :, 0..2] = (LH, HL, HH) = pywt's (cH, cV, cD):
    LH = lowpass along the width (row filters), highpass along the height"""
    m = int_to_mode_contract(it, mode)
    y = dwt2_bands(it, x, h0_row, h1_row, h0_col, h1_col, m)
    ys = y.snap()
    Bn, C4, Ho, Wo = y.shape
    Cc = x.shape[1]
    low = fresh_like((Bn, Cc, Ho, Wo), lambda idx: ys([idx[0], simp(4 * I(idx[1])), idx[2], idx[3]]), x)
    highs = fresh_like((Bn, Cc, 3, Ho, Wo),
                       lambda idx: ys([idx[0], simp(4 * I(idx[1]) + 1 + I(idx[2])), idx[3], idx[4]]), x)
    return low, highs


def SFB2D_apply_contract(it, low, highs, g0_row, g1_row, g0_col, g1_col, mode):
    m = int_to_mode_contract(it, mode)
    if highs.ndim != 5:
        raise Raised('RuntimeError', 'SFB2D expects highs of rank 5')
    ctx().require('SFB2D-pre:3 bands', I(highs.shape[2]) == 3)
    ctx().require('SFB2D-pre:lowpass and highpass have the same dtype',
                  z3.BoolVal(low.meta.get('dtype') == highs.meta.get('dtype')))
    lh, hl, hh = (tget(highs, (slice(None), slice(None), k)) for k in range(3))
    lo = sfb1d_contract(it, low, lh, g0_col, g1_col, m, 2)
    hi = sfb1d_contract(it, hl, hh, g0_col, g1_col, m, 2)
    return sfb1d_contract(it, lo, hi, g0_row, g1_row, m, 3)


def afb2d_contract(it, x, filts, mode='zero'):
    """functional one-level bank: tensor filters only (lists go through prep_filt_afb2d)"""
    if len(filts) == 2:
        h0, h1 = filts
        if not all(isinstance(f, STensor) and f.meta.get('kind') == 'torch' for f in filts):
            h0c, h1c, h0r, h1r = prep_filt_afb2d_contract(it, h0, h1)
        else:
            h0c, h1c, h0r, h1r = h0, h1, t_transpose(h0, 2, 3), t_transpose(h1, 2, 3)
    elif len(filts) == 4:
        if not all(isinstance(f, STensor) and f.meta.get('kind') == 'torch' for f in filts):
            h0c, h1c, h0r, h1r = prep_filt_afb2d_contract(it, *filts)
        else:
            h0c, h1c, h0r, h1r = filts
    else:
        raise Raised('ValueError', 'Unknown form for input filts')
    return dwt2_bands(it, x, h0r, h1r, h0c, h1c, mode)


def sfb2d_contract(it, ll, lh, hl, hh, filts, mode='zero'):
    if len(filts) == 2:
        g0, g1 = filts
        if not all(isinstance(f, STensor) and f.meta.get('kind') == 'torch' for f in filts):
            g0c, g1c, g0r, g1r = prep_filt_sfb2d_contract(it, g0, g1)
        else:
            g0c, g1c, g0r, g1r = g0, g1, t_transpose(g0, 2, 3), t_transpose(g1, 2, 3)
    elif len(filts) == 4:
        if not all(isinstance(f, STensor) and f.meta.get('kind') == 'torch' for f in filts):
            g0c, g1c, g0r, g1r = prep_filt_sfb2d_contract(it, *filts)
        else:
            g0c, g1c, g0r, g1r = filts
    else:
        raise Raised('ValueError', 'Unknown form for input filts')
    lo = sfb1d_contract(it, ll, lh, g0c, g1c, mode, 2)
    hi = sfb1d_contract(it, hl, hh, g0c, g1c, mode, 2)
    return sfb1d_contract(it, lo, hi, g0r, g1r, mode, 3)


CONTRACTS.update({
    'dwt.lowlevel:prep_filt_afb1d': prep_filt_afb1d_contract,
    'dwt.lowlevel:prep_filt_sfb1d': prep_filt_sfb1d_contract,
    'dwt.lowlevel:prep_filt_afb2d': prep_filt_afb2d_contract,
    'dwt.lowlevel:prep_filt_sfb2d': prep_filt_sfb2d_contract,
    'dwt.lowlevel:mode_to_int': mode_to_int_contract,
    'dwt.lowlevel:int_to_mode': int_to_mode_contract,
    'dwt.lowlevel:AFB1D.apply': AFB1D_apply_contract,
    'dwt.lowlevel:SFB1D.apply': SFB1D_apply_contract,
    'dwt.lowlevel:AFB2D.apply': AFB2D_apply_contract,
    'dwt.lowlevel:SFB2D.apply': SFB2D_apply_contract,
    'dwt.lowlevel:afb2d': afb2d_contract,
    'dwt.lowlevel:sfb2d': sfb2d_contract,
})


# ---------------------------------------------------------------------------
# property-level specs of one pyramid level (straight from the property
# statements: PyWavelets dwt/idwt with the wavelet's dec_* / rec_* filters)
# ---------------------------------------------------------------------------
def spec_level_1d(A, dec_lo, dec_hi, mode):
    """(cA, cD) = pywt.dwt(A[n,c,:], wavelet, mode) for a (B,C,N) tensor"""
    Bn, Cc, N_ = A.shape
    L_ = dec_lo.shape[0]
    No = specs.dwt_len(bk, N_, L_, mode)
    rd = A.snap()

    def band(f):
        fs = f.snap()

        def elem(idx):
            n_, c_, i = idx
            return lift(specs.dwt1(bk, lambda j: rd([n_, c_, j]), N_, lambda u: fs([u]), L_, mode)(i))
        return fresh_like((Bn, Cc, No), elem, A)
    return band(dec_lo), band(dec_hi)


def spec_level_2d(A, col, row, mode):
    """pywt.dwt2(A, (wavelet_col, wavelet_row), mode, axes=(-2,-1)):
    returns (cA, stack(cH, cV, cD)) ; cH = approximation along the width (axis -1)
    and detail along the height (axis -2)"""
    Bn, Cc, H_, W_ = A.shape
    Lc, Lr_ = col[0].shape[0], row[0].shape[0]
    Ho = specs.dwt_len(bk, H_, Lc, mode)
    Wo = specs.dwt_len(bk, W_, Lr_, mode)
    rd = A.snap()

    def band(a_row, b_col):
        fr = row[a_row].snap()
        fc = col[b_col].snap()

        def at(n_, c_, i, j):
            def rowfilt(r):      # filtered along the width at row r, output column j
                return lift(specs.dwt1(bk, lambda q: rd([n_, c_, r, q]), W_, lambda u: fr([u]), Lr_, mode)(j))
            return lift(specs.dwt1(bk, rowfilt, H_, lambda u: fc([u]), Lc, mode)(i))
        return at
    ll = band(0, 0)
    hs = [band(0, 1), band(1, 0), band(1, 1)]     # cH, cV, cD
    low = fresh_like((Bn, Cc, Ho, Wo), lambda idx: ll(*idx), A)

    def helem(idx):
        n_, c_, k, i, j = idx
        out = ZERO
        for kk in range(3):
            g = simp(I(k) == kk)
            if g is False:
                continue
            out = out + hs[kk](n_, c_, i, j).guard(g)
        return out
    highs = fresh_like((Bn, Cc, 3, Ho, Wo), helem, A)
    return low, highs


def spec_inv_level_1d(R, D, rec_lo, rec_hi, mode):
    """pywt.idwt(cA, cD, wavelet, mode) along the last axis of (B,C,N) tensors"""
    Bn, Cc, Nc = R.shape
    L_ = rec_lo.shape[0]
    No = specs.idwt_len(bk, Nc, L_, mode)
    rl, rh = R.snap(), D.snap()
    f0, f1 = rec_lo.snap(), rec_hi.snap()

    def elem(idx):
        n_, c_, i = idx
        return lift(specs.idwt1(bk, lambda k: rl([n_, c_, k]), lambda k: rh([n_, c_, k]), Nc,
                                lambda v: f0([v]), lambda v: f1([v]), L_, mode)(i))
    return fresh_like((Bn, Cc, No), elem, R)


def spec_inv_level_2d(LL, HS, col, row, mode):
    """pywt.idwt2((cA, (cH, cV, cD)), (wavelet_col, wavelet_row), mode)"""
    Bn, Cc, Hc, Wc = LL.shape
    Lc, Lr_ = col[0].shape[0], row[0].shape[0]
    Ho = specs.idwt_len(bk, Hc, Lc, mode)
    Wo = specs.idwt_len(bk, Wc, Lr_, mode)
    ll, hs = LL.snap(), HS.snap()
    c0, c1 = col[0].snap(), col[1].snap()
    r0, r1 = row[0].snap(), row[1].snap()

    def elem(idx):
        n_, c_, i, j = idx

        def colsyn(lo_at, hi_at):
            # synthesis along the height at output row i, coefficient column q
            return lambda q: lift(specs.idwt1(bk, lambda k: lo_at(k, q), lambda k: hi_at(k, q), Hc,
                                              lambda v: c0([v]), lambda v: c1([v]), Lc, mode)(i))
        lo = colsyn(lambda k, q: ll([n_, c_, k, q]), lambda k, q: hs([n_, c_, 0, k, q]))      # cA , cH
        hi = colsyn(lambda k, q: hs([n_, c_, 1, k, q]), lambda k, q: hs([n_, c_, 2, k, q]))   # cV , cD
        return lift(specs.idwt1(bk, lo, hi, Wc, lambda v: r0([v]), lambda v: r1([v]), Lr_, mode)(j))
    return fresh_like((Bn, Cc, Ho, Wo), elem, LL)


def wavelet_obj(prefix='', Lc=None, with_rec=True):
    """pywt.Wavelet stand-in with symbolic dec_lo/dec_hi/rec_lo/rec_hi of length Lc"""
    from .interp import SObj
    w = SObj(None)
    w.a['__wavelet__'] = True
    for nm in ('dec_lo', 'dec_hi', 'rec_lo', 'rec_hi'):
        w.a[nm] = np1d(prefix + nm, Lc)
    return w


# ---------------------------------------------------------------------------
# non-separable one-level bank
# ---------------------------------------------------------------------------
def _prep_nonsep(flip):
    def contract(it, c0, c1, r0=None, r1=None, device=None):
        """filts[band, 0, a, q] = f_col[band][a'] * f_row[band][q'] with bands
        (ll, lh, hl, hh) = (c0 r0, c1 r0, c0 r1, c1 r1); analysis: a' = Ly-1-a, q' = Lx-1-q"""
        c0, c1 = _flat(c0), _flat(c1)
        if r0 is None:
            r0 = c0
        else:
            r0 = _flat(r0)
        if r1 is None:
            r1 = c1
        else:
            r1 = _flat(r1)
        Ly, Lx = c0.shape[0], r0.shape[0]
        ctx().require('prep-nonsep-pre:equal column lengths', I(c1.shape[0]) == I(Ly))
        ctx().require('prep-nonsep-pre:equal row lengths', I(r1.shape[0]) == I(Lx))
        cs = [c0.snap(), c1.snap()]
        rs = [r0.snap(), r1.snap()]
        pairs = [(0, 0), (1, 0), (0, 1), (1, 1)]

        def elem(idx):
            b_, _, a, q = idx
            ai = simp(I(Ly) - 1 - I(a)) if flip else a
            qi = simp(I(Lx) - 1 - I(q)) if flip else q
            out = ZERO
            for k, (ci, ri) in enumerate(pairs):
                g = simp(I(b_) == k)
                if g is False:
                    continue
                out = out + (cs[ci]([ai]) * rs[ri]([qi])).guard(g)
            return out
        return STensor((4, 1, Ly, Lx), elem, meta=dict(kind='torch', dtype=prims.DT_DEFAULT, contig=True))
    return contract


prep_filt_afb2d_nonsep_contract = _prep_nonsep(True)
prep_filt_sfb2d_nonsep_contract = _prep_nonsep(False)
CONTRACTS['dwt.lowlevel:prep_filt_afb2d_nonsep'] = prep_filt_afb2d_nonsep_contract
CONTRACTS['dwt.lowlevel:prep_filt_sfb2d_nonsep'] = prep_filt_sfb2d_nonsep_contract


# ---------------------------------------------------------------------------
# LEMMA: closed form of synthesis-after-analysis (spec level, symbolic taps)
#   idwt(dwt(x))[n] = sum_{u,v} (dec_lo[u] rec_lo[v] + dec_hi[u] rec_hi[v]) [parity(n,v)] x_ext[n + L-1-u-v]
# Together with the TABLE fact  Phi_c(d) = delta(d)  (cbv/tables.py) this is perfect
# reconstruction on the original extent, for every extension mode.
# ---------------------------------------------------------------------------
def _pr_axis(read, Nn, w, mode):
    """returns f(n) = closed form along one axis; read(j) reads the signal"""
    L_ = w.a['dec_lo'].shape[0]
    dl, dh = w.a['dec_lo'].snap(), w.a['dec_hi'].snap()
    rl, rh = w.a['rec_lo'].snap(), w.a['rec_hi'].snap()
    per = mode in ('per', 'periodization')
    Ne = simp(I(Nn) + I(Nn) % 2)

    def f(n):
        def over_v(v):
            par = bk.mod(n + bk.div(L_, 2) - 1 - v, 2) == 0 if per else bk.mod(n + L_ - 2 - v, 2) == 0

            def over_u(u):
                k = n + L_ - 1 - v - u
                if per:
                    j = bk.wrap(k, Ne)
                    xv = bk.when(j < Nn, lambda: read(j)) + bk.when(bk.and_(j >= Nn, j < Ne), lambda: read(Nn - 1))
                else:
                    xv = ZERO
                    for cond, idx in specs.ext_alts(bk, mode, k, Nn):
                        xv = xv + bk.when(cond, lambda idx=idx: read(idx))
                return (dl([u]) * rl([v]) + dh([u]) * rh([v])) * xv
            return bk.when(par, lambda: bk.sum(0, L_, over_u))
        return bk.sum(0, L_, over_v)
    return f


def pr_closed_form_1d(A, w, mode):
    Bn, Cc, Nn = A.shape
    rd = A.snap()
    return fresh_like((Bn, Cc, Nn), lambda idx: lift(_pr_axis(lambda j: rd([idx[0], idx[1], j]), Nn, w, mode)(idx[2])), A)


def pr_closed_form_2d(A, wcol, wrow, mode):
    Bn, Cc, Hh, Ww = A.shape
    rd = A.snap()

    def elem(idx):
        n_, c_, i, j = idx

        def rowsig(r):
            return lift(_pr_axis(lambda q: rd([n_, c_, r, q]), Ww, wrow, mode)(j))
        return lift(_pr_axis(rowsig, Hh, wcol, mode)(i))
    return fresh_like((Bn, Cc, Hh, Ww), elem, A)


# ---------------------------------------------------------------------------
# stationary (undecimated) transform
# ---------------------------------------------------------------------------
def afb1d_atrous_contract(it, x, h0, h1, mode='periodic', dim=-1, dilation=1):
    """out[n, 2c+b, .., i ..] = sum_u dec_b[u] x[n, c, .., (i + d*L/2 - d*u) mod N ..]  (dec = reverse(h)),
    same extent as the input: one level of pywt.swt with the filters dilated by d.  Only the
    circular extension ('periodic') is the stationary transform; mypad rejects 'periodization'."""
    c = ctx()
    if mode != 'periodic':
        if mode in ('zero', 'symmetric', 'reflect', 'constant', 'replicate'):
            raise Unsupported('afb1d_atrous contract: only the periodic extension is specified')
        raise Raised('ValueError', 'Unkown pad type')
    if not is_conc(simp(dilation)):
        raise Unsupported('symbolic dilation')
    if x.ndim != 4:
        raise Raised('RuntimeError', 'afb1d_atrous expects a 4-D input, got rank %d' % x.ndim)
    dl = simp(dilation)
    d = dim % 4
    tap0, L_ = _tap_reader(h0, d)
    tap1, L1 = _tap_reader(h1, d)
    c.require('afb1d_atrous-pre:len(h0)==len(h1)', I(L_) == I(L1))
    read, R, Nn = _axis_args(x, d)
    Bn, Cc = x.shape[0], x.shape[1]

    def elem(idx):
        n_, oc, p_, q_ = idx
        i, r = (q_, p_) if d == 3 else (p_, q_)
        ch = simp(I(oc) / 2)
        band = simp(I(oc) % 2)
        out = ZERO
        for b_, tap in ((0, tap0), (1, tap1)):
            g = simp(band == b_)
            if g is False:
                continue
            f = specs.swt1(bk, lambda j: read(n_, ch, r, j), Nn, lambda u: tap(simp(I(L_) - 1 - I(u))), L_, dl)
            out = out + lift(f(i)).guard(g)
        return out
    shape = (Bn, simp(2 * I(Cc)), x.shape[2], x.shape[3])
    return fresh_like(shape, elem, x)


def afb2d_atrous_contract(it, x, filts, mode='periodization', dilation=1):
    if len(filts) != 4 or not all(isinstance(f, STensor) and f.meta.get('kind') == 'torch' for f in filts):
        raise Unsupported('afb2d_atrous contract: four prepared filter tensors')
    h0c, h1c, h0r, h1r = filts
    lohi = afb1d_atrous_contract(it, x, h0r, h1r, mode, 3, dilation)
    return afb1d_atrous_contract(it, lohi, h0c, h1c, mode, 2, dilation)


def spec_swt_level_2d(A, col, row, d):
    """one level of pywt.swt2 (filters dilated by d, periodic boundary): (N,C,4,H,W) with bands (A, H, V, D)"""
    Bn, Cc, Hh, Ww = A.shape
    Lc, Lr_ = col[0].shape[0], row[0].shape[0]
    rd = A.snap()
    fs = {('c', 0): col[0].snap(), ('c', 1): col[1].snap(), ('r', 0): row[0].snap(), ('r', 1): row[1].snap()}

    def band(a_row, b_col):
        def at(n_, c_, i, j):
            def rowfilt(r):
                return lift(specs.swt1(bk, lambda q: rd([n_, c_, r, q]), Ww, lambda u: fs[('r', a_row)]([u]), Lr_, d)(j))
            return lift(specs.swt1(bk, rowfilt, Hh, lambda u: fs[('c', b_col)]([u]), Lc, d)(i))
        return at
    bands = [band(0, 0), band(0, 1), band(1, 0), band(1, 1)]

    def elem(idx):
        n_, c_, k, i, j = idx
        out = ZERO
        for kk in range(4):
            g = simp(I(k) == kk)
            if g is False:
                continue
            out = out + bands[kk](n_, c_, i, j).guard(g)
        return out
    return fresh_like((Bn, Cc, 4, Hh, Ww), elem, A)


CONTRACTS['dwt.lowlevel:afb1d_atrous'] = afb1d_atrous_contract
CONTRACTS['dwt.lowlevel:afb2d_atrous'] = afb2d_atrous_contract
