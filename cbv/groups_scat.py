"""Scattering layers (scatternet/lowlevel.py, scatternet/layers.py): term-mode obligations.

The DTCWT stages are replaced by contracts that return NAMED uninterpreted tensors (LL, RE, IM = the outputs of
fwd_j1 / fwd_j2plus, whose equality with the reference transform is C03); the non-linear part - smoothed magnitudes,
pooling, channel bookkeeping, and the hand-written backward - is executed from the real source on z3 Real terms."""
import z3
from .sym import *
from . import contracts_dwt as CD, contracts_dtcwt as CT, verify, solve, prims
from .solve import Ob
from .interp import Interp, explore, SObj, RepoClass
from .groups_dwt import _fctx

Bn, C, H, W = z3.Ints('B C H W')
bias = z3.Real('bias')
MV = [Bn, C, H, W]
SL = 'scatternet.lowlevel'
_uf = {}


def UF(name, arity):
    k = (name, arity)
    if k not in _uf:
        _uf[k] = z3.Function(name, *([z3.IntSort()] * arity + [z3.RealSort()]))
    return _uf[k]


def term_tensor(name, shape, tangent=None, **meta):
    f = UF(name, len(shape))
    m = dict(kind='torch', dtype=prims.DT_IN, contig=True)
    m.update(meta)

    def elem(idx):
        return TV(f(*[I(i) for i in idx]), tangent(idx) if tangent else None)
    t = STensor(tuple(shape), elem, meta=m)
    t.base.owner = 'arg:' + name
    return t


class Rec:
    def __init__(s):
        s.calls = []


def stage_contracts(rec):
    """fwd_j1 / inv_j1 (and _rot) as named uninterpreted stages"""
    def fwd(tag, nfilt):
        def c(it, x, *a):
            filts, (skip, o_dim, mode) = a[:nfilt], a[nfilt:]
            k = len(rec.calls)
            Bq, Cq, Hq, Wq = x.shape
            half = (simp(I(Hq) / 2), simp(I(Wq) / 2)) if tag == 'fwd_j1' else (simp(I(Hq) / 4), simp(I(Wq) / 4))
            llshape = (Bq, Cq, Hq, Wq) if tag == 'fwd_j1' else (Bq, Cq, simp(I(Hq) / 2), simp(I(Wq) / 2))
            hs = [Bq, Cq, half[0], half[1]]
            hs.insert(o_dim, 6)
            ll = term_tensor('LL%d' % k, llshape)
            re = term_tensor('RE%d' % k, tuple(hs))
            im = term_tensor('IM%d' % k, tuple(hs))
            rec.calls.append((tag, x, filts, skip, o_dim, mode, (ll, re, im)))
            return ll, re, im
        return c

    def inv(tag, nfilt):
        def c(it, ll, hr, hi, *a):
            filts, (o_dim, h_dim, w_dim, mode) = a[:nfilt], a[nfilt:]
            k = len(rec.calls)
            if tag == 'inv_j1':
                shape = ll.shape
            else:
                shape = (ll.shape[0], ll.shape[1], simp(2 * I(ll.shape[2])), simp(2 * I(ll.shape[3])))
            out = term_tensor('DX%d' % k, shape)
            rec.calls.append((tag, (ll, hr, hi), filts, o_dim, h_dim, w_dim, mode, out))
            return out
        return c
    TFk = 'dtcwt.transform_funcs'
    return {TFk + ':fwd_j1': fwd('fwd_j1', 2), TFk + ':fwd_j1_rot': fwd('fwd_j1', 3),
            TFk + ':fwd_j2plus': fwd('fwd_j2plus', 4), TFk + ':fwd_j2plus_rot': fwd('fwd_j2plus', 6),
            TFk + ':inv_j1': inv('inv_j1', 2), TFk + ':inv_j1_rot': inv('inv_j1', 3),
            TFk + ':inv_j2plus': inv('inv_j2plus', 4), TFk + ':inv_j2plus_rot': inv('inv_j2plus', 6)}


def sqrt_axioms(fs):
    """defining facts of sqrt at every application occurring in the formulas: sqrt(u) >= 0, sqrt(u)^2 = u for u >= 0"""
    ax = []
    seen = set()
    stack = list(fs)
    while stack:
        e = stack.pop()
        if e.get_id() in seen:
            continue
        seen.add(e.get_id())
        if z3.is_app(e):
            if e.decl().name() == 'sqrt' and e.num_args() == 1:
                u = e.arg(0)
                ax += [z3.Implies(u >= 0, z3.And(e >= 0, e * e == u)), z3.Implies(u > 0, e > 0)]
            stack.extend(e.children())
    return ax


def prove_terms(oid, kind, pc, a, b, extra=()):
    """a == b for term-mode values, with the sqrt axioms instantiated"""
    a, b = TV.of(a), TV.of(b)
    goal = a.e == b.e
    fs = list(pc) + list(extra)
    ob = solve.prove(oid, kind, fs + sqrt_axioms([goal] + [B(f) for f in fs]), goal, MV)
    return ob


def mag(re, im, b):
    """smoothed magnitude sqrt(re^2 + im^2 + b^2) - b"""
    return tv_sqrt(re * re + im * im + TV.of(b) * TV.of(b)) - b


def g_mag_derivative(colour=False):
    """LEMMA: d/d re_k (sqrt(sum_c re_c^2 + im_c^2 + b^2) - b) = re_k / sqrt(...), same for im (forward-mode tangent
    of the formula the forward evaluates, against the factor the backward multiplies with); finite for b > 0"""
    n = 3 if colour else 1
    obs = []
    b = z3.Real('b')
    for which in ('re', 'im'):
        for k in range(n):
            res = [TV(z3.Real('re%d' % c), z3.RealVal(1 if (which == 're' and c == k) else 0)) for c in range(n)]
            ims = [TV(z3.Real('im%d' % c), z3.RealVal(1 if (which == 'im' and c == k) else 0)) for c in range(n)]
            u = TV(b, z3.RealVal(0)) * TV(b, z3.RealVal(0))
            for c in range(n):
                u = u + res[c] * res[c] + ims[c] * ims[c]
            r = tv_sqrt(u)
            z = r - TV(b, z3.RealVal(0))
            want = (res[k] if which == 're' else ims[k]).e / r.e
            goal = z.d == want
            ax = sqrt_axioms([goal])
            obs.append(solve.prove('LEMMA/d(smooth-magnitude)/d%s[%d]%s' % (which, k, ',colour' if colour else ''), 'LEMMA',
                                   [b > 0] + ax, goal, []))
            obs.append(solve.prove('LEMMA/gradient-factor-bounded-by-1[%s,%d]%s' % (which, k, ',colour' if colour else ''), 'LEMMA',
                                   [b > 0] + ax, z3.And(want * want <= 1, r.e > 0), []))
    return obs, {}


def g_avgpool_adjoint():
    """LEMMA: the transpose of 2x2 average pooling is 1/4 * nearest-neighbour upsampling by 2 (kernel mode)"""
    from . import adjoint as ADJ
    CUR.ctx = Ctx([Bn >= 1, C >= 1, H >= 1, W >= 1])
    c = ctx()
    x = CD.data_tensor('x', (Bn, C, 2 * H, 2 * W))
    y = f_avg_pool2d(x, 2)
    g = CD.data_tensor('g0', y.shape)
    up = f_interpolate(g, scale_factor=2, mode='nearest')
    back = t_bin('*', up, 0.25)
    return ADJ.adjoint_obs('LEMMA/avg_pool2d^T==0.25*upsample', [y], ['g0'], back, 'x', c.pc, MV, kind='LEMMA'), {}


def g_scat_j1(rot, colour, requires_grad=True, canary=False):
    """ScatLayerj1_f / ScatLayerj1_rot_f: real forward and real backward.
    forward  (C08): Z = cat(avgpool2(LL)[:, None], sqrt(RE^2 + IM^2 + b^2) - b)        (band-major: N, 7, C, H/2, W/2)
                    colour: Z = cat(avgpool2(LL) (3 ch), sqrt(sum_c RE_c^2 + IM_c^2 + b^2) - b (6 ch))
    backward (C09): dX = inv_j1(1/4 upsample(dZ_lowpass), dZ_mag * RE / r, dZ_mag * IM / r; the ANALYSIS filters)
                    = fwd_j1^T applied to the true cotangents of (LL, RE, IM) (lemmas + C06)"""
    cls = 'ScatLayerj1_rot_f' if rot else 'ScatLayerj1_f'
    oid = '%s[colour=%s,requires_grad=%s]' % (cls, colour, requires_grad)
    Cc = 3 if colour else C
    base = [Bn >= 1, C >= 1, H >= 1, W >= 1, bias >= 0]

    def run():
        rec = Rec()
        callees = stage_contracts(rec)
        it = Interp(contracts=callees)
        x = term_tensor('x', (Bn, Cc, 2 * H, 2 * W), requires_grad=requires_grad)
        filts = [CT.dt_filter('h0o', z3.Int('m0')), CT.dt_filter('h1o', z3.Int('m1'))] + ([CT.dt_filter('h2o', z3.Int('m2'))] if rot else [])
        fc = _fctx((requires_grad,) + (False,) * (len(filts) + 3))
        Z = it.call(SL, cls + '.forward', [fc, x] + filts + [1, TV(bias), colour], {})
        dZ = term_tensor('dZ', Z.shape)
        grads = it.call(SL, cls + '.backward', [fc, dZ], {}) if requires_grad else None
        return rec, x, filts, Z, dZ, grads
    obs = []
    info = {'paths': 0}
    for k, (c, res) in enumerate(explore(run, base)):
        CUR.ctx = c
        if c.solver.check() == z3.unsat:
            continue
        pid = '%s/path%d' % (oid, k)
        info['paths'] += 1
        if res[0] == 'raise':
            obs.append(Ob(pid + '/unexpected-raise', 'POST', 'refuted', 'path', 0, {'what': '%s: %s' % (res[1].kind, res[1].msg), 'model': {}}))
            continue
        rec, x, filts, Z, dZ, grads = res[1]
        fcalls = [q for q in rec.calls if q[0] == 'fwd_j1']
        ok = len(fcalls) == 1 and fcalls[0][1] is x and all(a is b for a, b in zip(fcalls[0][2], filts)) and \
            fcalls[0][3] is False and fcalls[0][4] == 1 and fcalls[0][5] == 'symmetric'
        obs.append(Ob(pid + '/PRE[one level-1 DTCWT of the input, all bands, orientations on axis 1, given filters and mode]', 'PRE',
                      'proved' if ok else 'refuted', 'structural', 0))
        if not ok:
            continue
        LLt, REt, IMt = fcalls[0][6]
        lls, res_, ims = LLt.snap(), REt.snap(), IMt.snap()
        b = TV(bias)
        shift = 1 if canary else 0

        def zspec(idx):
            if colour:
                n_, ch, i, j = idx
                low = (lls([n_, ch, 2 * I(i), 2 * I(j)]) + lls([n_, ch, 2 * I(i) + 1, 2 * I(j)]) + lls([n_, ch, 2 * I(i), 2 * I(j) + 1]) +
                       lls([n_, ch, 2 * I(i) + 1, 2 * I(j) + 1])) * Fr(1, 4)
                o = simp(I(ch) - 3 + shift)
                u = b * b
                for cc in range(3):
                    u = u + res_([n_, o, cc, i, j]) * res_([n_, o, cc, i, j]) + ims([n_, o, cc, i, j]) * ims([n_, o, cc, i, j])
                return low.guard(I(ch) < 3) + (tv_sqrt(u) - b).guard(I(ch) >= 3)
            n_, kk, ch, i, j = idx
            low = (lls([n_, ch, 2 * I(i), 2 * I(j)]) + lls([n_, ch, 2 * I(i) + 1, 2 * I(j)]) + lls([n_, ch, 2 * I(i), 2 * I(j) + 1]) +
                   lls([n_, ch, 2 * I(i) + 1, 2 * I(j) + 1])) * Fr(1, 4)
            o = simp(I(kk) - 1 + shift)
            return low.guard(I(kk) == 0) + mag(res_([n_, o, ch, i, j]), ims([n_, o, ch, i, j]), b).guard(I(kk) >= 1)
        zshape = (Bn, 9, H, W) if colour else (Bn, 7, C, H, W)
        want = STensor(zshape, zspec, meta=dict(kind='torch', dtype=prims.DT_IN))
        obs.append(solve.prove(pid + '/POST[Z]/shape', 'POST', c.pc, z3.And(Z.ndim == len(zshape), *[I(a) == I(q) for a, q in zip(Z.shape, zshape)]), MV))
        idx = [z3.Int('P%d' % q) for q in range(len(zshape))]
        rng = [z3.And(i >= 0, i < I(n)) for i, n in zip(idx, zshape)]
        obs.append(prove_terms(pid + '/POST[Z = (pooled lowpass, smoothed magnitudes), band-major]', 'POST', list(c.pc) + rng, Z.at(idx), want.at(idx)))
        # non-negativity of the magnitude channels
        zv = TV.of(want.at(idx))
        magrng = [idx[1] >= 3] if colour else [idx[1] >= 1]
        fs = list(c.pc) + rng + magrng
        obs.append(solve.prove(pid + '/POST[magnitude channels are non-negative]', 'POST', fs + sqrt_axioms([zv.e >= 0]) + [bias >= 0],
                               TV.of(Z.at(idx)).e >= 0, MV))
        if not requires_grad:
            continue
        # ---- backward
        ok = isinstance(grads, tuple) and all(g is None for g in grads[1:])
        obs.append(Ob(pid + '/POST[backward returns a gradient for x only]', 'POST', 'proved' if ok else 'refuted', 'structural', 0))
        icalls = [q for q in rec.calls if q[0] == 'inv_j1']
        ok = len(icalls) == 1 and grads[0] is icalls[0][7] and all(a is q for a, q in zip(icalls[0][2], filts)) and \
            (icalls[0][3], icalls[0][4], icalls[0][5], icalls[0][6]) == (1, 3, 4, 'symmetric')
        obs.append(Ob(pid + '/POST[dX = inv_j1(cotangents; the analysis filters, orientations on axis 1)] (== fwd_j1^T by C06)', 'POST',
                      'proved' if ok else 'refuted', 'structural', 0))
        if not ok:
            continue
        cl, cr, ci = icalls[0][1]
        dz = dZ.snap()
        # true cotangents of (LL, RE, IM):  LEMMAs avg_pool^T and d(mag)
        i4 = [z3.Int('Q%d' % q) for q in range(4)]
        r4 = [z3.And(i >= 0, i < I(n)) for i, n in zip(i4, LLt.shape)]
        n_, ch, ii, jj = i4
        lowc = dz([n_, ch, simp(I(ii) / 2), simp(I(jj) / 2)]) if colour else dz([n_, 0, ch, simp(I(ii) / 2), simp(I(jj) / 2)])
        obs.append(solve.prove(pid + '/backward/lowpass-cotangent/shape', 'POST', c.pc, z3.And(*[I(a) == I(q) for a, q in zip(cl.shape, LLt.shape)]), MV))
        obs.append(prove_terms(pid + '/backward/lowpass-cotangent == 1/4 upsample(dZ_low)', 'POST', list(c.pc) + r4, cl.at(i4), lowc * Fr(1, 4)))
        i5 = [z3.Int('R%d' % q) for q in range(5)]
        r5 = [z3.And(i >= 0, i < I(n)) for i, n in zip(i5, REt.shape)]
        n_, o, ch, ii, jj = i5
        if colour:
            u = b * b
            for cc in range(3):
                u = u + res_([n_, o, cc, ii, jj]) * res_([n_, o, cc, ii, jj]) + ims([n_, o, cc, ii, jj]) * ims([n_, o, cc, ii, jj])
            r = tv_sqrt(u)
            dm = dz([n_, simp(I(o) + 3), ii, jj])
        else:
            r = tv_sqrt(res_(i5) * res_(i5) + ims(i5) * ims(i5) + b * b)
            dm = dz([n_, simp(I(o) + 1), ch, ii, jj])
        for nm, t, src in (('real', cr, res_), ('imag', ci, ims)):
            obs.append(solve.prove(pid + '/backward/%s-cotangent/shape' % nm, 'POST', c.pc, z3.And(*[I(a) == I(q) for a, q in zip(t.shape, REt.shape)]), MV))
            obs.append(prove_terms(pid + '/backward/%s-cotangent == dZ_mag * %s / r' % (nm, nm), 'POST', list(c.pc) + r5 + [bias > 0],
                                   t.at(i5), dm * (src(i5) / r)))
    return obs, info


def g_smoothmag(needs):
    """SmoothMagFn: forward r - b; backward (dr * x/r, dr * y/r) for every subset of inputs requiring grad"""
    oid = 'SmoothMagFn[needs=%s]' % ''.join('T' if q else 'F' for q in needs)
    base = [Bn >= 1, C >= 1, bias > 0]

    def run():
        it = Interp()
        x = term_tensor('x', (Bn, C), requires_grad=needs[0])
        y = term_tensor('y', (Bn, C), requires_grad=needs[1])
        fc = _fctx(tuple(needs) + (False,))
        out = it.call(SL, 'SmoothMagFn.forward', [fc, x, y, TV(bias)], {})
        dr = term_tensor('dr', (Bn, C))
        grads = it.call(SL, 'SmoothMagFn.backward', [fc, dr], {})
        return x, y, out, dr, grads
    obs = []
    for k, (c, res) in enumerate(explore(run, base)):
        CUR.ctx = c
        pid = '%s/path%d' % (oid, k)
        if res[0] == 'raise':
            obs.append(Ob(pid + '/unexpected-raise', 'POST', 'refuted', 'path', 0,
                          {'what': '%s: %s' % (res[1].kind, res[1].msg), 'model': {}}))
            continue
        x, y, out, dr, grads = res[1]
        idx = [z3.Int('P0'), z3.Int('P1')]
        rng = [idx[0] >= 0, idx[0] < Bn, idx[1] >= 0, idx[1] < C]
        xv, yv = x.at(idx), y.at(idx)
        b = TV(bias)
        r = tv_sqrt(xv * xv + yv * yv + b * b)
        obs.append(prove_terms(pid + '/POST[forward]', 'POST', list(c.pc) + rng, out.at(idx), r - b))
        for slot, (need, v) in enumerate(zip(needs, (xv, yv))):
            if not need:
                continue
            g = grads[slot] if isinstance(grads, tuple) and len(grads) > slot else None
            if g is None:
                obs.append(Ob('%s/slot%d-is-None-although-it-requires-grad' % (pid, slot), 'POST', 'refuted', 'structural', 0, {'model': {}}))
                continue
            obs.append(prove_terms('%s/slot%d == dr * d(mag)/d(input)' % (pid, slot), 'POST', list(c.pc) + rng, g.at(idx), dr.at(idx) * (v / r)))
    return obs, {}


# ---------------------------------------------------------------------------
# second-order layer and the modules
# ---------------------------------------------------------------------------
def _pool(t):
    ts = t.snap()

    def at(n_, c_, i, j):
        return (ts([n_, c_, 2 * I(i), 2 * I(j)]) + ts([n_, c_, 2 * I(i) + 1, 2 * I(j)]) + ts([n_, c_, 2 * I(i), 2 * I(j) + 1]) +
                ts([n_, c_, 2 * I(i) + 1, 2 * I(j) + 1])) * Fr(1, 4)
    return at


def g_scat_j2_forward(rot=False, requires_grad=True, canary=False):
    """ScatLayerj2_f (grey / per-channel variant): Z (N, 49, C, H/4, W/4) =
       [ avgpool(LL2) | avgpool(LL3) viewed (6, C) | mag(RE2, IM2) | mag(RE3, IM3) viewed (36 = o2*6 + o1, C) ]
       with (LL1,RE1,IM1) = fwd_j1(x), (LL2,RE2,IM2) = fwd_j2plus(LL1), (LL3,RE3,IM3) = fwd_j1(mag(RE1,IM1) viewed (N, 6C, H/2, W/2))"""
    cls = 'ScatLayerj2_rot_f' if rot else 'ScatLayerj2_f'
    oid = '%s.forward[requires_grad=%s]' % (cls, requires_grad)
    base = [Bn >= 1, C >= 1, H >= 1, W >= 1, bias >= 0]

    def run():
        rec = Rec()
        it = Interp(contracts=stage_contracts(rec))
        x = term_tensor('x', (Bn, C, 8 * H, 8 * W), requires_grad=requires_grad)
        mm = [z3.Int('m%d' % q) for q in range(9)]
        f1 = [CT.dt_filter('h0o', mm[0]), CT.dt_filter('h1o', mm[1])] + ([CT.dt_filter('h2o', mm[2])] if rot else [])
        f2 = [CT.dt_filter('h0a', mm[3]), CT.dt_filter('h0b', mm[3]), CT.dt_filter('h1a', mm[4]), CT.dt_filter('h1b', mm[4])] + \
            ([CT.dt_filter('h2a', mm[5]), CT.dt_filter('h2b', mm[5])] if rot else [])
        fc = _fctx((requires_grad,) + (False,) * 12)
        Z = it.call(SL, cls + '.forward', [fc, x] + f1 + f2 + [1, TV(bias), False], {})
        return rec, x, f1, f2, Z
    obs = []
    info = {'paths': 0}
    for k, (c, res) in enumerate(explore(run, base)):
        CUR.ctx = c
        if c.solver.check() == z3.unsat:
            continue
        pid = '%s/path%d' % (oid, k)
        info['paths'] += 1
        if res[0] == 'raise':
            obs.append(Ob(pid + '/unexpected-raise', 'POST', 'refuted', 'path', 0, {'what': '%s: %s' % (res[1].kind, res[1].msg), 'model': {}}))
            continue
        rec, x, f1, f2, Z = res[1]
        calls = rec.calls
        ok = len(calls) == 3 and [q[0] for q in calls] == ['fwd_j1', 'fwd_j2plus', 'fwd_j1']
        obs.append(Ob(pid + '/PRE[stages: level-1 of x, level-2 of its lowpass, level-1 of the first-order magnitudes]', 'PRE',
                      'proved' if ok else 'refuted', 'structural', 0))
        if not ok:
            continue
        (LL1, RE1, IM1), (LL2, RE2, IM2), (LL3, RE3, IM3) = calls[0][6], calls[1][6], calls[2][6]
        b = TV(bias)
        ok = calls[0][1] is x and all(a is q for a, q in zip(calls[0][2], f1)) and calls[1][1] is LL1 and all(a is q for a, q in zip(calls[2][2], f1))
        if rot:
            want_f2 = [f2[0], f2[2], f2[1], f2[3], f2[4], f2[5]]
        else:
            want_f2 = [f2[0], f2[2], f2[1], f2[3]]        # the function receives (h0a, h0b, h1a, h1b) and calls fwd_j2plus(h0a, h1a, h0b, h1b)
        ok = ok and all(a is q for a, q in zip(calls[1][2], want_f2))
        ok = ok and all(q[3] is False and q[4] == 1 and q[5] == 'symmetric' for q in calls)
        obs.append(Ob(pid + '/PRE[inputs and filters of the three stages]', 'PRE', 'proved' if ok else 'refuted', 'structural', 0))
        # the second-order stage receives the first-order magnitudes, orientation-major channels (o1*C + c)
        arg3 = calls[2][1]
        r1, i1 = RE1.snap(), IM1.snap()
        idx = [z3.Int('P%d' % q) for q in range(4)]
        shp3 = (Bn, 6 * C, 4 * H, 4 * W)
        obs.append(solve.prove(pid + '/second-order-input/shape', 'PRE', c.pc, z3.And(arg3.ndim == 4, *[I(a) == I(q) for a, q in zip(arg3.shape, shp3)]), MV))
        rng = [z3.And(i >= 0, i < I(n)) for i, n in zip(idx, shp3)]
        # channel index = o1*C + c with 0 <= c < C
        o1, cc = z3.Int('o1'), z3.Int('cc')
        link = [o1 >= 0, o1 < 6, cc >= 0, cc < C, idx[1] == z3.Sum([z3.If(o1 == t, t * C, 0) for t in range(6)]) + cc]
        obs.append(prove_terms(pid + '/second-order-input == first-order magnitudes (channel o1*C + c)', 'PRE', list(c.pc) + rng + link,
                               arg3.at(idx), mag(r1([idx[0], o1, cc, idx[2], idx[3]]), i1([idx[0], o1, cc, idx[2], idx[3]]), b)))
        # output
        zshape = (Bn, 49, C, 2 * H, 2 * W)
        obs.append(solve.prove(pid + '/POST[Z]/shape', 'POST', c.pc, z3.And(Z.ndim == 5, *[I(a) == I(q) for a, q in zip(Z.shape, zshape)]), MV))
        P = [z3.Int('Z%d' % q) for q in range(5)]
        rngz = [z3.And(i >= 0, i < I(n)) for i, n in zip(P, zshape)]
        n_, kk, ch, i, j = P
        p2, p3 = _pool(LL2), _pool(LL3)
        r2, i2, r3, i3 = RE2.snap(), IM2.snap(), RE3.snap(), IM3.snap()
        sh = 1 if canary else 0
        cases = [
            ('lowpass', [kk == 0], lambda: p2(n_, ch, i, j)),
            ('first-order scale 1 (pooled)', [kk >= 1, kk <= 6], lambda: p3(n_, z3.Sum([z3.If(kk - 1 == t, t * C, 0) for t in range(6)]) + ch, i, j)),
            ('first-order scale 2', [kk >= 7, kk <= 12], lambda: mag(r2([n_, kk - 7 + sh, ch, i, j]), i2([n_, kk - 7 + sh, ch, i, j]), b)),
        ]
        for nm, cond, val in cases:
            obs.append(prove_terms(pid + '/POST[Z: %s]' % nm, 'POST', list(c.pc) + rngz + cond, Z.at(P), val()))
        # second order: band 13 + o2*6 + o1
        o2 = z3.Int('o2')
        cond = [kk >= 13, o2 >= 0, o2 < 6, o1 >= 0, o1 < 6, kk - 13 == 6 * o2 + o1]
        chan = z3.Sum([z3.If(o1 == t, t * C, 0) for t in range(6)]) + ch
        obs.append(prove_terms(pid + '/POST[Z: second order, band 13 + 6*o2 + o1]', 'POST', list(c.pc) + rngz + cond, Z.at(P),
                               mag(r3([n_, o2, chan, i, j]), i3([n_, o2, chan, i, j]), b)))
        zv = TV.of(Z.at(P))
        obs.append(solve.prove(pid + '/POST[magnitude channels are non-negative]', 'POST',
                               list(c.pc) + rngz + [kk >= 7, bias >= 0] + sqrt_axioms([zv.e >= 0]), zv.e >= 0, MV))
    return obs, info


def g_scat_module(which, colour=False, rot=False, tiny=False):
    """ScatLayer / ScatLayerj2 modules: real __init__ + forward.  The input is first extended (odd sizes: last row/column repeated;
    second order: to a multiple of 8 by repeating border rows/columns on both sides), the Function is applied with the module's filters,
    and the (N, K, C, h, w) result is viewed as (N, K*C, h, w), band-major."""
    from .modules_dtcwt import tables, col
    cls = 'ScatLayer' if which == 1 else 'ScatLayerj2'
    oid = '%s[colour=%s,rot=%s%s]' % (cls, colour, rot, ',extent=2' if tiny else '')
    Cc = 3 if colour else C
    base = [Bn >= 1, C >= 1, H >= (1 if which == 1 else 3), W >= (1 if which == 1 else 3), bias >= 0]
    if tiny:      # region of known finding F11: an extent of 2 (documented domain is H, W >= 2)
        base = [Bn >= 1, C >= 1, H >= 2, W >= 2, z3.Or(H == 2, W == 2), bias >= 0]
    K = 7 if which == 1 else 49

    def run():
        c = ctx()
        rec = Rec()
        callees = stage_contracts(rec)
        bi, qs = tables()
        mm = z3.Int('mm')
        bi['h2o'], bi['g2o'] = col('h2o', mm), col('g2o', mm)
        for kq in ('h2a', 'h2b', 'g2a', 'g2b'):
            qs[kq] = col(kq, 2 * z3.Int('q2'))
        callees['dtcwt.coeffs:biort'] = (lambda it, name: (bi['h0o'], bi['g0o'], bi['h1o'], bi['g1o']) + ((bi['h2o'], bi['g2o']) if name == 'near_sym_b_bp' else ()))
        callees['dtcwt.coeffs:qshift'] = (lambda it, name: tuple(qs[kq] for kq in ('h0a', 'h0b', 'g0a', 'g0b', 'h1a', 'h1b', 'g1a', 'g1b')) +
                                          (tuple(qs[kq] for kq in ('h2a', 'h2b', 'g2a', 'g2b')) if name == 'qshift_b_bp' else ()))
        callees['dtcwt.lowlevel:prep_filt'] = CT.prep_filt_contract
        applied = []

        def spy(fname):
            key = SL + ':' + fname + '.apply'

            def cfn(it_, *args):
                applied.append((fname, args))            # what the module hands to its autograd Function
                saved = it_.contracts.pop(key)
                try:
                    return prims.function_apply(it_, RepoClass(SL, fname), args)
                finally:
                    it_.contracts[key] = saved
            return key, cfn
        for fname in ('ScatLayerj1_f', 'ScatLayerj1_rot_f', 'ScatLayerj2_f', 'ScatLayerj2_rot_f'):
            k_, c_ = spy(fname)
            callees[k_] = c_
        it = Interp(contracts=callees)
        rec.applied = applied
        kw = dict(biort='near_sym_b_bp' if rot else 'near_sym_a', magbias=TV(bias), combine_colour=colour)
        if which == 2:
            kw['qshift'] = 'qshift_b_bp' if rot else 'qshift_a'
        c.assume(z3.And(mm >= 3, mm % 2 == 1, z3.Int('q2') >= 1))
        self = prims.instantiate(it, RepoClass('scatternet.layers', cls), [], kw)
        x = term_tensor('x', (Bn, Cc, H, W))
        out = it.call('scatternet.layers', cls + '.forward', [self, x], {})
        return rec, self, x, out
    obs = []
    info = {'paths': 0, 'raise_paths': 0}
    for k, (c, res) in enumerate(explore(run, base, 3000)):
        CUR.ctx = c
        if c.solver.check() == z3.unsat:
            continue
        pid = '%s/path%d' % (oid, k)
        info['paths'] += 1
        if res[0] == 'raise':
            info['raise_paths'] += 1
            m = c.solver.model()
            obs.append(Ob(pid + '/unexpected-raise', 'POST', 'refuted', 'path', 0,
                          {'what': '%s: %s' % (res[1].kind, res[1].msg), 'model': {'H': m.eval(H, model_completion=True).as_long(),
                                                                                 'W': m.eval(W, model_completion=True).as_long()}}))
            continue
        rec, self, x, out = res[1]
        # (1) what the first DTCWT stage receives: the input extended by repeated border rows / columns, original image as a block
        xin = rec.calls[0][1]
        mult = 2 if which == 1 else 8
        obs.append(solve.prove(pid + '/extension/extent is the next multiple of %d' % mult, 'POST', c.pc,
                               z3.And(I(xin.shape[2]) % mult == 0, I(xin.shape[3]) % mult == 0, I(xin.shape[2]) >= H, I(xin.shape[2]) < H + mult,
                                      I(xin.shape[3]) >= W, I(xin.shape[3]) < W + mult), MV))
        idx = [z3.Int('P%d' % q) for q in range(4)]
        rng = [z3.And(i >= 0, i < I(n)) for i, n in zip(idx, xin.shape)]
        top = simp((I(xin.shape[2]) - H) / 2) if which == 2 else 0
        left = simp((I(xin.shape[3]) - W) / 2) if which == 2 else 0
        xs = x.snap()
        # every row/column of the extended image is a copy of an input row/column: inside the block itself, outside a border-side copy
        src_r = z3.Int('sr')
        src_c = z3.Int('sc')
        inside = [idx[2] - top >= 0, idx[2] - top < H, idx[3] - left >= 0, idx[3] - left < W]
        obs.append(prove_terms(pid + '/extension/contains the image as a block', 'POST', list(c.pc) + rng + inside,
                               xin.at(idx), xs([idx[0], idx[1], idx[2] - top, idx[3] - left])))
        xe = TV.of(xin.at(idx)).e
        copies = z3.Or(*[xe == TV.of(xs([idx[0], idx[1], rr, cc])).e
                         for rr in ([idx[2] - top] + [z3.IntVal(t) for t in range(0, 4)] + [H - 1 - t for t in range(0, 4)])
                         for cc in ([idx[3] - left] + [z3.IntVal(t) for t in range(0, 4)] + [W - 1 - t for t in range(0, 4)])])
        obs.append(solve.prove(pid + '/extension/every added sample copies a border sample', 'POST', list(c.pc) + rng, copies, MV))
        # (1b) the options handed to the autograd Function are the module's construction parameters, whatever the module's mode
        #      (train / eval) or other state: apply(x, filters..., mode, magbias, combine_colour)
        want_fn = ('ScatLayerj1' if which == 1 else 'ScatLayerj2') + ('_rot_f' if rot else '_f')
        ap = getattr(rec, 'applied', [])
        ok = len(ap) == 1 and ap[0][0] == want_fn
        obs.append(Ob(pid + '/PRE[exactly one %s.apply]' % want_fn, 'PRE', 'proved' if ok else 'refuted', 'structural', 0,
                      {} if ok else {'applied': [a[0] for a in ap], 'model': {}}))
        if ok:
            a_mode, a_bias, a_col = ap[0][1][-3:]
            obs.append(prove_terms(pid + '/PRE[magbias handed down == magbias of the module]', 'PRE', list(c.pc), TV.of(a_bias), TV(bias)))
            okc = (a_col is colour) or (a_col == colour and isinstance(a_col, bool))
            obs.append(Ob(pid + '/PRE[combine_colour handed down == combine_colour of the module]', 'PRE', 'proved' if okc else 'refuted', 'structural', 0))
            okm = (not isz(a_mode)) and a_mode == self.a.get('mode')
            obs.append(Ob(pid + '/PRE[padding mode handed down == mode of the module]', 'PRE', 'proved' if okm else 'refuted', 'structural', 0,
                          {} if okm else {'handed': str(a_mode), 'module': str(self.a.get('mode')), 'model': {}}))
        # (2) filters handed to the stages are the module's (prepared table entries)
        f = rec.calls[0][2]
        ok = all(isinstance(t, STensor) for t in f)
        obs.append(Ob(pid + '/PRE[filters are the prepared table entries]', 'PRE', 'proved' if ok else 'refuted', 'structural', 0))
        # (3) final view: (N, K, C, h, w) -> (N, K*C, h, w), band-major
        if colour:
            obs.append(solve.prove(pid + '/POST[shape (N, %d, h, w)]' % (9 if which == 1 else 0), 'POST', c.pc, out.ndim == 4, MV))
        else:
            hh, ww = (simp(I(xin.shape[2]) / 2), simp(I(xin.shape[3]) / 2)) if which == 1 else (simp(I(xin.shape[2]) / 4), simp(I(xin.shape[3]) / 4))
            obs.append(solve.prove(pid + '/POST[shape (N, %d*C, h, w)]' % K, 'POST', c.pc,
                                   z3.And(out.ndim == 4, I(out.shape[0]) == Bn, I(out.shape[1]) == K * C, I(out.shape[2]) == I(hh), I(out.shape[3]) == I(ww)), MV))
    return obs, info


def g_scat_j2_backward(rot=False, canary=False):
    """ScatLayerj2_f.backward (per-channel variant): three inverse stages in reverse order; every argument handed to an
    inverse stage must be the true cotangent of the corresponding forward stage output (chain rule through the three
    magnitude stages, the two poolings and the two views), and each inverse stage is called with the analysis filters
    (tree a/b swapped at level 2) - which is the transpose of the forward stage by the C06 obligations."""
    cls = 'ScatLayerj2_rot_f' if rot else 'ScatLayerj2_f'
    oid = '%s.backward' % cls
    base = [Bn >= 1, C >= 1, H >= 1, W >= 1, bias > 0]

    def run():
        rec = Rec()
        it = Interp(contracts=stage_contracts(rec))
        x = term_tensor('x', (Bn, C, 8 * H, 8 * W), requires_grad=True)
        mm = [z3.Int('m%d' % q) for q in range(9)]
        f1 = [CT.dt_filter('h0o', mm[0]), CT.dt_filter('h1o', mm[1])] + ([CT.dt_filter('h2o', mm[2])] if rot else [])
        f2 = [CT.dt_filter('h0a', mm[3]), CT.dt_filter('h0b', mm[3]), CT.dt_filter('h1a', mm[4]), CT.dt_filter('h1b', mm[4])] + \
            ([CT.dt_filter('h2a', mm[5]), CT.dt_filter('h2b', mm[5])] if rot else [])
        fc = _fctx((True,) + (False,) * 12)
        Z = it.call(SL, cls + '.forward', [fc, x] + f1 + f2 + [1, TV(bias), False], {})
        dZ = term_tensor('dZ', Z.shape)
        grads = it.call(SL, cls + '.backward', [fc, dZ], {})
        return rec, x, f1, f2, Z, dZ, grads
    obs = []
    info = {'paths': 0}
    for k, (c, res) in enumerate(explore(run, base)):
        CUR.ctx = c
        if c.solver.check() == z3.unsat:
            continue
        pid = '%s/path%d' % (oid, k)
        info['paths'] += 1
        if res[0] == 'raise':
            obs.append(Ob(pid + '/unexpected-raise', 'POST', 'refuted', 'path', 0, {'what': '%s: %s' % (res[1].kind, res[1].msg), 'model': {}}))
            continue
        rec, x, f1, f2, Z, dZ, grads = res[1]
        fw = [q for q in rec.calls if q[0].startswith('fwd')]
        iv = [q for q in rec.calls if q[0].startswith('inv')]
        ok = [q[0] for q in iv] == ['inv_j1', 'inv_j2plus', 'inv_j1'] and len(fw) == 3
        obs.append(Ob(pid + '/POST[three inverse stages, in reverse order of the forward stages]', 'POST', 'proved' if ok else 'refuted', 'structural', 0))
        if not ok:
            continue
        (LL1, RE1, IM1), (LL2, RE2, IM2), (LL3, RE3, IM3) = fw[0][6], fw[1][6], fw[2][6]
        A, Bc, Cc_ = iv
        b = TV(bias)
        dz = dZ.snap()
        # filters: the analysis filters; at level 2 with tree a and b exchanged
        okf = all(a is q for a, q in zip(A[2], f1)) and all(a is q for a, q in zip(Cc_[2], f1))
        want2 = [f2[1], f2[3], f2[0], f2[2]] + ([f2[5], f2[4]] if rot else [])      # (h0b, h1b, h0a, h1a[, h2b, h2a])
        okf = okf and all(a is q for a, q in zip(Bc[2], want2))
        okf = okf and all((q[3], q[4], q[5], q[6]) == (1, 3, 4, 'symmetric') for q in iv)
        obs.append(Ob(pid + '/POST[inverse stages use the analysis filters (a/b swapped at level 2), orientations on axis 1]', 'POST',
                      'proved' if okf else 'refuted', 'structural', 0))
        ok = isinstance(grads, tuple) and grads[0] is Cc_[7] and all(g is None for g in grads[1:])
        obs.append(Ob(pid + '/POST[dX is the result of the last inverse stage; no other gradients]', 'POST', 'proved' if ok else 'refuted', 'structural', 0))
        sh = 1 if canary else 0

        def chan(o):
            return z3.Sum([z3.If(o == t, t * C, 0) for t in range(6)])
        o1, o2, cc = z3.Int('o1'), z3.Int('o2'), z3.Int('cc')
        # ---- stage A: second-order stage (input = first-order magnitudes as 6C channels)
        lowA, reA, imA = A[1]
        i4 = [z3.Int('Q%d' % q) for q in range(4)]
        r4 = [z3.And(i >= 0, i < I(n)) for i, n in zip(i4, LL3.shape)]
        link = [o1 >= 0, o1 < 6, cc >= 0, cc < C, i4[1] == chan(o1) + cc]
        obs.append(solve.prove(pid + '/A/lowpass-cotangent/shape', 'POST', c.pc, z3.And(*[I(a) == I(q) for a, q in zip(lowA.shape, LL3.shape)]), MV))
        obs.append(prove_terms(pid + '/A/lowpass-cotangent == 1/4 upsample(dZ[1+o1, c])', 'POST', list(c.pc) + r4 + link, lowA.at(i4),
                               dz([i4[0], 1 + o1 + sh, cc, simp(I(i4[2]) / 2), simp(I(i4[3]) / 2)]) * Fr(1, 4)))
        i5 = [z3.Int('R%d' % q) for q in range(5)]
        r5 = [z3.And(i >= 0, i < I(n)) for i, n in zip(i5, RE3.shape)]
        n_, oo, ch, ii, jj = i5
        link5 = [o1 >= 0, o1 < 6, cc >= 0, cc < C, ch == chan(o1) + cc]
        r3, im3 = RE3.snap(), IM3.snap()
        R3 = tv_sqrt(r3(i5) * r3(i5) + im3(i5) * im3(i5) + b * b)
        d36 = dz([n_, 13 + 6 * oo + o1, cc, ii, jj])
        for nm, t, src in (('real', reA, r3), ('imag', imA, im3)):
            obs.append(solve.prove(pid + '/A/%s-cotangent/shape' % nm, 'POST', c.pc, z3.And(*[I(a) == I(q) for a, q in zip(t.shape, RE3.shape)]), MV))
            obs.append(prove_terms(pid + '/A/%s-cotangent == dZ[13+6*o2+o1, c] * %s / r' % (nm, nm), 'POST', list(c.pc) + r5 + link5, t.at(i5), d36 * (src(i5) / R3)))
        # ---- stage B: level 2 of the lowpass chain
        lowB, reB, imB = Bc[1]
        j4 = [z3.Int('S%d' % q) for q in range(4)]
        rj4 = [z3.And(i >= 0, i < I(n)) for i, n in zip(j4, LL2.shape)]
        obs.append(solve.prove(pid + '/B/lowpass-cotangent/shape', 'POST', c.pc, z3.And(*[I(a) == I(q) for a, q in zip(lowB.shape, LL2.shape)]), MV))
        obs.append(prove_terms(pid + '/B/lowpass-cotangent == 1/4 upsample(dZ[0])', 'POST', list(c.pc) + rj4, lowB.at(j4),
                               dz([j4[0], 0, j4[1], simp(I(j4[2]) / 2), simp(I(j4[3]) / 2)]) * Fr(1, 4)))
        k5 = [z3.Int('T%d' % q) for q in range(5)]
        rk5 = [z3.And(i >= 0, i < I(n)) for i, n in zip(k5, RE2.shape)]
        r2, im2 = RE2.snap(), IM2.snap()
        R2 = tv_sqrt(r2(k5) * r2(k5) + im2(k5) * im2(k5) + b * b)
        d2 = dz([k5[0], 7 + k5[1], k5[2], k5[3], k5[4]])
        for nm, t, src in (('real', reB, r2), ('imag', imB, im2)):
            obs.append(solve.prove(pid + '/B/%s-cotangent/shape' % nm, 'POST', c.pc, z3.And(*[I(a) == I(q) for a, q in zip(t.shape, RE2.shape)]), MV))
            obs.append(prove_terms(pid + '/B/%s-cotangent == dZ[7+o, c] * %s / r' % (nm, nm), 'POST', list(c.pc) + rk5, t.at(k5), d2 * (src(k5) / R2)))
        # ---- stage C: level 1 of the input: lowpass cotangent = result of stage B, band-pass cotangent = result of stage A (viewed) * d(mag)
        lowC, reC, imC = Cc_[1]
        obs.append(Ob(pid + '/C/lowpass-cotangent is the result of stage B', 'POST', 'proved' if lowC is Bc[7] else 'refuted', 'structural', 0))
        l5 = [z3.Int('U%d' % q) for q in range(5)]
        rl5 = [z3.And(i >= 0, i < I(n)) for i, n in zip(l5, RE1.shape)]
        r1, im1 = RE1.snap(), IM1.snap()
        R1 = tv_sqrt(r1(l5) * r1(l5) + im1(l5) * im1(l5) + b * b)
        dxa = A[7].snap()
        dA = dxa([l5[0], chan(l5[1]) + l5[2], l5[3], l5[4]])
        for nm, t, src in (('real', reC, r1), ('imag', imC, im1)):
            obs.append(solve.prove(pid + '/C/%s-cotangent/shape' % nm, 'POST', c.pc, z3.And(*[I(a) == I(q) for a, q in zip(t.shape, RE1.shape)]), MV))
            obs.append(prove_terms(pid + '/C/%s-cotangent == (stage A result)[o*C + c] * %s / r' % (nm, nm), 'POST', list(c.pc) + rl5, t.at(l5), dA * (src(l5) / R1)))
    return obs, info


def g_scat_j2_colour(rot=False, canary=False):
    """ScatLayerj2_f / _rot_f with combine_colour=True (3 input channels): forward values and the backward chain.
       Z (N, 51, H/4, W/4) = [ pool(LL2) (3) | pool(LL3) (6) | magc(RE2, IM2) (6) | mag(RE3, IM3) (36 = 6*o2 + o1) ]
       magc(re, im)[n,o] = sqrt(sum_c re[n,o,c]^2 + im[n,o,c]^2 + b^2) - b ; stage 3 input = magc(RE1, IM1) (6 channels)"""
    cls = 'ScatLayerj2_rot_f' if rot else 'ScatLayerj2_f'
    oid = '%s[combine_colour]' % cls
    base = [Bn >= 1, H >= 1, W >= 1, bias >= 0]          # forward values for every bias >= 0; the backward obligations add bias > 0
    POS = [bias > 0]

    def run():
        rec = Rec()
        it = Interp(contracts=stage_contracts(rec))
        x = term_tensor('x', (Bn, 3, 8 * H, 8 * W), requires_grad=True)
        mm = [z3.Int('m%d' % q) for q in range(9)]
        f1 = [CT.dt_filter('h0o', mm[0]), CT.dt_filter('h1o', mm[1])] + ([CT.dt_filter('h2o', mm[2])] if rot else [])
        f2 = [CT.dt_filter('h0a', mm[3]), CT.dt_filter('h0b', mm[3]), CT.dt_filter('h1a', mm[4]), CT.dt_filter('h1b', mm[4])] + \
            ([CT.dt_filter('h2a', mm[5]), CT.dt_filter('h2b', mm[5])] if rot else [])
        fc = _fctx((True,) + (False,) * 12)
        Z = it.call(SL, cls + '.forward', [fc, x] + f1 + f2 + [1, TV(bias), True], {})
        dZ = term_tensor('dZ', Z.shape)
        grads = it.call(SL, cls + '.backward', [fc, dZ], {})
        return rec, x, f1, f2, Z, dZ, grads
    obs = []
    info = {'paths': 0}
    for k, (c, res) in enumerate(explore(run, base)):
        CUR.ctx = c
        if c.solver.check() == z3.unsat:
            continue
        pid = '%s/path%d' % (oid, k)
        info['paths'] += 1
        if res[0] == 'raise':
            obs.append(Ob(pid + '/unexpected-raise', 'POST', 'refuted', 'path', 0, {'what': '%s: %s' % (res[1].kind, res[1].msg), 'model': {}}))
            continue
        rec, x, f1, f2, Z, dZ, grads = res[1]
        fw = [q for q in rec.calls if q[0].startswith('fwd')]
        iv = [q for q in rec.calls if q[0].startswith('inv')]
        ok = [q[0] for q in fw] == ['fwd_j1', 'fwd_j2plus', 'fwd_j1'] and [q[0] for q in iv] == ['inv_j1', 'inv_j2plus', 'inv_j1']
        obs.append(Ob(pid + '/stages[3 forward, 3 inverse in reverse order]', 'POST', 'proved' if ok else 'refuted', 'structural', 0))
        if not ok:
            continue
        (LL1, RE1, IM1), (LL2, RE2, IM2), (LL3, RE3, IM3) = fw[0][6], fw[1][6], fw[2][6]
        b = TV(bias)
        r1, i1, r2, i2, r3, i3 = [t.snap() for t in (RE1, IM1, RE2, IM2, RE3, IM3)]

        def Rc(rs_, is_, n_, o, i, j):
            u = b * b
            for cc in range(3):
                u = u + rs_([n_, o, cc, i, j]) * rs_([n_, o, cc, i, j]) + is_([n_, o, cc, i, j]) * is_([n_, o, cc, i, j])
            return tv_sqrt(u)
        ok = fw[0][1] is x and fw[1][1] is LL1 and all(a is q for a, q in zip(fw[0][2], f1)) and all(a is q for a, q in zip(fw[2][2], f1))
        want_f2 = [f2[0], f2[2], f2[1], f2[3]] + ([f2[4], f2[5]] if rot else [])
        ok = ok and all(a is q for a, q in zip(fw[1][2], want_f2))
        obs.append(Ob(pid + '/PRE[inputs and filters of the forward stages]', 'PRE', 'proved' if ok else 'refuted', 'structural', 0))
        a3 = fw[2][1]
        i4 = [z3.Int('P%d' % q) for q in range(4)]
        shp3 = (Bn, 6, 4 * H, 4 * W)
        obs.append(solve.prove(pid + '/second-order-input/shape', 'PRE', c.pc, z3.And(a3.ndim == 4, *[I(a) == I(q) for a, q in zip(a3.shape, shp3)]), MV))
        rg = [z3.And(i >= 0, i < I(n)) for i, n in zip(i4, shp3)]
        obs.append(prove_terms(pid + '/second-order-input == colour-combined first-order magnitudes', 'PRE', list(c.pc) + rg, a3.at(i4),
                               Rc(r1, i1, i4[0], i4[1], i4[2], i4[3]) - b))
        zshape = (Bn, 51, 2 * H, 2 * W)
        obs.append(solve.prove(pid + '/POST[Z]/shape', 'POST', c.pc, z3.And(Z.ndim == 4, *[I(a) == I(q) for a, q in zip(Z.shape, zshape)]), MV))
        P = [z3.Int('Z%d' % q) for q in range(4)]
        rz = [z3.And(i >= 0, i < I(n)) for i, n in zip(P, zshape)]
        n_, kk, i, j = P
        p2, p3 = _pool(LL2), _pool(LL3)
        sh = 1 if canary else 0
        o1, o2 = z3.Int('o1'), z3.Int('o2')
        for nm, cond, val in (('lowpass (3 colour channels)', [kk < 3], lambda: p2(n_, kk, i, j)),
                              ('first-order scale 1 (pooled)', [kk >= 3, kk < 9], lambda: p3(n_, kk - 3, i, j)),
                              ('first-order scale 2', [kk >= 9, kk < 15], lambda: Rc(r2, i2, n_, kk - 9 + sh, i, j) - b)):
            obs.append(prove_terms(pid + '/POST[Z: %s]' % nm, 'POST', list(c.pc) + rz + cond, Z.at(P), val()))
        cond = [kk >= 15, o2 >= 0, o2 < 6, o1 >= 0, o1 < 6, kk - 15 == 6 * o2 + o1]
        obs.append(prove_terms(pid + '/POST[Z: second order, band 15 + 6*o2 + o1]', 'POST', list(c.pc) + rz + cond, Z.at(P),
                               mag(r3([n_, o2, o1, i, j]), i3([n_, o2, o1, i, j]), b)))
        # ---- backward
        A, Bc, Cc_ = iv
        dz = dZ.snap()
        okf = all(a is q for a, q in zip(A[2], f1)) and all(a is q for a, q in zip(Cc_[2], f1))
        want2 = [f2[1], f2[3], f2[0], f2[2]] + ([f2[5], f2[4]] if rot else [])
        okf = okf and all(a is q for a, q in zip(Bc[2], want2)) and all((q[3], q[4], q[5], q[6]) == (1, 3, 4, 'symmetric') for q in iv)
        obs.append(Ob(pid + '/backward/inverse stages use the analysis filters (a/b swapped at level 2, band-pass pair included)', 'POST',
                      'proved' if okf else 'refuted', 'structural', 0))
        ok = isinstance(grads, tuple) and grads[0] is Cc_[7] and all(g is None for g in grads[1:])
        obs.append(Ob(pid + '/backward/dX is the result of the last inverse stage', 'POST', 'proved' if ok else 'refuted', 'structural', 0))
        lowA, reA, imA = A[1]
        q4 = [z3.Int('Q%d' % q) for q in range(4)]
        rq4 = [z3.And(t >= 0, t < I(n)) for t, n in zip(q4, LL3.shape)]
        obs.append(prove_terms(pid + '/backward/A/lowpass-cotangent', 'POST', list(c.pc) + POS + rq4, lowA.at(q4),
                               dz([q4[0], 3 + q4[1], simp(I(q4[2]) / 2), simp(I(q4[3]) / 2)]) * Fr(1, 4)))
        q5 = [z3.Int('R%d' % q) for q in range(5)]
        rq5 = [z3.And(t >= 0, t < I(n)) for t, n in zip(q5, RE3.shape)]
        R3 = tv_sqrt(r3(q5) * r3(q5) + i3(q5) * i3(q5) + b * b)
        d36 = dz([q5[0], 15 + 6 * q5[1] + q5[2], q5[3], q5[4]])
        for nm, t, src in (('real', reA, r3), ('imag', imA, i3)):
            obs.append(prove_terms(pid + '/backward/A/%s-cotangent' % nm, 'POST', list(c.pc) + POS + rq5, t.at(q5), d36 * (src(q5) / R3)))
        lowB, reB, imB = Bc[1]
        s4 = [z3.Int('S%d' % q) for q in range(4)]
        rs4 = [z3.And(t >= 0, t < I(n)) for t, n in zip(s4, LL2.shape)]
        obs.append(prove_terms(pid + '/backward/B/lowpass-cotangent', 'POST', list(c.pc) + POS + rs4, lowB.at(s4),
                               dz([s4[0], s4[1], simp(I(s4[2]) / 2), simp(I(s4[3]) / 2)]) * Fr(1, 4)))
        t5 = [z3.Int('T%d' % q) for q in range(5)]
        rt5 = [z3.And(t >= 0, t < I(n)) for t, n in zip(t5, RE2.shape)]
        R2 = Rc(r2, i2, t5[0], t5[1], t5[3], t5[4])
        d2 = dz([t5[0], 9 + t5[1], t5[3], t5[4]])
        for nm, t, src in (('real', reB, r2), ('imag', imB, i2)):
            obs.append(prove_terms(pid + '/backward/B/%s-cotangent' % nm, 'POST', list(c.pc) + POS + rt5, t.at(t5), d2 * (src(t5) / R2)))
        lowC, reC, imC = Cc_[1]
        obs.append(Ob(pid + '/backward/C/lowpass-cotangent is the result of stage B', 'POST', 'proved' if lowC is Bc[7] else 'refuted', 'structural', 0))
        u5 = [z3.Int('U%d' % q) for q in range(5)]
        ru5 = [z3.And(t >= 0, t < I(n)) for t, n in zip(u5, RE1.shape)]
        R1 = Rc(r1, i1, u5[0], u5[1], u5[3], u5[4])
        dA = A[7].snap()([u5[0], u5[1], u5[3], u5[4]])
        for nm, t, src in (('real', reC, r1), ('imag', imC, i1)):
            obs.append(prove_terms(pid + '/backward/C/%s-cotangent' % nm, 'POST', list(c.pc) + POS + ru5, t.at(u5), dA * (src(u5) / R1)))
    return obs, info
