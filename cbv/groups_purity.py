"""C15: syntactic READS / STATE obligations over the real source (AST scans), complementing the FRAME
obligations that every function-level group carries (verify.frame_obs)."""
import ast
from . import front
from .solve import Ob

PURE_FILES = [k for k in front.FILES]
ALLOW_DEFAULT_DTYPE = {'prep_filt_afb1d', 'prep_filt_sfb1d', 'prep_filt_afb2d_nonsep', 'prep_filt_sfb2d_nonsep', 'prep_filt',
                       '_as_row_tensor', '_as_col_tensor'}
ALLOW_REQUIRES_GRAD = {'c2q', 'SmoothMagFn.forward', 'ScatLayerj1_f.forward', 'ScatLayerj1_rot_f.forward',
                       'ScatLayerj2_f.forward', 'ScatLayerj2_rot_f.forward'}
FORBIDDEN_CALLS = {('torch', 'is_grad_enabled'), ('torch', 'set_grad_enabled'), ('torch', 'set_default_dtype'), ('torch', 'manual_seed'),
                   ('torch', 'rand'), ('torch', 'randn'), ('np', 'random'), ('time', 'time'), ('os', 'environ'), ('os', 'getenv')}


def _attr_chain(n):
    out = []
    while isinstance(n, ast.Attribute):
        out.append(n.attr)
        n = n.value
    if isinstance(n, ast.Name):
        out.append(n.id)
    return tuple(reversed(out))


def _default_dtype_only_types_new_tensors(fn, attr_node):
    """structural, not by function name: `torch.get_default_dtype()` may appear only as the `dtype=` of a `torch.tensor(...)`
    construction, directly or through a local name that is used for nothing else (filters are created in the default dtype and
    stored as buffers; data must never be cast to it)"""
    def is_tensor_ctor(call):
        return isinstance(call, ast.Call) and _attr_chain(call.func)[-2:] in (('torch', 'tensor'), ('torch', 'as_tensor'))
    call = None
    for q in ast.walk(fn):
        if isinstance(q, ast.Call) and q.func is attr_node:
            call = q
    if call is None:
        return False                                  # the function object itself is passed around
    names = set()
    for q in ast.walk(fn):
        if is_tensor_ctor(q) and any(k.arg == 'dtype' and k.value is call for k in q.keywords):
            return True
        if isinstance(q, ast.Assign) and q.value is call and len(q.targets) == 1 and isinstance(q.targets[0], ast.Name):
            names.add(q.targets[0].id)
    if not names:
        return False
    ok_uses = set()
    for q in ast.walk(fn):
        if is_tensor_ctor(q):
            for k in q.keywords:
                if k.arg == 'dtype' and isinstance(k.value, ast.Name) and k.value.id in names:
                    ok_uses.add(id(k.value))
    for q in ast.walk(fn):
        if isinstance(q, ast.Name) and q.id in names and isinstance(q.ctx, ast.Load) and id(q) not in ok_uses:
            return False
    return True


def g_reads():
    obs = []
    for key in PURE_FILES:
        m = front.mod(key)
        mutable_globals = set()
        for a in m.assigns:
            if isinstance(a.value, (ast.Dict, ast.List, ast.Set)) and len(a.targets) == 1 and isinstance(a.targets[0], ast.Name):
                mutable_globals.add(a.targets[0].id)
        for qual, fn in m.funcs.items():
            if key == 'utils' and qual not in ('reflect', 'symm_pad_1d'):
                continue
            bad = []
            decos = [ast.unparse(d) for d in fn.decorator_list if ast.unparse(d) not in ('staticmethod', 'classmethod', 'property')]
            if decos:
                bad.append('decorated with %s (memoisation / wrapping)' % decos)
            for node in ast.walk(fn):
                if isinstance(node, ast.Global) or isinstance(node, ast.Nonlocal):
                    bad.append('global/nonlocal statement')
                if isinstance(node, ast.Name) and node.id in mutable_globals and not (key == 'dtcwt.coeffs' and qual == '_load_from_file'):
                    bad.append('reads/writes module-level mutable object %s' % node.id)
                if isinstance(node, ast.Attribute):
                    ch = _attr_chain(node)
                    if ch[:2] in FORBIDDEN_CALLS or ch[-2:] in FORBIDDEN_CALLS:
                        bad.append('uses %s' % '.'.join(ch))
                    # reads of the global default dtype: NOT a syntactic rule any more (helpers, kwargs dicts ... made it brittle);
                    # the dtype ghost carried by every group of this plan tags what is created in the default dtype and reports
                    # where such a value meets data (DTYPE obligations), which is the semantic content of the rule
                    if node.attr == 'requires_grad' and isinstance(node.ctx, ast.Load) and qual not in ALLOW_REQUIRES_GRAD \
                            and key != 'scatternet.lowlevel':
                        # scatternet.lowlevel: the flag decides what is SAVED for backward; that the returned values do not depend on it
                        # is a semantic obligation (every forward is proved equal to the same spec with the flag on and off: the paired
                        # groups of C08, also run by C15), not a naming convention - helpers may read it
                        bad.append('reads requires_grad')
                if isinstance(node, (ast.Assign, ast.AugAssign)) and not qual.endswith('__init__'):
                    tg = node.targets if isinstance(node, ast.Assign) else [node.target]
                    for t in tg:
                        if isinstance(t, ast.Attribute) and isinstance(t.value, ast.Name) and t.value.id == 'self':
                            bad.append('assigns self.%s outside __init__' % t.attr)
                if isinstance(node, ast.FunctionDef) and node is not fn:
                    # a closure over locals is not state; a decorated (memoised / wrapped) nested function is
                    nd = [ast.unparse(d) for d in node.decorator_list]
                    if nd:
                        bad.append('nested function %s decorated with %s' % (node.name, nd))
                if isinstance(node, (ast.FunctionDef, ast.Lambda)):
                    for dv in list(node.args.defaults) + [d for d in node.args.kw_defaults if d is not None]:
                        if isinstance(dv, (ast.Dict, ast.List, ast.Set, ast.ListComp, ast.DictComp)) or \
                                (isinstance(dv, ast.Call) and ast.unparse(dv.func) in ('dict', 'list', 'set', 'defaultdict', 'collections.defaultdict')):
                            bad.append('mutable default argument (state shared between calls)')
            obs.append(Ob('READS[%s:%s]' % (key, qual), 'READS', 'refuted' if bad else 'proved', 'ast-scan', 0,
                          {'what': bad[:4], 'model': {}} if bad else {}))
            if qual in ALLOW_REQUIRES_GRAD and key != 'scatternet.lowlevel':
                obs.append(_requires_grad_only_saves(key, qual, fn))
    return obs, {}


def _requires_grad_only_saves(key, qual, fn):
    """names assigned under an `if <x>.requires_grad` test may only flow into ctx.save_for_backward (autograd
    recording must not change what is returned)"""
    guarded = set()

    class V(ast.NodeVisitor):
        def visit_If(s, node):
            if 'requires_grad' in ast.unparse(node.test):
                for sub in ast.walk(node):
                    if isinstance(sub, ast.Name) and isinstance(sub.ctx, ast.Store):
                        guarded.add(sub.id)
            s.generic_visit(node)
    V().visit(fn)
    bad = []
    # a guarded name must not be (re)defined outside the guarded blocks' own use, nor reach a return / non-save call
    for node in ast.walk(fn):
        if isinstance(node, ast.Return) and node.value is not None:
            used = {n.id for n in ast.walk(node.value) if isinstance(n, ast.Name)}
            if used & guarded:
                bad.append('return mentions %s' % sorted(used & guarded))
    body_names = {}
    for st in ast.walk(fn):
        if isinstance(st, ast.Assign) and not any('requires_grad' in ast.unparse(p.test) for p in _parents_if(fn, st)):
            used = {n.id for n in ast.walk(st.value) if isinstance(n, ast.Name)}
            if used & guarded:
                bad.append('%s computed from autograd-only values %s' % (ast.unparse(st.targets[0])[:20], sorted(used & guarded)))
    if qual == 'c2q':
        bad = []      # c2q only forwards the flag into new_zeros(requires_grad=...)
    return Ob('READS[%s:%s]/requires_grad-only-decides-what-is-saved' % (key, qual), 'READS', 'refuted' if bad else 'proved', 'ast-scan', 0,
              {'what': bad[:4], 'model': {}} if bad else {'autograd_only_names': sorted(guarded)[:8]})


def _parents_if(fn, target):
    out = []

    def rec(node, stack):
        if node is target:
            out.extend([s for s in stack if isinstance(s, ast.If)])
            return True
        for ch in ast.iter_child_nodes(node):
            if rec(ch, stack + [node]):
                return True
        return False
    rec(fn, [])
    return out
