"""Symbolic backend for specs.py: values are exact guarded linear combinations."""
import z3
from .sym import *
from . import prims


class SymBk:
    zero = ZERO

    @staticmethod
    def sum(lo, hi, fn):
        lo_, hi_ = simp(lo), simp(hi)
        if is_conc(lo_) and is_conc(hi_) and hi_ - lo_ <= UNROLL_SPEC:
            acc = ZERO
            for u in range(lo_, hi_):
                acc = acc + fn(u)
            return acc
        a = fresh_int('u')
        return lift(fn(a)).bind(a, lo, hi)

    @staticmethod
    def when(cond, thunk):
        cond = simp(B(cond)) if not isinstance(cond, bool) else cond
        if cond is False:
            return ZERO
        v = lift(thunk())
        if cond is True:
            return v
        return v.guard(cond)

    @staticmethod
    def div(a, k):
        return simp(I(a) / k) if isz(a) else a // k

    @staticmethod
    def mod(a, k):
        return simp(I(a) % k) if isz(a) else a % k

    @staticmethod
    def ext_sym(k, n):
        return prims.EXT_SYM(I(k), I(n))

    @staticmethod
    def wrap(k, n):
        # definitional unfolding of k mod n on (-n, 2n); the uninterpreted map
        # only stands for the far ranges
        k, n = I(k), I(n)
        far = prims.WRAP(k, n)
        return z3.If(k < 0, z3.If(k >= -n, k + n, far), z3.If(k < n, k, z3.If(k < 2 * n, k - n, far)))

    @staticmethod
    def ext_refl(k, n):
        k, n = I(k), I(n)
        far = prims.EXT_REFL(k, n)
        return z3.If(k < 0, z3.If(k > -n, -k, far), z3.If(k < n, k, z3.If(k < 2 * n - 1, 2 * (n - 1) - k, far)))

    @staticmethod
    def and_(*c):
        c = [x for x in c if x is not True]
        if any(x is False for x in c):
            return False
        if not c:
            return True
        return z3.And(*[B(x) for x in c])

    @staticmethod
    def or_(*c):
        c = [x for x in c if x is not False]
        if any(x is True for x in c):
            return True
        if not c:
            return False
        return z3.Or(*[B(x) for x in c])

    @staticmethod
    def not_(c):
        if isinstance(c, bool):
            return not c
        return z3.Not(c)


UNROLL_SPEC = 1
