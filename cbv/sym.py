"""Symbolic values for the contract verifier.

Everything here is *generic machinery*: exact linear-combination values (GS),
symbolic tensors with view/storage semantics, integer index arrays, and the
path-condition context with re-execution style forking.  Nothing in this file
knows anything about pytorch_wavelets.
"""
import z3, fractions, itertools, math

Fr = fractions.Fraction


def isz(v):
    return isinstance(v, z3.ExprRef)


def I(v):
    if isinstance(v, bool):
        return z3.IntVal(int(v))
    if isinstance(v, int):
        return z3.IntVal(v)
    return v


def B(v):
    if isinstance(v, bool):
        return z3.BoolVal(v)
    return v


def simp(v):
    if isz(v):
        v = z3.simplify(v, som=True)
        if z3.is_int_value(v):
            return v.as_long()
        if z3.is_true(v):
            return True
        if z3.is_false(v):
            return False
    return v


def is_conc(v):
    return isinstance(v, int) and not isinstance(v, bool)


class Unsupported(Exception):
    """construct outside the interpreted subset -> obligation undecided"""


class Raised(Exception):
    """the interpreted program raises"""
    def __init__(s, kind, msg=''):
        Exception.__init__(s, kind, msg)
        s.kind = kind
        s.msg = msg


class PathInfeasible(Exception):
    pass


_fresh = itertools.count()


def fresh_int(prefix='k'):
    return z3.Int('%s!%d' % (prefix, next(_fresh)))


# ---------------------------------------------------------------------------
# path condition / forking context
# ---------------------------------------------------------------------------
class Ctx:
    """Path condition + decision oracle.  Forking is by re-execution: the
    explorer re-runs the function with a prefix of forced decisions."""
    RLIMIT = 20000000

    def __init__(s, base, decisions=()):
        s.pc = [B(b) for b in base]
        s.dec = list(decisions)
        s.pos = 0
        s.solver = z3.Solver()
        s.solver.set('rlimit', 50000000)
        s.solver.add(*s.pc)
        s.obl = []          # safety obligations: (name, pc snapshot, cond)
        s.notes = []        # free-form notes (effects, dtype ghosts, ...)
        s.effects = []      # frame analysis: in-place writes (storage, where)
        s.ndecide = 0
        s.assume_requires = False

    def entails(s, cond):
        cond = simp(B(cond))
        if cond is True:
            return True
        if cond is False:
            return False
        s.solver.push()
        s.solver.add(z3.Not(cond))
        r = s.solver.check()
        s.solver.pop()
        return r == z3.unsat

    def forced_value(s, e):
        """the concrete integer the path condition forces e to, or None"""
        e = simp(e)
        if is_conc(e):
            return e
        if s.solver.check() != z3.sat:
            return None
        v = s.solver.model().eval(I(e), model_completion=True)
        try:
            k = v.as_long()
        except Exception:
            return None
        return k if s.entails(I(e) == k) else None

    def possible(s, cond):
        cond = simp(B(cond))
        if cond is True:
            return True
        if cond is False:
            return False
        s.solver.push()
        s.solver.add(cond)
        r = s.solver.check()
        s.solver.pop()
        return r != z3.unsat

    def decide(s, cond):
        cond = simp(B(cond))
        if cond is True or cond is False:
            return cond
        s.ndecide += 1
        s.solver.push()
        s.solver.add(z3.Not(cond))
        r1 = s.solver.check()
        s.solver.pop()
        if r1 == z3.unsat:
            return True
        s.solver.push()
        s.solver.add(cond)
        r2 = s.solver.check()
        s.solver.pop()
        if r2 == z3.unsat:
            return False
        if s.pos < len(s.dec):
            d = s.dec[s.pos]
        else:
            d = True
            s.dec.append(True)
        s.pos += 1
        c = cond if d else z3.Not(cond)
        s.pc.append(c)
        s.solver.add(c)
        return d

    def assume(s, cond):
        cond = simp(B(cond))
        if cond is True:
            return
        s.pc.append(B(cond))
        s.solver.add(B(cond))

    def require(s, name, cond):
        cond = simp(B(cond))
        if cond is True:
            return
        if s.assume_requires:
            s.assume(cond)
            return
        s.obl.append((name, list(s.pc), B(cond)))


class CUR:
    ctx = None


def ctx():
    return CUR.ctx


# ---------------------------------------------------------------------------
# exact guarded linear combinations
# ---------------------------------------------------------------------------
class Sqrt2:
    """the constant np.sqrt(2) (kept exact: coefficients live in Q[1/sqrt2])"""
    def __repr__(s):
        return 'sqrt(2)'


SQRT2 = Sqrt2()


class Term:
    """guard * c * (1/sqrt2)^h * prod(atoms), summed over the bound variables bv.
    atoms: tuple of (name, idx tuple, isdata).  bv: tuple of (var, lo, hi)."""
    __slots__ = ('g', 'c', 'h', 'atoms', 'bv')

    def __init__(s, g, c, h, atoms, bv):
        s.g = g
        s.c = c
        s.h = h
        s.atoms = atoms
        s.bv = bv


def _and(g1, g2):
    return g1 + g2


class GS:
    """sum of Terms"""
    __slots__ = ('t',)

    def __init__(s, terms=()):
        s.t = list(terms)

    @staticmethod
    def const(c):
        c = Fr(c)
        if c == 0:
            return GS()
        return GS([Term((), c, 0, (), ())])

    @staticmethod
    def atom(name, idx, isdata=False):
        return GS([Term((), Fr(1), 0, ((name, tuple(idx), isdata),), ())])

    def __add__(a, b):
        if isinstance(b, TV):
            if not a.t:
                return b
            raise Unsupported('mixing kernel-mode and term-mode values')
        b = lift(b)
        return GS(a.t + b.t)
    __radd__ = __add__

    def __neg__(a):
        return GS([Term(t.g, -t.c, t.h, t.atoms, t.bv) for t in a.t])

    def __sub__(a, b):
        return a + (-lift(b))

    def __rsub__(a, b):
        return lift(b) + (-a)

    def __mul__(a, b):
        if isinstance(b, Sqrt2):
            # sqrt2 = 2 * (1/sqrt2)
            return (a * 2).half()
        if isinstance(b, TV):
            return TV.of(a) * b
        b = lift(b)
        out = []
        for t1 in a.t:
            for t2 in b.t:
                c = t1.c * t2.c
                h = t1.h + t2.h
                if h >= 2:
                    c = c / 2
                    h -= 2
                if c == 0:
                    continue
                out.append(Term(t1.g + t2.g, c, h, tuple(sorted(t1.atoms + t2.atoms, key=lambda a_: a_[0])),
                                t1.bv + t2.bv))
        return GS(out)
    __rmul__ = __mul__

    def half(a):
        """multiply by 1/sqrt2"""
        out = []
        for t in a.t:
            c, h = t.c, t.h + 1
            if h >= 2:
                c = c / 2
                h -= 2
            out.append(Term(t.g, c, h, t.atoms, t.bv))
        return GS(out)

    def __truediv__(a, b):
        if isinstance(b, Sqrt2):
            return a.half()
        if isinstance(b, (int, float, Fr)):
            return a * (1 / Fr(b))
        raise Unsupported('division of data by data')

    def guard(a, cond):
        cond = simp(B(cond))
        if cond is True:
            return a
        if cond is False:
            return GS()
        return GS([Term(t.g + (cond,), t.c, t.h, t.atoms, t.bv) for t in a.t])

    def bind(a, var, lo, hi):
        return GS([Term(t.g, t.c, t.h, t.atoms, t.bv + ((var, lo, hi),)) for t in a.t])

    def subst(a, pairs):
        out = []
        for t in a.t:
            g = tuple(z3.substitute(x, *pairs) for x in t.g)
            atoms = tuple((n, tuple(z3.substitute(I(e), *pairs) for e in idx), d) for n, idx, d in t.atoms)
            out.append(Term(g, t.c, t.h, atoms, t.bv))
        return GS(out)


class TV:
    """term-mode element: a z3 Real expression (used for the non-linear scattering layers); optional tangent
    (forward-mode derivative) for the gradient obligations"""
    __slots__ = ('e', 'd')

    def __init__(s, e, d=None):
        s.e = e if isz(e) else z3.RealVal(str(Fr(e)))
        s.d = d

    @staticmethod
    def of(v):
        if isinstance(v, TV):
            return v
        if isinstance(v, GS):
            if not v.t:
                return TV(z3.RealVal(0), z3.RealVal(0))
            raise Unsupported('mixing kernel-mode and term-mode values')
        if isinstance(v, (int, float, Fr)):
            return TV(z3.RealVal(str(Fr(v))), z3.RealVal(0))
        raise Unsupported('cannot lift %r into a term' % (v,))

    def _dd(a):
        return a.d if a.d is not None else z3.RealVal(0)

    def __add__(a, b):
        b = TV.of(b)
        return TV(a.e + b.e, (a._dd() + b._dd()) if (a.d is not None or b.d is not None) else None)
    __radd__ = __add__

    def __neg__(a):
        return TV(-a.e, -a.d if a.d is not None else None)

    def __sub__(a, b):
        return a + (-TV.of(b))

    def __rsub__(a, b):
        return TV.of(b) + (-a)

    def __mul__(a, b):
        b = TV.of(b)
        d = None
        if a.d is not None or b.d is not None:
            d = a._dd() * b.e + a.e * b._dd()
        return TV(a.e * b.e, d)
    __rmul__ = __mul__

    def __truediv__(a, b):
        b = TV.of(b)
        d = None
        if a.d is not None or b.d is not None:
            d = (a._dd() * b.e - a.e * b._dd()) / (b.e * b.e)
        return TV(a.e / b.e, d)

    def guard(a, cond):
        cond = simp(B(cond))
        if cond is True:
            return a
        if cond is False:
            return TV(z3.RealVal(0), z3.RealVal(0) if a.d is not None else None)
        return TV(z3.If(cond, a.e, z3.RealVal(0)), z3.If(cond, a.d, z3.RealVal(0)) if a.d is not None else None)

    def half(a):
        raise Unsupported('1/sqrt2 scaling in term mode')


SQRT = z3.Function('sqrt', z3.RealSort(), z3.RealSort())


def tv_sqrt(a):
    a = TV.of(a)
    r = SQRT(a.e)
    return TV(r, (a.d / (2 * r)) if a.d is not None else None)


def lift(v):
    if isinstance(v, (GS, TV)):
        return v
    if isinstance(v, (int, float, Fr)):
        return GS.const(Fr(v))
    raise Unsupported('cannot lift %r into a linear combination' % (v,))


ZERO = GS()


# ---- kernel extraction ------------------------------------------------------
class Canon:
    """canonical universally quantified variables per atom name"""
    def __init__(s):
        s.v = {}

    def vars(s, name, arity):
        if name not in s.v:
            s.v[name] = [z3.Int('%s@%d' % (name, i)) for i in range(arity)]
        assert len(s.v[name]) == arity, (name, arity)
        return s.v[name]

    def all(s):
        return [x for vs in s.v.values() for x in vs]


def _lin_in(expr, a):
    """if expr == c*a + R with integer numeral c (possibly 0) return (c, R) else None"""
    d = z3.simplify(z3.substitute(expr, (a, a + 1)) - expr, som=True)
    if not z3.is_int_value(d):
        return None
    c = d.as_long()
    R = z3.simplify(z3.substitute(expr, (a, z3.IntVal(0))), som=True)
    return c, R


def _contains(expr, a):
    if not isz(expr):
        return False
    aid = a.get_id()
    seen = set()
    stack = [expr]
    while stack:
        e = stack.pop()
        i = e.get_id()
        if i in seen:
            continue
        seen.add(i)
        if i == aid:
            return True
        stack.extend(e.children())
    return False


def _conjuncts(g):
    out = []
    for x in g:
        if isz(x) and z3.is_and(x):
            out.extend(_conjuncts(x.children()))
        else:
            out.append(x)
    return out


def eliminate_bound(cons, bv, unroll_max=8):
    """cons: list of z3 Bool constraints mentioning bound variables bv (each with
    range lo<=v<hi already among the constraints).  Returns a list of constraint
    lists without bound variables whose indicator sum equals the original
    sum over the bound variables."""
    cons = _conjuncts(cons)
    work = [(cons, list(bv))]
    done = []
    while work:
        cs, bvs = work.pop()
        if not bvs:
            done.append(cs)
            continue
        progressed = False
        for k, (a, lo, hi) in enumerate(bvs):
            sol = None
            for c in cs:
                if isz(c) and z3.is_eq(c) and c.arg(0).sort() == z3.IntSort() and _contains(c, a):
                    E = c.arg(0) - c.arg(1)
                    lc = _lin_in(E, a)
                    if lc is None or lc[0] == 0:
                        continue
                    co, R = lc
                    if co in (1, -1):
                        sol = (z3.simplify(-co * R, som=True), None)
                    else:
                        m = abs(co)
                        num = -R if co > 0 else R
                        sol = (z3.simplify(num / m), z3.simplify(num % m == 0))
                    break
            if sol is not None:
                val, extra = sol
                ncs = [z3.simplify(z3.substitute(c, (a, val))) for c in cs]
                if extra is not None:
                    ncs.append(extra)
                work.append((ncs, bvs[:k] + bvs[k + 1:]))
                progressed = True
                break
        if progressed:
            continue
        # a bound variable hidden inside  If(c, a, b) == e : split the term on c
        split = None
        for ci, c in enumerate(cs):
            if isz(c) and z3.is_eq(c) and c.arg(0).sort() == z3.IntSort() and any(_contains(c, b[0]) for b in bvs):
                for side in (0, 1):
                    e = c.arg(side)
                    if z3.is_app_of(e, z3.Z3_OP_ITE):
                        split = (ci, side, e)
                        break
            if split:
                break
        if split is None:
            # boolean  If(c, A, B)  constraint mentioning a bound variable
            for ci, c in enumerate(cs):
                if isz(c) and z3.is_app_of(c, z3.Z3_OP_ITE) and any(_contains(c, b[0]) for b in bvs):
                    rest = cs[:ci] + cs[ci + 1:]
                    work.append((rest + _conjuncts([c.arg(0)]) + _conjuncts([c.arg(1)]), list(bvs)))
                    work.append((rest + _conjuncts([z3.Not(c.arg(0))]) + _conjuncts([c.arg(2)]), list(bvs)))
                    split = 'done'
                    break
            if split == 'done':
                continue
        if split is not None:
            ci, side, e = split
            other = cs[ci].arg(1 - side)
            cond, a_, b_ = e.arg(0), e.arg(1), e.arg(2)
            rest = cs[:ci] + cs[ci + 1:]
            work.append((rest + _conjuncts([cond]) + [a_ == other], list(bvs)))
            work.append((rest + _conjuncts([z3.Not(cond)]) + [b_ == other], list(bvs)))
            continue
        # no defining equality: expand a concrete small range
        for k, (a, lo, hi) in enumerate(bvs):
            lo_, hi_ = simp(lo), simp(hi)
            if is_conc(lo_) and is_conc(hi_) and hi_ - lo_ <= unroll_max:
                for v in range(lo_, hi_):
                    ncs = [z3.simplify(z3.substitute(c, (a, z3.IntVal(v)))) for c in cs]
                    work.append((ncs, bvs[:k] + bvs[k + 1:]))
                progressed = True
                break
        if not progressed:
            # an infeasible alternative contributes nothing to the sum
            sv = z3.Solver()
            sv.set('timeout', 2000)
            sv.add(*[B(c) for c in cs])
            if sv.check() == z3.unsat:
                continue
            raise Unsupported('cannot eliminate summation variable(s) %s in %s' % ([str(b[0]) for b in bvs], [str(c)[:60] for c in cs][:14]))
    return done


def coeff_exprs(gs, canon):
    """dict shape_key -> list of (constraint list, Fraction).  The coefficient of
    the monomial (as a function of the canonical variables) is
    sum_k If(And(cons_k), c_k, 0)."""
    out = {}
    for t in gs.t:
        names = tuple(a[0] for a in t.atoms)
        key = (t.h, names)
        # a name occurring k times: the polynomial is compared through its
        # symmetrisation (all k! assignments of the occurrences to the slots)
        groups = {}
        for pos, nm in enumerate(names):
            groups.setdefault(nm, []).append(pos)
        perms = [[]]
        for nm, poss in groups.items():
            perms = [p + [(poss, list(q))] for p in perms for q in itertools.permutations(poss)]
        for perm in perms:
            slot = {}
            for poss, q in perm:
                for a_, b_ in zip(poss, q):
                    slot[a_] = b_
            cons = list(t.g)
            for pos, (name, idx, isdata) in enumerate(t.atoms):
                tgt = slot[pos]
                occ = groups[name].index(tgt)
                cv = canon.vars(name if occ == 0 else '%s#%d' % (name, occ + 1), len(idx))
                for e, v in zip(idx, cv):
                    cons.append(I(e) == v)
            for (a, lo, hi) in t.bv:
                cons.append(I(a) >= I(lo))
                cons.append(I(a) < I(hi))
            for cs in eliminate_bound(cons, t.bv):
                cs = [c for c in (simp(c) for c in cs) if c is not True]
                if any(c is False for c in cs):
                    continue
                out.setdefault(key, []).append((cs, t.c))
    return out


def coeff_sum(entries, scale=1):
    """z3 Real expression for sum_k If(And(cons_k), c_k*scale, 0)"""
    if not entries:
        return z3.RealVal(0)
    ts = []
    for cs, c in entries:
        v = c * scale
        val = z3.RealVal(str(v)) if v.denominator == 1 else z3.Q(v.numerator, v.denominator)
        g = z3.And(*cs) if cs else z3.BoolVal(True)
        ts.append(z3.If(g, val, z3.RealVal(0)))
    return z3.Sum(ts) if len(ts) > 1 else ts[0]


def data_degree_ok(gs):
    """linear-by-construction: every term has exactly one data atom"""
    return all(sum(1 for a in t.atoms if a[2]) == 1 for t in gs.t)


# ---------------------------------------------------------------------------
# integer index arrays (numpy)
# ---------------------------------------------------------------------------
class IArr:
    """numpy integer / half-integer array: shape + elem(idx list)->z3 Int *numerator*
    with a concrete positive denominator den (scaled integers)."""
    def __init__(s, shape, elem, den=1, dtype='int'):
        s.shape = tuple(shape)
        s.elem = elem
        s.den = den
        s.dtype = dtype

    @property
    def n(s):
        return s.shape[0]

    @property
    def ndim(s):
        return len(s.shape)


class QV:
    """exact rational scalar num/den (den concrete positive int)"""
    def __init__(s, num, den=1):
        s.num = num
        s.den = den


def toQ(v):
    if isinstance(v, QV):
        return v
    if isinstance(v, float):
        f = Fr(v)
        return QV(f.numerator, f.denominator)
    if isinstance(v, Fr):
        return QV(v.numerator, v.denominator)
    return QV(v, 1)


def q_common(a, b):
    a = toQ(a)
    b = toQ(b)
    D = a.den * b.den // math.gcd(a.den, b.den)
    return I(a.num) * (D // a.den), I(b.num) * (D // b.den), D


def q_arith(op, a, b):
    if op in ('add', 'sub'):
        x, y, D = q_common(a, b)
        r = x + y if op == 'add' else x - y
        return QV(simp(r), D)
    if op == 'mul':
        a = toQ(a)
        b = toQ(b)
        return QV(simp(I(a.num) * I(b.num)), a.den * b.den)
    raise Unsupported('rational op ' + op)


def q_cmp(f, a, b):
    x, y, D = q_common(a, b)
    return f(x, y)


def as_iarr(v):
    if isinstance(v, IArr):
        return v
    return None


def arr_arith(op, a, b):
    A, Bq = as_iarr(a), as_iarr(b)
    shape = A.shape if A else Bq.shape
    da = A.den if A else toQ(a).den
    db = Bq.den if Bq else toQ(b).den
    if op in ('add', 'sub'):
        D = da * db // math.gcd(da, db)

        def el(k):
            x = A.elem(k) if A else toQ(a).num
            y = Bq.elem(k) if Bq else toQ(b).num
            x = I(x) * (D // da)
            y = I(y) * (D // db)
            return x + y if op == 'add' else x - y
        return IArr(shape, el, D)
    raise Unsupported('array op ' + op)


def arr_cmp(f, a, b):
    A, Bq = as_iarr(a), as_iarr(b)
    shape = A.shape if A else Bq.shape
    da = A.den if A else toQ(a).den
    db = Bq.den if Bq else toQ(b).den
    D = da * db // math.gcd(da, db)

    def el(k):
        x = A.elem(k) if A else toQ(a).num
        y = Bq.elem(k) if Bq else toQ(b).num
        return f(I(x) * (D // da), I(y) * (D // db))
    return IArr(shape, el, 1, dtype='bool')


# ---------------------------------------------------------------------------
# tensors
# ---------------------------------------------------------------------------
_sid = itertools.count(1)


class Storage:
    def __init__(s, elem, owner='fresh', label=''):
        s.elem = elem
        s.sid = next(_sid)
        s.owner = owner       # 'arg:<name>' | 'self:<name>' | 'global:<name>' | 'fresh'
        s.label = label
        s.may_alias = []      # storages this one may be the same as (contiguous())


class STensor:
    """shape + storage + index map.  Views share the storage and read it at use
    time; fresh results snapshot their operands."""
    def __init__(s, shape, elem=None, base=None, imap=None, meta=None, inv=None):
        s.shape = tuple(simp(d) for d in shape)
        if base is None:
            s.base = Storage(elem)
            s.imap = None
        else:
            s.base = base
            s.imap = imap
        # inv: storage index -> (membership condition, view index); only for structured views (basic indexing, permutations)
        s.inv = inv if s.imap is not None else None
        s.meta = dict(meta or {})

    def inverse(s):
        """storage index -> (condition that it belongs to this view, its index in the view); None if not available"""
        if s.imap is None:
            return lambda bidx: (True, list(bidx))
        return s.inv

    # value access -----------------------------------------------------------
    def at(s, idx):
        idx = list(idx)
        assert len(idx) == len(s.shape), (idx, s.shape)
        if s.imap is not None:
            idx = s.imap(idx)
        return s.base.elem(idx)

    def snap(s):
        e = s.base.elem
        m = s.imap
        if m is None:
            return e
        return lambda idx: e(m(list(idx)))

    @property
    def ndim(s):
        return len(s.shape)

    def numel(s):
        n = 1
        for d in s.shape:
            n = n * d
        return simp(n)

    def is_view(s):
        return s.imap is not None

    def with_meta(s, **kw):
        t = STensor(s.shape, base=s.base, imap=s.imap, meta=s.meta, inv=s.inv)
        t.meta.update(kw)
        return t

    def __repr__(s):
        return 'STensor%s%s' % (tuple(str(d) for d in s.shape), s.meta.get('name', ''))


class DTMismatch:
    """dtype ghost: operands of different dtypes met (torch raises or silently promotes)"""
    def __init__(s, a, b):
        s.a, s.b = a, b

    def __repr__(s):
        return 'MISMATCH(%r,%r)' % (s.a, s.b)

    def __eq__(s, o):
        return False

    def __hash__(s):
        return id(s)


def fresh_like(shape, elem, *srcs, **meta):
    m = {}
    dts = []
    for t in srcs:
        if isinstance(t, STensor):
            if 'kind' in t.meta and 'kind' not in m:
                m['kind'] = t.meta['kind']
            if 'dtype' in t.meta:
                dts.append(t.meta['dtype'])
    if dts:
        d0 = dts[0]
        for d in dts[1:]:
            if isinstance(d, DTMismatch) or isinstance(d0, DTMismatch) or not (d == d0):
                d0 = d0 if isinstance(d0, DTMismatch) else (d if isinstance(d, DTMismatch) else DTMismatch(d0, d))
        m['dtype'] = d0
        if isinstance(d0, DTMismatch) and CUR.ctx is not None:
            CUR.ctx.notes.append(('dtype-mismatch', repr(d0)))
    m.update(meta)
    m.setdefault('contig', True)
    return STensor(shape, elem, meta=m)


class PList:
    """periodic python list  base * count  with symbolic count, plus the element writes made since (index, value)"""
    def __init__(s, base, count):
        s.base = list(base)
        s.count = count
        s.writes = []

    def length(s):
        return simp(I(s.count) * len(s.base))

    def _norm(s, k):
        c = ctx()
        n = s.length()
        if is_conc(k) and k < 0:
            k = simp(I(n) + k)
        if not c.entails(z3.And(I(k) >= 0, I(k) < I(n))):
            if c.decide(z3.And(I(k) >= 0, I(k) < I(n))) is False:
                from .interp import Raised
                raise Raised('IndexError', 'list index out of range')
        return k

    def get(s, k):
        if isinstance(k, slice):
            raise Unsupported('slice of a symbolic-length list')
        k = s._norm(k)
        c = ctx()
        for idx, v in reversed(s.writes):
            if c.decide(I(idx) == I(k)):
                return v
        if len(s.base) == 1:
            return s.base[0]
        if is_conc(k):
            return s.base[k % len(s.base)]
        raise Unsupported('symbolic index into a periodic list with period > 1')

    def set(s, k, v):
        if isinstance(k, slice):
            raise Unsupported('slice assignment into a symbolic-length list')
        s.writes.append((s._norm(k), v))


# ---- slicing ---------------------------------------------------------------
def norm_slice(sl, n):
    """python slice over a dimension of (possibly symbolic) length n.
    returns (start, step, length); step is a concrete int."""
    c = ctx()
    step = 1 if sl.step is None else sl.step
    if not is_conc(step):
        raise Unsupported('symbolic slice step')
    n = simp(n)
    if step > 0:
        def clamp(v, default):
            if v is None:
                return default
            v = simp(v)
            if is_conc(v) and is_conc(n):
                if v < 0:
                    v = max(v + n, 0)
                return min(v, n)
            v = I(v)
            if c.decide(v < 0):
                v2 = simp(v + n)
                if c.decide(I(v2) < 0):
                    return 0
                return v2
            if c.decide(v > I(n)):
                return n
            return simp(v)
        a = clamp(sl.start, 0)
        b = clamp(sl.stop, n)
        if is_conc(a) and is_conc(b):
            ln = max(0, (b - a + step - 1) // step)
        else:
            if c.decide(I(b) <= I(a)):
                ln = 0
            else:
                ln = simp((I(b) - I(a) + step - 1) / step) if step != 1 else simp(I(b) - I(a))
        return a, step, ln
    if step == -1 and sl.start is None and sl.stop is None:
        return simp(I(n) - 1), -1, n
    if step == -1 and is_conc(n):
        r = range(n)[sl]
        return (r.start if len(r) else 0), -1, len(r)
    raise Unsupported('negative-step slice with symbolic bounds')


def _expand_key(key, ndim):
    if not isinstance(key, tuple):
        key = (key,)
    key = tuple(key)
    if any(k is Ellipsis for k in key):
        i = [k is Ellipsis for k in key].index(True)
        nn = sum(1 for k in key if k is not None and k is not Ellipsis)
        key = key[:i] + (slice(None),) * (ndim - nn) + key[i + 1:]
    nreal = sum(1 for k in key if k is not None)
    if nreal > ndim:
        raise Raised('IndexError', 'too many indices')
    key = key + (slice(None),) * (ndim - nreal)
    return key


def tget(x, key):
    """x[key] for basic and (1-D / paired 2-D) integer-array indexing"""
    c = ctx()
    key = _expand_key(key, x.ndim)
    plan = []
    shape = []
    d = 0
    adv = [k for k in key if isinstance(k, IArr)]
    for k in key:
        if k is None:
            plan.append(('new',))
            shape.append(1)
            continue
        n = x.shape[d]
        if isinstance(k, slice):
            a, st, ln = norm_slice(k, n)
            plan.append(('sl', a, st))
            shape.append(simp(ln))
        elif isinstance(k, IArr):
            if k.den != 1 or k.dtype not in ('int', 'float'):
                # (numpy float64 index arrays holding integers are accepted by
                # torch 2.x - checked by the axiom twins)
                raise Raised('IndexError', 'tensors used as indices must be long, byte or bool tensors')
            plan.append(('ix', k))
            if k is adv[0]:
                shape.extend(k.shape)
            kk = tuple(fresh_int('b') for _ in k.shape)
            v = k.elem(list(kk))
            rng = z3.And(*[z3.And(q >= 0, q < I(m)) for q, m in zip(kk, k.shape)])
            c.require('gather-in-bounds', z3.Implies(rng, z3.And(v >= -I(n), v < I(n))))
        elif is_conc(k) or isz(k):
            kk = k
            if is_conc(k) and k < 0:
                kk = simp(I(n) + k)
            elif isz(k):
                if c.decide(I(k) < 0):
                    kk = simp(I(n) + I(k))
            if not c.entails(z3.And(I(kk) >= 0, I(kk) < I(n))):
                if c.decide(z3.And(I(kk) >= 0, I(kk) < I(n))) is False:
                    raise Raised('IndexError', 'index out of range')
            plan.append(('int', kk))
        else:
            raise Unsupported('index %r' % (k,))
        d += 1
    if adv:
        for k in adv[1:]:
            if len(k.shape) != len(adv[0].shape):
                raise Unsupported('index arrays of different rank')
        # adjacent advanced indices keep their position (true for all uses here)
    nadv = len(adv[0].shape) if adv else 0

    def imap(idx, plan=plan):
        src = []
        it = iter(idx)
        advidx = None
        for p in plan:
            if p[0] == 'new':
                next(it)
            elif p[0] == 'sl':
                i = next(it)
                src.append(simp(I(p[1]) + p[2] * I(i)) if p[2] != 1 else simp(I(p[1]) + I(i)))
            elif p[0] == 'ix':
                if advidx is None:
                    advidx = [next(it) for _ in range(nadv)]
                v = p[1].elem(list(advidx))
                src.append(v)
            else:
                src.append(p[1])
        return src
    if adv:
        # advanced indexing copies; negative indices wrap (numpy/torch semantics)
        xs = x.snap()
        dims = [x.shape[i] for i, p in enumerate([q for q in plan if q[0] != 'new'])]

        def elem(idx):
            src = imap(idx)
            src2 = []
            pi = 0
            for p in [q for q in plan if q[0] != 'new']:
                v = src[pi]
                if p[0] == 'ix':
                    v = z3.If(I(v) < 0, I(v) + I(dims[pi]), I(v))
                src2.append(simp(v))
                pi += 1
            return xs(src2)
        return fresh_like(shape, elem, x)
    pm = x.imap
    if pm is None:
        full = imap
    else:
        full = lambda idx: pm(imap(idx))
    meta = dict(x.meta)
    meta['contig'] = False
    xinv = x.inverse()
    inv = None
    if xinv is not None and all(p[0] != 'sl' or p[2] >= 1 for p in plan):
        vshape = list(shape)

        def inv(bidx, plan=plan, xinv=xinv, vshape=vshape):
            cx, src = xinv(bidx)
            conds = [B(cx)]
            vidx = []
            si = 0
            for vd, p in enumerate(plan):
                if p[0] == 'new':
                    vidx.append(0)
                elif p[0] == 'sl':
                    sv = src[si]
                    si += 1
                    a, st = p[1], p[2]
                    ln = vshape[len(vidx)]
                    conds.append(I(sv) >= I(a))
                    conds.append(I(sv) < I(a) + I(ln) * st)
                    if st != 1:
                        conds.append((I(sv) - I(a)) % st == 0)
                        vidx.append(simp((I(sv) - I(a)) / st))
                    else:
                        vidx.append(simp(I(sv) - I(a)))
                else:
                    conds.append(I(src[si]) == I(p[1]))
                    si += 1
            return simp(z3.And(*conds)), vidx
    return STensor(shape, base=x.base, imap=full, meta=meta, inv=inv)


class MaskT:
    """boolean mask over a term-mode tensor (result of comparing tensor DATA with a scalar): elementwise z3 Bool"""
    def __init__(s, shape, fn):
        s.shape = tuple(shape)
        s.fn = fn


def t_compare(op, a, b):
    """tensor <op> scalar on term-mode data -> MaskT (kernel-mode data cannot be compared: the result would not be linear)"""
    import operator as _o
    f = {'==': _o.eq, '!=': _o.ne, '<': _o.lt, '<=': _o.le, '>': _o.gt, '>=': _o.ge}[op]
    if not isinstance(a, STensor):
        a, b = b, a
        f = {'==': _o.eq, '!=': _o.ne, '<': _o.gt, '<=': _o.ge, '>': _o.lt, '>=': _o.le}[op]
    if isinstance(b, STensor):
        raise Unsupported('comparison of two tensors')
    xs = a.snap()
    rhs = TV.of(Fr(b) if isinstance(b, float) else b)

    def fn(idx):
        v = xs(list(idx))
        if not isinstance(v, TV):
            raise Unsupported('comparison of tensor data (kernel mode)')
        return f(v.e, rhs.e)
    return MaskT(a.shape, fn)


def tset_mask(obj, mask, val):
    """obj[mask] = scalar, through views; term mode only"""
    oinv = obj.inverse()
    if oinv is None:
        raise Unsupported('masked assignment through an unstructured view')
    if isinstance(val, STensor):
        raise Unsupported('masked assignment of a tensor')
    v = TV.of(Fr(val) if isinstance(val, float) else val)
    old = obj.base.elem
    ctx().effects.append(('write', obj.base, 'masked-setitem'))

    def elem(bidx):
        member, idx = oinv(bidx)
        o = old(bidx)
        if not isinstance(o, TV):
            raise Unsupported('masked assignment on kernel-mode data')
        cnd = z3.And(B(member), mask.fn(idx))
        return TV(z3.If(cnd, v.e, o.e), z3.If(cnd, 0, o.d) if o.d is not None else None)
    obj.base.elem = elem


def tset(obj, key, val):
    """obj[key] = val (basic slices / ints), obj must be a base tensor"""
    if isinstance(key, MaskT):
        return tset_mask(obj, key, val)
    c = ctx()
    oinv = obj.inverse()
    if oinv is None:
        raise Unsupported('slice assignment through an unstructured view (reshape / expand)')
    key = _expand_key(key, obj.ndim)
    if any(k is None or isinstance(k, IArr) for k in key):
        raise Unsupported('advanced slice assignment')
    plans = []
    vshape = []
    for k, n in zip(key, obj.shape):
        if isinstance(k, slice):
            a, st, ln = norm_slice(k, n)
            if st < 1:
                raise Unsupported('negative step assignment')
            plans.append(('sl', a, st, ln))
            vshape.append(ln)
        else:
            kk = k
            if is_conc(k) and k < 0:
                kk = simp(I(n) + k)
            plans.append(('int', kk))
    old = obj.base.elem
    if isinstance(val, STensor):
        vs = val.snap()
        vsh = val.shape
        off = len(vshape) - len(vsh)
        if off < 0:
            raise Raised('RuntimeError', 'shape mismatch in assignment')
        for a_, b_ in zip(vshape[off:], vsh):
            if not (is_conc(b_) and b_ == 1):
                c.require('setitem-shape', I(a_) == I(b_))

        def vget(src):
            src = src[off:]
            src = [0 if (is_conc(m) and m == 1) else i for i, m in zip(src, vsh)]
            return vs(src)
    else:
        cv = lift(val)
        vget = lambda src: cv
    c.effects.append(('write', obj.base, 'setitem'))

    def elem(bidx):
        member, idx = oinv(bidx)
        inside = [B(member)]
        src = []
        for i, p in zip(idx, plans):
            if p[0] == 'sl':
                _, a, st, ln = p
                inside.append(I(i) >= I(a))
                inside.append(I(i) < I(a) + I(ln) * st)
                if st != 1:
                    inside.append((I(i) - I(a)) % st == 0)
                    src.append(simp((I(i) - I(a)) / st))
                else:
                    src.append(simp(I(i) - I(a)))
            else:
                inside.append(I(i) == I(p[1]))
        ins = simp(z3.And(*inside)) if inside else True
        if ins is False:
            return old(bidx)
        return vget(src).guard(ins) + old(bidx).guard(simp(z3.Not(B(ins))))
    obj.base.elem = elem


# ---- broadcasting arithmetic -------------------------------------------------
def bshape(sa, sb):
    c = ctx()
    n = max(len(sa), len(sb))
    sa = (1,) * (n - len(sa)) + tuple(sa)
    sb = (1,) * (n - len(sb)) + tuple(sb)
    out = []
    for a, b in zip(sa, sb):
        if is_conc(a) and a == 1:
            out.append(b)
        elif is_conc(b) and b == 1:
            out.append(a)
        else:
            if not c.entails(I(a) == I(b)):
                if c.decide(I(a) == I(b)) is False:
                    raise Raised('RuntimeError', 'size mismatch in broadcast')
            out.append(a)
    return tuple(out)


def bget(snapf, shape, outshape):
    n = len(outshape)
    off = n - len(shape)

    def g(idx):
        src = [0 if (is_conc(m) and m == 1) else i for i, m in zip(idx[off:], shape)]
        return snapf(src)
    return g


def t_bin(op, a, b):
    """op in '+','-','*','/'"""
    ta = isinstance(a, STensor)
    tb = isinstance(b, STensor)
    if ta and tb:
        shape = bshape(a.shape, b.shape)
        fa = bget(a.snap(), a.shape, shape)
        fb = bget(b.snap(), b.shape, shape)
    elif ta:
        shape = a.shape
        fa = a.snap()
        fb = lambda idx: b
    else:
        shape = b.shape
        fb = b.snap()
        fa = lambda idx: a
    def _tv(p, q):
        return isinstance(p, TV) or isinstance(q, TV)
    if op == '+':
        f = lambda p, q: (TV.of(p) + TV.of(q)) if _tv(p, q) else (lift(p) + lift(q) if not isinstance(p, GS) else p + q)
    elif op == '-':
        f = lambda p, q: (TV.of(p) - TV.of(q)) if _tv(p, q) else (lift(p) - q if not isinstance(p, GS) else p - q)
    elif op == '*':
        f = lambda p, q: (TV.of(p) * TV.of(q)) if _tv(p, q) else ((p * q) if isinstance(p, GS) else (q * p if isinstance(q, GS) else lift(p) * q))
    elif op == '/':
        def f(p, q):
            if _tv(p, q):
                return TV.of(p) / TV.of(q)
            if isinstance(q, GS):
                raise Unsupported('division by data (non-linear)')
            return lift(p) / q
    else:
        raise Unsupported('tensor op ' + op)
    return fresh_like(shape, lambda idx: f(fa(idx), fb(idx)), a if ta else b, b if tb else a)


# ---- shape manipulation ----------------------------------------------------------
def mul_lin(i, ibound, size):
    """i*size kept linear: size concrete, or i ranges over a concrete bound"""
    i = simp(i)
    size = simp(size)
    if is_conc(size) or is_conc(i):
        return simp(I(i) * I(size))
    ibound = simp(ibound)
    if not is_conc(ibound):
        k = ctx().forced_value(ibound)
        ibound = k if k is not None else ibound
    if is_conc(ibound) and ibound <= 64:
        return z3.Sum([z3.If(I(i) == t, t * I(size), 0) for t in range(ibound)])
    raise Unsupported('non-linear index product')


def divmod_lin(f, size, qbound):
    """(f div size, f mod size) kept linear"""
    size = simp(size)
    if is_conc(size):
        if size == 1:
            return simp(f), 0
        return simp(I(f) / size), simp(I(f) % size)
    qbound = simp(qbound)
    if not is_conc(qbound):
        k = ctx().forced_value(qbound)
        qbound = k if k is not None else qbound
    if is_conc(qbound) and qbound <= 64:
        if qbound == 1:
            return 0, simp(f)
        q = z3.Sum([z3.If(z3.And(I(f) >= t * I(size), I(f) < (t + 1) * I(size)), t, 0) for t in range(qbound)])
        r = z3.Sum([z3.If(z3.And(I(f) >= t * I(size), I(f) < (t + 1) * I(size)), I(f) - t * I(size), 0)
                    for t in range(qbound)])
        return q, r
    raise Unsupported('non-linear index division')


def _prod(ds):
    p = 1
    for d in ds:
        p = simp(I(p) * I(d)) if (isz(p) or isz(d)) else p * d
    return p


def reshape_groups(old, new):
    """align old and new shapes into groups with equal products"""
    c = ctx()
    new = list(new)
    old = list(old)
    if any(is_conc(d) and d == -1 for d in new):
        k = [is_conc(d) and d == -1 for d in new].index(True)
        known = _prod([d for i, d in enumerate(new) if i != k])
        tot = _prod(old)
        if is_conc(known) and is_conc(tot):
            if known == 0 or tot % known:
                raise Raised('RuntimeError', 'shape is invalid for input size')
            new[k] = tot // known
        else:
            # cancel syntactically equal factors first
            o2 = list(old)
            n2 = [d for i, d in enumerate(new) if i != k]
            for d in list(n2):
                for e in o2:
                    if simp(I(d) - I(e)) == 0:
                        o2.remove(e)
                        n2.remove(d)
                        break
            num = _prod(o2)
            den = _prod(n2)
            if is_conc(den) and den == 1:
                q = num
            elif is_conc(den):
                q = simp(I(num) / den)
                c.require('reshape-size', I(num) == I(q) * den)
            else:
                raise Unsupported('cannot infer -1 in reshape')
            new[k] = q
    groups = []
    i = j = 0
    while i < len(old) or j < len(new):
        go, gn = [], []
        po = pn = None
        # start a group
        if i < len(old):
            go.append(i)
            po = old[i]
            i += 1
        if j < len(new):
            gn.append(j)
            pn = new[j]
            j += 1
        if po is None:
            po = 1
        if pn is None:
            pn = 1
        guard = 0
        while not c.entails(I(po) == I(pn)):
            guard += 1
            if guard > 12:
                raise Raised('RuntimeError', 'shape is invalid for input size')
            # grow the smaller side (all extents are >= 1, so <= suffices to pick it)
            can_new, can_old = j < len(new), i < len(old)
            if can_new and (not can_old or c.entails(I(pn) <= I(po))):
                gn.append(j)
                pn = mulsym(pn, new[j])
                j += 1
            elif can_old and (not can_new or c.entails(I(po) <= I(pn))):
                go.append(i)
                po = mulsym(po, old[i])
                i += 1
            elif can_new and is_conc(simp(new[j])):
                gn.append(j)
                pn = mulsym(pn, new[j])
                j += 1
            elif can_old:
                go.append(i)
                po = mulsym(po, old[i])
                i += 1
            else:
                raise Raised('RuntimeError', 'shape is invalid for input size')
        groups.append((go, gn))
    return new, groups


def mulsym(a, b):
    a, b = simp(a), simp(b)
    if is_conc(a) or is_conc(b):
        return simp(I(a) * I(b))
    for p, q in ((a, b), (b, a)):          # an extent the path condition pins to a constant (e.g. batch == 1)
        k = ctx().forced_value(p)
        if k is not None:
            return simp(k * I(q))
    raise Unsupported('product of two symbolic extents in reshape')


def t_reshape(x, *shape):
    if len(shape) == 1 and isinstance(shape[0], (tuple, list)):
        shape = tuple(shape[0])
    shape = tuple(simp(d) for d in shape)
    new, groups = reshape_groups(x.shape, shape)
    old = x.shape

    def imap(idx):
        src = [None] * len(old)
        for go, gn in groups:
            if len(go) == 1 and len(gn) == 1:
                src[go[0]] = idx[gn[0]]
                continue
            # flat offset within group (row-major over the new dims)
            flat = 0
            for pos, j in enumerate(gn):
                inner = _prod_lin([new[q] for q in gn[pos + 1:]])
                flat = simp(I(flat) + I(mul_lin(idx[j], new[j], inner)))
            # unflatten over the old dims
            rem = flat
            for pos, i in enumerate(go):
                inner = _prod_lin([old[q] for q in go[pos + 1:]])
                if pos == len(go) - 1:
                    src[i] = simp(rem)
                else:
                    q, rem = divmod_lin(rem, inner, old[i])
                    src[i] = simp(q)
        for k, v in enumerate(src):
            if v is None:
                src[k] = 0
        return src
    pm = x.imap
    full = imap if pm is None else (lambda idx: pm(imap(idx)))
    meta = dict(x.meta)
    return STensor(new, base=x.base, imap=full, meta=meta)


def _prod_lin(ds):
    p = 1
    for d in ds:
        p = mulsym(p, d)
    return p


def t_transpose(x, d0, d1):
    n = x.ndim
    d0 %= n
    d1 %= n
    perm = list(range(n))
    perm[d0], perm[d1] = perm[d1], perm[d0]
    return t_permute(x, perm)


def t_permute(x, perm):
    shape = [x.shape[p] for p in perm]

    def imap(idx):
        src = [None] * len(perm)
        for k, p in enumerate(perm):
            src[p] = idx[k]
        return src
    pm = x.imap
    full = imap if pm is None else (lambda idx: pm(imap(idx)))
    meta = dict(x.meta)
    meta['contig'] = False
    xinv = x.inverse()
    inv = None
    if xinv is not None:
        def inv(bidx):
            cx, xi = xinv(bidx)
            return cx, [xi[p] for p in perm]
    return STensor(shape, base=x.base, imap=full, meta=meta, inv=inv)


def t_contiguous(x):
    t = fresh_like(x.shape, x.snap(), x, **{k: v for k, v in x.meta.items() if k in ('name',)})
    t.base.may_alias.append(x.base)
    return t


def t_cat(ts, dim=0):
    c = ctx()
    if isinstance(ts, PList):
        return t_cat_plist(ts, dim)
    ts = list(ts)
    for t in ts:
        if not isinstance(t, STensor):
            raise Raised('TypeError', 'cat of non-tensor')
    r = ts[0].ndim
    dim %= r
    sizes = [t.shape[dim] for t in ts]
    offs = [0]
    for s_ in sizes:
        offs.append(simp(I(offs[-1]) + I(s_)))
    shape = list(ts[0].shape)
    shape[dim] = offs[-1]
    for t in ts[1:]:
        if t.ndim != r:
            raise Raised('RuntimeError', 'cat rank mismatch')
        for k in range(r):
            if k != dim:
                c.require('cat-shape', I(t.shape[k]) == I(ts[0].shape[k]))
    snaps = [t.snap() for t in ts]

    def elem(idx):
        i = idx[dim]
        out = ZERO
        for sn, o, s_ in zip(snaps, offs, sizes):
            j = list(idx)
            j[dim] = simp(I(i) - I(o))
            g = simp(z3.And(I(i) >= I(o), I(i) < I(o) + I(s_)))
            if g is False:
                continue
            out = out + sn(j).guard(g)
        return out
    return fresh_like(shape, elem, *ts)


def t_cat_plist(pl, dim):
    if dim != 0 or not all(is_conc(t.shape[0]) for t in pl.base):
        raise Unsupported('cat of periodic list along dim != 0')
    sizes = [t.shape[0] for t in pl.base]
    P = sum(sizes)
    shape = list(pl.base[0].shape)
    shape[0] = simp(P * I(pl.count))
    snaps = [t.snap() for t in pl.base]

    def elem(idx):
        out = ZERO
        r = simp(I(idx[0]) % P) if P > 1 else 0
        off = 0
        for sz, sn in zip(sizes, snaps):
            for j in range(sz):
                g = simp(I(r) == off + j) if P > 1 else True
                if g is not False:
                    out = out + sn([j] + list(idx[1:])).guard(g)
            off += sz
        return out
    return fresh_like(shape, elem, *pl.base)


def t_stack(ts, dim=0):
    ts = list(ts)
    r = ts[0].ndim
    if dim < 0:
        dim += r + 1
    c = ctx()
    for t in ts[1:]:
        for a, b in zip(t.shape, ts[0].shape):
            c.require('stack-shape', I(a) == I(b))
    shape = list(ts[0].shape)
    shape.insert(dim, len(ts))
    snaps = [t.snap() for t in ts]

    def elem(idx):
        j = list(idx[:dim]) + list(idx[dim + 1:])
        out = ZERO
        for k, sn in enumerate(snaps):
            g = simp(I(idx[dim]) == k)
            if g is False:
                continue
            out = out + sn(j).guard(g)
        return out
    return fresh_like(shape, elem, *ts)


def t_unbind(x, dim=0):
    dim %= x.ndim
    n = x.shape[dim]
    if not is_conc(n):
        raise Unsupported('unbind along a symbolic extent')
    out = []
    for k in range(n):
        key = (slice(None),) * dim + (k,)
        out.append(tget(x, key))
    return tuple(out)


def t_index_select(x, dim, index):
    dim %= x.ndim
    if not isinstance(index, (list, tuple)):
        raise Unsupported('index_select with symbolic index')
    shape = list(x.shape)
    shape[dim] = len(index)
    xs = x.snap()
    c = ctx()
    for k in index:
        c.require('index_select-in-bounds', z3.And(k >= 0, k < I(x.shape[dim])))

    def elem(idx):
        out = ZERO
        for pos, k in enumerate(index):
            g = simp(I(idx[dim]) == pos)
            if g is False:
                continue
            j = list(idx)
            j[dim] = k
            out = out + xs(j).guard(g)
        return out
    return fresh_like(shape, elem, x)


def t_repeat(x, *reps):
    if len(reps) == 1 and isinstance(reps[0], (tuple, list)):
        reps = tuple(reps[0])
    if len(reps) != x.ndim:
        raise Unsupported('repeat with rank change')
    shape = []
    for r, d in zip(reps, x.shape):
        if is_conc(r) and r == 1:
            shape.append(d)
        elif is_conc(d) and d == 1:
            shape.append(r)
        else:
            raise Unsupported('repeat of a non-unit extent')
    xs = x.snap()
    osh = x.shape

    def elem(idx):
        return xs([0 if (is_conc(m) and m == 1) else i for i, m in zip(idx, osh)])
    return fresh_like(shape, elem, x)


def t_zeros(shape, **meta):
    return STensor(tuple(shape), lambda idx: ZERO, meta=dict(meta, contig=True))


# ---- convolution primitives ---------------------------------------------------------
UNROLL = 1


def _pair(v):
    if isinstance(v, (tuple, list)):
        return tuple(v)
    return (v, v)


def _chan_mult(cout, groups):
    c = ctx()
    for cand in (1, 2, 4, 3):
        if c.entails(I(cout) == cand * I(groups)):
            return cand
    raise Unsupported('cannot relate conv out-channels to groups')


def f_conv2d(x, w, bias=None, stride=1, padding=0, dilation=1, groups=1):
    c = ctx()
    if bias is not None:
        raise Unsupported('conv bias')
    st = _pair(stride)
    pd = _pair(padding)
    dl = _pair(dilation)
    if x.ndim != 4 or w.ndim != 4:
        raise Raised('RuntimeError', 'conv2d expects 4-D')
    Bn, Cin, H, W = x.shape
    Cout, cig, kH, kW = w.shape
    if not (is_conc(cig) and cig == 1):
        raise Unsupported('conv2d with more than one input channel per group')
    if not c.entails(I(Cin) == I(groups)):
        if c.decide(I(Cin) == I(groups)) is False:
            raise Raised('RuntimeError', 'conv2d channel/groups mismatch')
    m = _chan_mult(Cout, groups)
    Ho = simp((I(H) + 2 * I(pd[0]) - I(dl[0]) * (I(kH) - 1) - 1) / st[0] + 1) if st[0] != 1 else \
        simp(I(H) + 2 * I(pd[0]) - I(dl[0]) * (I(kH) - 1))
    Wo = simp((I(W) + 2 * I(pd[1]) - I(dl[1]) * (I(kW) - 1) - 1) / st[1] + 1) if st[1] != 1 else \
        simp(I(W) + 2 * I(pd[1]) - I(dl[1]) * (I(kW) - 1))
    for nm, o in (('H', Ho), ('W', Wo)):
        if not c.entails(I(o) >= 1):
            if c.decide(I(o) >= 1) is False:
                raise Raised('RuntimeError', 'conv2d: kernel larger than padded input')
    xs = x.snap()
    ws = w.snap()

    def taps(k):
        k = simp(k)
        if is_conc(k) and k <= UNROLL:
            return [(a, None) for a in range(k)]
        a = fresh_int('a')
        return [(a, (a, 0, k))]

    def elem(idx):
        b, oc, i, j = idx
        ic = simp(I(oc) / m) if m != 1 else oc
        out = ZERO
        for a, ba in taps(kH):
            for q, bq in taps(kW):
                r = simp(I(i) * st[0] + mul_dil(a, dl[0]) - I(pd[0]))
                s_ = simp(I(j) * st[1] + mul_dil(q, dl[1]) - I(pd[1]))
                inb = z3.And(I(r) >= 0, I(r) < I(H), I(s_) >= 0, I(s_) < I(W))
                t = (ws([oc, 0, a, q]) * xs([b, ic, r, s_])).guard(inb)
                if ba:
                    t = t.bind(*ba)
                if bq:
                    t = t.bind(*bq)
                out = out + t
        return out
    return fresh_like((Bn, Cout, Ho, Wo), elem, x)


def mul_dil(a, d):
    d = simp(d)
    if is_conc(d):
        return I(a) * d
    if is_conc(a):
        return a * I(d)
    raise Unsupported('symbolic dilation times symbolic tap index')


def f_conv_transpose2d(x, w, bias=None, stride=1, padding=0, output_padding=0, groups=1, dilation=1):
    c = ctx()
    st = _pair(stride)
    pd = _pair(padding)
    dl = _pair(dilation)
    if dl != (1, 1) or _pair(output_padding) != (0, 0) or bias is not None:
        raise Unsupported('conv_transpose2d options')
    Bn, Cin, H, W = x.shape
    Cw, cog, kH, kW = w.shape
    if not (is_conc(cog) and cog == 1):
        raise Unsupported('conv_transpose2d with several out-channels per group')
    if not c.entails(I(Cw) == I(Cin)):
        if c.decide(I(Cw) == I(Cin)) is False:
            raise Raised('RuntimeError', 'conv_transpose2d weight/in-channel mismatch')
    cig = _chan_mult(Cin, groups)
    Cout = groups
    Ho = simp((I(H) - 1) * st[0] - 2 * I(pd[0]) + (I(kH) - 1) + 1)
    Wo = simp((I(W) - 1) * st[1] - 2 * I(pd[1]) + (I(kW) - 1) + 1)
    for o in (Ho, Wo):
        if not c.entails(I(o) >= 1):
            if c.decide(I(o) >= 1) is False:
                raise Raised('RuntimeError', 'conv_transpose2d: empty output')
    xs = x.snap()
    ws = w.snap()

    def taps(k):
        k = simp(k)
        if is_conc(k) and k <= UNROLL:
            return [(a, None) for a in range(k)]
        a = fresh_int('a')
        return [(a, (a, 0, k))]

    def elem(idx):
        b, oc, m_, n_ = idx
        out = ZERO
        for t_ in range(cig):
            icn = simp(I(oc) * cig + t_) if cig != 1 else oc
            for a, ba in taps(kH):
                for q, bq in taps(kW):
                    um = simp(I(m_) + I(pd[0]) - I(a))
                    un = simp(I(n_) + I(pd[1]) - I(q))
                    g = []
                    if st[0] != 1:
                        g.append(I(um) % st[0] == 0)
                        ui = simp(I(um) / st[0])
                    else:
                        ui = um
                    if st[1] != 1:
                        g.append(I(un) % st[1] == 0)
                        uj = simp(I(un) / st[1])
                    else:
                        uj = un
                    g += [I(um) >= 0, I(un) >= 0, I(ui) < I(H), I(uj) < I(W)]
                    t = (ws([icn, 0, a, q]) * xs([b, icn, ui, uj])).guard(z3.And(*g))
                    if ba:
                        t = t.bind(*ba)
                    if bq:
                        t = t.bind(*bq)
                    out = out + t
        return out
    return fresh_like((Bn, Cout, Ho, Wo), elem, x)


def f_pad(x, pad, mode='constant', value=0):
    c = ctx()
    pad = list(pad)
    if x.ndim != 4:
        raise Unsupported('F.pad on non 4-D tensor')
    l, r = pad[0], pad[1]
    t, bm = (pad[2], pad[3]) if len(pad) > 2 else (0, 0)
    Bn, C, H, W = x.shape
    xs = x.snap()
    shape = (Bn, C, simp(I(H) + I(t) + I(bm)), simp(I(W) + I(l) + I(r)))
    if mode == 'constant':
        if value != 0:
            raise Unsupported('non-zero constant pad')

        def elem(idx):
            b, ch, i, j = idx
            ii = simp(I(i) - I(t))
            jj = simp(I(j) - I(l))
            return xs([b, ch, ii, jj]).guard(z3.And(I(ii) >= 0, I(ii) < I(H), I(jj) >= 0, I(jj) < I(W)))
        return fresh_like(shape, elem, x)
    if mode == 'reflect':
        # torch: raises unless every pad is smaller than the corresponding extent
        ok = z3.And(I(l) < I(W), I(r) < I(W), I(t) < I(H), I(bm) < I(H))
        if c.decide(ok) is False:
            raise Raised('RuntimeError', 'Padding size should be less than the corresponding input dimension')

        def refl(k, n):
            return z3.If(I(k) < 0, -I(k), z3.If(I(k) >= I(n), 2 * (I(n) - 1) - I(k), I(k)))

        def elem(idx):
            b, ch, i, j = idx
            return xs([b, ch, simp(refl(simp(I(i) - I(t)), H)), simp(refl(simp(I(j) - I(l)), W))])
        return fresh_like(shape, elem, x)
    if mode == 'replicate':
        def clampi(k, n):
            return z3.If(I(k) < 0, 0, z3.If(I(k) >= I(n), I(n) - 1, I(k)))

        def elem(idx):
            b, ch, i, j = idx
            return xs([b, ch, simp(clampi(simp(I(i) - I(t)), H)), simp(clampi(simp(I(j) - I(l)), W))])
        return fresh_like(shape, elem, x)
    raise Raised('NotImplementedError', 'pad mode ' + str(mode))


def f_avg_pool2d(x, k):
    if k != 2:
        raise Unsupported('avg_pool2d kernel != 2')
    Bn, C, H, W = x.shape[-4:] if x.ndim == 4 else (None,) + tuple(x.shape)
    if x.ndim != 4:
        raise Unsupported('avg_pool2d rank')
    xs = x.snap()
    shape = (Bn, C, simp(I(H) / 2), simp(I(W) / 2))

    def elem(idx):
        b, ch, i, j = idx
        out = ZERO
        for a in (0, 1):
            for q in (0, 1):
                out = out + xs([b, ch, simp(2 * I(i) + a), simp(2 * I(j) + q)])
        return out * Fr(1, 4)
    return fresh_like(shape, elem, x)


def f_interpolate(x, scale_factor=None, mode='nearest'):
    if scale_factor != 2 or mode != 'nearest' or x.ndim != 4:
        raise Unsupported('interpolate options')
    Bn, C, H, W = x.shape
    xs = x.snap()

    def elem(idx):
        b, ch, i, j = idx
        return xs([b, ch, simp(I(i) / 2), simp(I(j) / 2)])
    return fresh_like((Bn, C, simp(2 * I(H)), simp(2 * I(W))), elem, x)
