"""Primitive axioms: what the torch / numpy / pywt calls used by the repository
mean on symbolic values (assumption A-prims; each has a concrete twin that is
compared with the installed library by native/twins.py)."""
import z3
from .sym import *
from . import sym
from . import front

# ---------------------------------------------------------------------------
# uninterpreted extension index maps shared by code contracts and specs
# ---------------------------------------------------------------------------
EXT_SYM = z3.Function('ext_sym', z3.IntSort(), z3.IntSort(), z3.IntSort())     # half-sample symmetric
WRAP = z3.Function('wrapidx', z3.IntSort(), z3.IntSort(), z3.IntSort())        # k mod n
EXT_REFL = z3.Function('ext_refl', z3.IntSort(), z3.IntSort(), z3.IntSort())  # whole-sample symmetric
POW2 = z3.Function('pow2', z3.IntSort(), z3.IntSort())


def uf_axioms():
    """defining facts of the uninterpreted index maps that obligations may use
    (quantified; instantiated by z3's E-matching)"""
    k, n = z3.Ints('k?ax n?ax')
    ax = [
        z3.ForAll([k, n], z3.Implies(n >= 1, z3.And(EXT_SYM(k, n) >= 0, EXT_SYM(k, n) < n)),
                  patterns=[EXT_SYM(k, n)]),
        z3.ForAll([k, n], z3.Implies(z3.And(k >= 0, k < n), EXT_SYM(k, n) == k), patterns=[EXT_SYM(k, n)]),
        z3.ForAll([k, n], z3.Implies(n >= 1, z3.And(WRAP(k, n) >= 0, WRAP(k, n) < n)), patterns=[WRAP(k, n)]),
        z3.ForAll([k, n], z3.Implies(z3.And(k >= 0, k < n), WRAP(k, n) == k), patterns=[WRAP(k, n)]),
        z3.ForAll([k, n], z3.Implies(z3.And(k >= n, k < 2 * n), WRAP(k, n) == k - n), patterns=[WRAP(k, n)]),
        z3.ForAll([k, n], z3.Implies(z3.And(k >= -n, k < 0), WRAP(k, n) == k + n), patterns=[WRAP(k, n)]),
        z3.ForAll([k], z3.Implies(k >= 0, POW2(k) >= 1), patterns=[POW2(k)]),
    ]
    return ax


def pow2(e):
    return POW2(I(e))


# ---------------------------------------------------------------------------
class GlobalDict:
    """module-level dict (COEFF_CACHE): symbolic 'present' predicate per key"""
    def __init__(s, name):
        s.name = name
        s.store = {}
        s.writes = []

    def contains(s, k):
        return k in s.store

    def get(s, k):
        if k in s.store:
            return s.store[k]
        raise Raised('KeyError', str(k))

    def set(s, k, v):
        s.store[k] = v
        s.writes.append(k)
        ctx().effects.append(('global-write', s.name, k))


class SymRange:
    def __init__(s, lo, hi):
        s.lo = lo
        s.hi = hi


class SList:
    """python list of symbolic length n (named prefix) plus concretely appended items"""
    def __init__(s, n, name, tail=None, src=None, rev=False):
        s.n = n
        s.name = name
        s.tail = list(tail or [])
        s.src = src
        s.rev = rev

    def m_append(s, v):
        if s.rev:
            raise Unsupported('append to a reversed symbolic list')
        s.tail.append(v)

    def get(s, k):
        if isinstance(k, slice) and k.start is None and k.stop is None and k.step == -1 and not s.tail:
            return SList(s.n, s.name, src=s.src or s, rev=not s.rev)
        if is_conc(k) and not isinstance(k, slice) and k == -1 and not s.rev:
            if s.tail:
                return s.tail[-1]
            if getattr(s, 'last', None) is not None:
                return s.last                     # the generic last element the invariant rule provides
        raise Unsupported('indexing a symbolic list')


# ---------------------------------------------------------------------------
# tensors: attributes and methods
# ---------------------------------------------------------------------------
class DType:
    def __init__(s, name):
        s.name = name

    def __repr__(s):
        return 'dtype:' + s.name

    def __eq__(s, o):
        return isinstance(o, DType) and o.name == s.name

    def __hash__(s):
        return hash(s.name)


F32 = DType('float32')
F64 = DType('float64')
DT_IN = DType('input')        # whatever dtype the designated input has
DT_DEFAULT = DType('default')   # torch.get_default_dtype() at call time


def tensor_attr(it, v, attr):
    if attr == 'shape':
        return v.shape
    if attr == 'ndim':
        return v.ndim
    if attr == 'device':
        return Opaque_('device')
    if attr == 'dtype':
        return v.meta.get('dtype', DT_IN)
    if attr == 'requires_grad':
        return v.meta.get('requires_grad', False)
    if attr == 'T':
        if v.ndim != 2:
            raise Unsupported('.T on non 2-D')
        return t_transpose(v, 0, 1)
    if attr in TMETH:
        f = TMETH[attr]
        return lambda *a, **k: f(it, v, *a, **k)
    raise Unsupported('tensor attribute ' + attr)


class Opaque_:
    def __init__(s, n):
        s.n = n


def _m_reshape(it, x, *shape):
    return t_reshape(x, *shape)


def _m_view(it, x, *shape):
    if x.meta.get('contig') is False:
        ctx().notes.append(('view-on-noncontiguous', str(x)))
    return t_reshape(x, *shape)


def _m_new_zeros(it, x, *shape, requires_grad=False, **kw):
    if 'size' in kw:
        shape = (kw.pop('size'),)
    if len(shape) == 1 and isinstance(shape[0], (list, tuple)):
        shape = tuple(shape[0])
    else:
        shape = tuple(shape)
    if kw.get('dtype') is not None:
        return t_zeros(shape, dtype=kw['dtype'], kind='torch', requires_grad=requires_grad)
    return t_zeros(shape, dtype=x.meta.get('dtype', DT_IN), kind='torch', requires_grad=requires_grad)


UNINIT = [0]


def _m_new_empty(it, x, *shape, **kw):
    """uninitialised memory: every element is a distinct unknown, so a result that still depends on one cannot match any spec"""
    if len(shape) == 1 and isinstance(shape[0], (list, tuple)):
        shape = tuple(shape[0])
    UNINIT[0] += 1
    nm = 'uninit%d' % UNINIT[0]
    dt = kw.get('dtype') if kw.get('dtype') is not None else x.meta.get('dtype', DT_IN)
    return STensor(tuple(shape), lambda idx, nm=nm: GS.atom(nm, idx, True), meta={'kind': 'torch', 'dtype': dt, 'contig': True})


def _m_ravel(it, x):
    if x.ndim == 1:
        return x
    return t_reshape(x, -1)


def _m_copy(it, x, *a):
    return fresh_like(x.shape, x.snap(), x)


def _m_np_transpose(it, x, *perm):
    if len(perm) == 1 and isinstance(perm[0], (tuple, list)):
        return t_permute(x, list(perm[0]))
    if len(perm) == 2 and x.meta.get('kind') != 'np':
        return t_transpose(x, perm[0], perm[1])
    return t_permute(x, list(perm))


def _note_cast(x, dt):
    """dtype ghost: data of the INPUT dtype forced into a fixed narrower float type loses precision for float64 callers"""
    src = x.meta.get('dtype', DT_IN)
    if isinstance(dt, DType) and dt.name in ('float32', 'float16', 'bfloat16') and not (src == dt) and CUR.ctx is not None:
        CUR.ctx.notes.append(('dtype-mismatch', 'data tagged %r cast to the fixed type %r (precision of a float64 input is lost)' % (src, dt)))


def _m_to_dtype(dt):
    def f(it, x):
        _note_cast(x, dt)
        t = fresh_like(x.shape, x.snap(), x)
        t.meta['dtype'] = dt
        return t
    return f


def _dims(x, d):
    if not is_conc(d):
        raise Unsupported('symbolic axis')
    if d < -x.ndim or d >= x.ndim:
        raise Raised('IndexError', 'Dimension out of range')
    return d % x.ndim


def _m_unsqueeze(it, x, d):
    if not is_conc(d):
        raise Unsupported('symbolic axis')
    d = d % (x.ndim + 1)
    key = [slice(None)] * x.ndim
    key.insert(d, None)
    return tget(x, tuple(key))


def _m_squeeze(it, x, d=None):
    ds = [k for k in range(x.ndim) if is_conc(x.shape[k]) and x.shape[k] == 1] if d is None else [_dims(x, d)]
    if d is None and any(not is_conc(n) for n in x.shape) and any(ctx().possible(I(n) == 1) for n in x.shape if not is_conc(n)):
        raise Unsupported('squeeze() of a tensor with symbolic extents that may be 1')
    key = []
    for k in range(x.ndim):
        if k in ds:
            if is_conc(x.shape[k]):
                key.append(0 if x.shape[k] == 1 else slice(None))
            elif ctx().decide(I(x.shape[k]) == 1):
                key.append(0)
            else:
                key.append(slice(None))
        else:
            key.append(slice(None))
    return tget(x, tuple(key))


def t_flip(x, dims):
    if is_conc(dims):
        dims = [dims]
    dims = [_dims(x, d) for d in dims]
    xs = x.snap()
    shp = x.shape

    def elem(idx):
        j = list(idx)
        for d in dims:
            j[d] = simp(I(shp[d]) - 1 - I(idx[d]))
        return xs(j)
    return fresh_like(shp, elem, x)          # torch.flip returns a copy


def t_roll(x, shifts, dims=None):
    if dims is None:
        raise Unsupported('torch.roll without dims')
    if not isinstance(dims, (list, tuple)):
        dims, shifts = [dims], [shifts]
    xs = x.snap()
    shp = x.shape
    norm = []
    for s_, d in zip(shifts, dims):
        d = _dims(x, d)
        n = shp[d]
        c = ctx()
        if is_conc(s_) and is_conc(n):
            s_ = s_ % n if n else 0
        elif c.decide(z3.And(I(s_) >= 0, I(s_) <= I(n))):
            pass
        elif c.decide(z3.And(I(s_) < 0, I(s_) >= -I(n))):
            s_ = simp(I(s_) + I(n))
        else:
            raise Unsupported('roll by more than the extent')
        norm.append((d, s_, n))

    def elem(idx):
        j = list(idx)
        for d, s_, n in norm:
            j[d] = simp(z3.If(I(idx[d]) - I(s_) >= 0, I(idx[d]) - I(s_), I(idx[d]) - I(s_) + I(n)))
        return xs(j)
    return fresh_like(shp, elem, x)


def t_chunk(x, chunks, dim=0):
    d = _dims(x, dim)
    n = x.shape[d]
    if not is_conc(chunks) or chunks < 1:
        raise Unsupported('chunk count')
    size = simp((I(n) + chunks - 1) / chunks)
    if not ctx().entails(I(size) * chunks == I(n)):
        raise Unsupported('chunk of an extent not known to be divisible')
    out = []
    for k in range(chunks):
        key = [slice(None)] * x.ndim
        key[d] = slice(simp(k * I(size)), simp((k + 1) * I(size)))
        out.append(tget(x, tuple(key)))
    return tuple(out)


def t_split(x, size, dim=0):
    d = _dims(x, dim)
    n = x.shape[d]
    if isinstance(size, (list, tuple)):
        out, a = [], 0
        for sz in size:
            key = [slice(None)] * x.ndim
            key[d] = slice(a, simp(I(a) + I(sz)))
            out.append(tget(x, tuple(key)))
            a = simp(I(a) + I(sz))
        ctx().require('split-sizes', I(a) == I(n))
        return tuple(out)
    if is_conc(n) and is_conc(size):
        return t_split(x, [min(size, n - a) for a in range(0, n, size)], dim)
    k = ctx().forced_value(simp(I(n) / I(size))) if ctx().entails(I(n) % I(size) == 0) else None
    if k is None:
        raise Unsupported('split with a symbolic number of pieces')
    return t_split(x, [size] * k, dim)


def _m_narrow(it, x, dim, start, length):
    d = _dims(x, dim)
    key = [slice(None)] * x.ndim
    key[d] = slice(start, simp(I(start) + I(length)))
    ctx().require('narrow-in-bounds', z3.And(I(start) >= 0, I(length) >= 0, I(start) + I(length) <= I(x.shape[d])))
    return tget(x, tuple(key))


def _m_flatten(it, x, start_dim=0, end_dim=-1):
    a, b = _dims(x, start_dim), _dims(x, end_dim)
    shape = list(x.shape[:a]) + [-1] + list(x.shape[b + 1:])
    return t_reshape(x, *shape)


def _m_expand(it, x, *sizes):
    if len(sizes) == 1 and isinstance(sizes[0], (list, tuple)):
        sizes = tuple(sizes[0])
    if len(sizes) < x.ndim:
        raise Raised('RuntimeError', 'expand: fewer sizes than dimensions')
    lead = len(sizes) - x.ndim
    shape, src = [], []
    for k, sz in enumerate(sizes):
        if k < lead:
            shape.append(sz)
            src.append(None)
            continue
        n = x.shape[k - lead]
        if is_conc(sz) and sz == -1:
            shape.append(n)
            src.append('same')
        elif ctx().entails(I(sz) == I(n)):
            shape.append(n)
            src.append('same')
        elif is_conc(n) and n == 1:
            shape.append(sz)
            src.append('zero')
        else:
            raise Raised('RuntimeError', 'expand: incompatible size')
    xs = x.snap()

    def elem(idx):
        j = []
        for k, how in enumerate(src):
            if how == 'same':
                j.append(idx[k])
            elif how == 'zero':
                j.append(0)
        return xs(j)
    t = fresh_like(shape, elem, x)
    t.base.may_alias.append(x.base)          # a view of x: writes through it are writes to x
    t.meta['contig'] = False
    return t


def _m_to(it, x, *a, **kw):
    dt = kw.get('dtype')
    for q in a:
        if isinstance(q, DType):
            dt = q
        elif isinstance(q, STensor):
            dt = q.meta.get('dtype', DT_IN)
    if dt is None:
        return x                      # device moves only
    _note_cast(x, dt)
    t = fresh_like(x.shape, x.snap(), x)
    t.meta['dtype'] = dt
    return t


def _const_tensor(val):
    def f(*shape, dtype=None, device=None, requires_grad=False):
        if len(shape) == 1 and isinstance(shape[0], (list, tuple)):
            shape = tuple(shape[0])
        v = Fr(val)
        return STensor(tuple(shape), lambda idx: lift(v), meta={'kind': 'torch', 'dtype': dtype if dtype is not None else DT_DEFAULT, 'contig': True})
    return f


def _const_like(val):
    def f(x, dtype=None, **kw):
        v = Fr(val)
        return STensor(x.shape, lambda idx: lift(v), meta={'kind': 'torch', 'dtype': dtype if dtype is not None else x.meta.get('dtype', DT_IN), 'contig': True})
    return f


def _torch_full(shape, fill, dtype=None, device=None, requires_grad=False):
    v = Fr(fill) if is_conc(fill) or isinstance(fill, float) else fill
    return STensor(tuple(shape), lambda idx: lift(v), meta={'kind': 'torch', 'dtype': dtype if dtype is not None else DT_DEFAULT, 'contig': True})


TMETH = {
    'clamp': lambda it, x, min=None, max=None: _t_clamp(x, min, max),
    'clamp_min': lambda it, x, min: _t_clamp(x, min, None),
    'clamp_max': lambda it, x, max: _t_clamp(x, None, max),
    'unflatten': lambda it, x, dim, sizes: _m_unflatten(x, dim, sizes),
    'movedim': lambda it, x, src, dst: _m_movedim(x, src, dst),
    'unbind': lambda it, x, dim=0: t_unbind(x, dim),
    'select': lambda it, x, dim, index: tget(x, tuple([slice(None)] * _dims(x, dim) + [index])),
    'index_select': lambda it, x, dim, index: t_index_select(x, dim, index),
    'permute': lambda it, x, *p: t_permute(x, [q % x.ndim for q in (p[0] if len(p) == 1 and isinstance(p[0], (list, tuple)) else p)]),
    'unsqueeze': _m_unsqueeze, 'squeeze': _m_squeeze,
    'flip': lambda it, x, *d: t_flip(x, d[0] if len(d) == 1 else list(d)),
    'roll': lambda it, x, shifts, dims=None: t_roll(x, shifts, dims),
    'chunk': lambda it, x, chunks, dim=0: t_chunk(x, chunks, dim),
    'split': lambda it, x, size, dim=0: t_split(x, size, dim),
    'narrow': _m_narrow, 'flatten': _m_flatten, 'expand': _m_expand,
    'expand_as': lambda it, x, o: _m_expand(it, x, *o.shape),
    'to': _m_to, 'type_as': lambda it, x, o: _m_to(it, x, o), 'type': lambda it, x, dt=None: _m_to(it, x, dtype=dt) if dt is not None else x.meta.get('dtype', DT_IN),
    'cpu': lambda it, x: x, 'cuda': lambda it, x, *a: x,
    'neg': lambda it, x: t_bin('*', x, -1),
    'add': lambda it, x, o: t_bin('+', x, o), 'sub': lambda it, x, o: t_bin('-', x, o),
    'mul': lambda it, x, o: t_bin('*', x, o), 'div': lambda it, x, o: t_bin('/', x, o),
    'new_ones': lambda it, x, shape, **kw: STensor(tuple(shape) if isinstance(shape, (list, tuple)) else (shape,), lambda idx: lift(Fr(1)),
                                                   meta={'kind': 'torch', 'dtype': x.meta.get('dtype', DT_IN), 'contig': True}),
    'numel': lambda it, x: x.numel(),
    'reshape': _m_reshape,
    'view': _m_view,
    'contiguous': lambda it, x: t_contiguous(x),
    'transpose': _m_np_transpose,
    'repeat': lambda it, x, *r: t_repeat(x, *r),
    'new_zeros': _m_new_zeros, 'new_empty': _m_new_empty,
    'copy_': lambda it, x, src: (tset(x, tuple([slice(None)] * x.ndim), src), x)[1],
    'add_': lambda it, x, o: (inplace_write(it, x, t_bin('+', x, o)), x)[1], 'mul_': lambda it, x, o: (inplace_write(it, x, t_bin('*', x, o)), x)[1],
    'div_': lambda it, x, o: (inplace_write(it, x, t_bin('/', x, o)), x)[1], 'sub_': lambda it, x, o: (inplace_write(it, x, t_bin('-', x, o)), x)[1],
    'zero_': lambda it, x: (tset(x, tuple([slice(None)] * x.ndim), 0), x)[1],
    'ravel': _m_ravel,
    'copy': _m_copy,
    'clone': _m_copy,
    'dim': lambda it, x: x.ndim,
    'size': lambda it, x, d=None: x.shape if d is None else x.shape[d],
    'float': _m_to_dtype(F32),
    'double': _m_to_dtype(F64),
    'half': _m_to_dtype(DType('float16')), 'bfloat16': _m_to_dtype(DType('bfloat16')),
    'detach': lambda it, x: x,
    'mean': lambda it, x, dim=None, keepdim=False: _t_reduce(x, dim, keepdim, True),
    'sum': lambda it, x, dim=None, keepdim=False: _t_reduce(x, dim, keepdim, False),
}


def _m_unflatten(x, dim, sizes):
    d = _dims(x, dim)
    sizes = list(sizes)
    if sum(1 for q in sizes if is_conc(q) and q == -1) > 1:
        raise Raised('RuntimeError', 'only one dimension can be inferred')
    return t_reshape(x, *(list(x.shape[:d]) + sizes + list(x.shape[d + 1:])))


def _m_movedim(x, src, dst):
    if not (is_conc(src) and is_conc(dst)):
        raise Unsupported('movedim with several / symbolic axes')
    s_, d_ = src % x.ndim, dst % x.ndim
    order = [k for k in range(x.ndim) if k != s_]
    order.insert(d_, s_)
    return t_permute(x, order)


def _t_clamp(x, lo, hi):
    """elementwise clamp: representable in term mode only (piecewise, not linear)"""
    xs = x.snap()

    def bound(v):
        if isinstance(v, STensor):
            raise Unsupported('clamp with tensor bounds')
        return None if v is None else TV.of(Fr(v) if isinstance(v, float) else v)
    lo_, hi_ = bound(lo), bound(hi)

    def elem(idx):
        v = xs(idx)
        if not isinstance(v, TV):
            raise Unsupported('clamp of data is non-linear (not representable in kernel mode)')
        e, d = v.e, v.d
        if lo_ is not None:
            c = e < lo_.e
            e, d = z3.If(c, lo_.e, e), (z3.If(c, 0, d) if d is not None else None)
        if hi_ is not None:
            c = e > hi_.e
            e, d = z3.If(c, hi_.e, e), (z3.If(c, 0, d) if d is not None else None)
        return TV(e, d)
    return fresh_like(x.shape, elem, x)


def _t_reduce(x, dim, keepdim, mean):
    if dim is None or not is_conc(dim):
        raise Unsupported('reduction over all / symbolic axes')
    d = dim % x.ndim
    n = x.shape[d]
    if not (is_conc(n) and n <= 16):
        raise Unsupported('reduction over a symbolic extent')
    xs = x.snap()
    shape = list(x.shape)
    if keepdim:
        shape[d] = 1
    else:
        del shape[d]

    def elem(idx):
        idx = list(idx)
        out = ZERO
        for k in range(n):
            src = idx[:d] + [k] + (idx[d + 1:] if keepdim else idx[d:])
            out = out + xs(src)
        return out * Fr(1, n) if mean else out
    return fresh_like(shape, elem, x)


def tensor_bin(op, a, b):
    if isinstance(b, Sqrt2) or isinstance(a, Sqrt2):
        if op == '/' and isinstance(b, Sqrt2):
            xs = a.snap()
            return fresh_like(a.shape, lambda idx: xs(idx).half(), a)
        if op == '*':
            t = a if isinstance(a, STensor) else b
            xs = t.snap()
            return fresh_like(t.shape, lambda idx: xs(idx) * SQRT2, t)
        raise Unsupported('sqrt(2) arithmetic')
    for v in (a, b):
        if isz(v):
            raise Unsupported('tensor arithmetic with a symbolic python int')
    return t_bin(op, a, b)


def _unused():
    pass


def t_pow(a, b):
    if isinstance(a, STensor) and is_conc(b) and b == 2:
        return t_bin('*', a, a)
    raise Unsupported('tensor power')


def inplace_write(it, cur, res):
    """x op= v  on a tensor name: writes x's storage"""
    if cur.imap is not None:
        return tset(cur, tuple([slice(None)] * cur.ndim), res)       # writes through a structured view
    rs = res.snap()
    ctx().effects.append(('write', cur.base, 'inplace-op'))
    cur.base.elem = rs


# ---------------------------------------------------------------------------
# torch namespace
# ---------------------------------------------------------------------------
def _torch_tensor(data, dtype=None, device=None, requires_grad=False):
    if isinstance(data, STensor):
        t = fresh_like(data.shape, data.snap(), data)
        t.meta['kind'] = 'torch'
        t.meta['dtype'] = dtype if dtype is not None else data.meta.get('dtype', DT_DEFAULT)
        t.meta['contig'] = True
        return t
    if isinstance(data, (list, tuple)) and all(is_conc(v) for v in data):
        return list(data)       # small integer index lists (index_select)
    if isinstance(data, float) or (isinstance(data, (int, Fr)) and not isinstance(data, bool)) or data is SQRT2:
        # 0-dim constant; a python float becomes a tensor of the DEFAULT dtype (the dtype ghost then records where it meets data)
        v = data if data is SQRT2 else Fr(data)
        dt = dtype if dtype is not None else (DT_DEFAULT if isinstance(data, float) or data is SQRT2 else DType('int64'))
        return STensor((), lambda idx: v, meta={'kind': 'torch', 'dtype': dt, 'contig': True})
    raise Unsupported('torch.tensor(%r)' % (data,))


def _torch_zeros(*shape, dtype=None, device=None, requires_grad=False):
    if len(shape) == 1 and isinstance(shape[0], (list, tuple)):
        shape = tuple(shape[0])
    return t_zeros(shape, dtype=dtype if dtype is not None else DT_DEFAULT, kind='torch')


def _torch_zeros_like(x, **kw):
    return t_zeros(x.shape, dtype=x.meta.get('dtype', DT_IN), kind='torch')


def _torch_reshape(x, shape):
    return t_reshape(x, *shape)


def _torch_size(x=()):
    return tuple(x)


def _torch_sqrt(x):
    xs = x.snap()

    def elem(idx):
        v = xs(idx)
        if isinstance(v, GS) and v.t:
            raise Unsupported('torch.sqrt of data is non-linear (not representable in kernel mode)')
        if isinstance(v, (int, Fr)) and v == 2:
            return SQRT2
        return tv_sqrt(v)
    return fresh_like(x.shape, elem, x)


def _unary_unsupported(name):
    def f(*a, **k):
        raise Unsupported('%s is non-linear (not representable in kernel mode)' % name)
    return f


TORCH_NS = None
F_NS = None
NP_NS = None
PYWT_NS = None
NN_NS = None


def _np_arange(a, b=None, dtype=None):
    if b is None:
        a, b = 0, a
    n = simp(I(b) - I(a))
    if isz(n):
        c = ctx()
        if not c.entails(n >= 0):
            if c.decide(n >= 0) is False:
                n = 0
    return IArr((n,), lambda k, a=a: simp(I(a) + I(k[0])), 1, 'int')


def fmod_int(a, b, Q):
    """C fmod on scaled integers: a - trunc(a/b)*b for b>0, |a| < (Q+1)*b"""
    cases = []
    for q in range(-Q, Q + 1):
        r = a - q * b
        if q > 0:
            cond = z3.And(r >= 0, r < b)
        elif q < 0:
            cond = z3.And(r <= 0, r > -b)
        else:
            cond = z3.And(r > -b, r < b)
        cases.append((cond, r))
    e = cases[0][1]
    for cond, r in cases[1:]:
        e = z3.If(cond, r, e)
    return e


class NPCFG:
    QB = 4     # quotient bound used when np.fmod is executed symbolically


def _np_fmod(x, y):
    X = as_iarr(x)
    Y = toQ(y)
    import math
    D = X.den * Y.den // math.gcd(X.den, Y.den)
    Q = NPCFG.QB

    def el(k):
        a = I(X.elem(k)) * (D // X.den)
        b = I(Y.num) * (D // Y.den)
        ctx().require('fmod-quotient-within-bound', z3.And(a < (Q + 1) * b, a > -(Q + 1) * b))
        return fmod_int(a, b, Q)
    return IArr(X.shape, el, D, 'float')


def _np_where(c, a, b):
    import math
    A, Bq = as_iarr(a), as_iarr(b)
    da = A.den if A else toQ(a).den
    db = Bq.den if Bq else toQ(b).den
    D = da * db // math.gcd(da, db)

    def el(k):
        x = A.elem(k) if A else toQ(a).num
        y = Bq.elem(k) if Bq else toQ(b).num
        return z3.If(c.elem(k), I(x) * (D // da), I(y) * (D // db))
    return IArr(c.shape, el, D, 'float' if D != 1 or (A and A.dtype == 'float') else 'int')


def _np_array(x, dtype=None):
    if isinstance(x, IArr):
        if dtype in ('int', 'int32', 'int64') or dtype == 'int':
            if x.den != 1:
                def el(k):
                    v = x.elem(k)
                    ctx().require('cast-exact', v % x.den == 0)
                    return simp(v / x.den)
                return IArr(x.shape, el, 1, 'int')
            return IArr(x.shape, x.elem, 1, 'int')
        return x
    if isinstance(x, STensor):
        t = fresh_like(x.shape, x.snap(), x)
        t.meta['kind'] = 'np'
        return t
    if isinstance(x, (list, tuple)):
        raise Unsupported('np.array of a python list of unknowns')
    raise Unsupported('np.array(%r)' % (x,))


def _np_pad(x, pw, mode='constant'):
    if mode != 'wrap' or not isinstance(x, IArr) or x.ndim != 1:
        raise Unsupported('np.pad other than wrap of a 1-D index array')
    a, b = pw
    n = x.shape[0]
    return IArr((simp(I(n) + I(a) + I(b)),), lambda k: x.elem([WRAP(simp(I(k[0]) - I(a)), I(n))]), x.den, x.dtype)


def _np_clip(x, lo, hi):
    if not isinstance(x, IArr) or x.den != 1:
        raise Unsupported('np.clip of a non-integer array')
    return IArr(x.shape, lambda k: z3.If(I(x.elem(k)) < I(lo), I(lo), z3.If(I(x.elem(k)) > I(hi), I(hi), I(x.elem(k)))), 1, x.dtype)


def _np_minmax(kind):
    def f(a, b):
        A, Bq = as_iarr(a), as_iarr(b)
        ref = A or Bq
        if ref is None or (A and A.den != 1) or (Bq and Bq.den != 1):
            raise Unsupported('np.%s' % kind)
        ev = lambda v, k: I(v.elem(k)) if isinstance(v, IArr) else I(v)
        if kind == 'minimum':
            return IArr(ref.shape, lambda k: z3.If(ev(a, k) <= ev(b, k), ev(a, k), ev(b, k)), 1, ref.dtype)
        return IArr(ref.shape, lambda k: z3.If(ev(a, k) >= ev(b, k), ev(a, k), ev(b, k)), 1, ref.dtype)
    return f


def _np_abs(x):
    if not isinstance(x, IArr) or x.den != 1:
        raise Unsupported('np.abs')
    return IArr(x.shape, lambda k: z3.If(I(x.elem(k)) < 0, -I(x.elem(k)), I(x.elem(k))), 1, x.dtype)


def _np_ones(n):
    if isinstance(n, (tuple, list)):
        n = n[0]
    return IArr((n,), lambda k: z3.IntVal(1), 1, 'float')


def _np_outer(a, b):
    if isinstance(a, IArr) and isinstance(b, IArr):
        # numpy promotes to float64 when either operand is float (np.ones)
        dt = 'float' if 'float' in (a.dtype, b.dtype) else 'int'
        ones_a = a.dtype == 'float'
        ones_b = b.dtype == 'float'
        if ones_b and not ones_a:
            return IArr((a.shape[0], b.shape[0]), lambda k: a.elem([k[0]]), a.den, dt)
        if ones_a and not ones_b:
            return IArr((a.shape[0], b.shape[0]), lambda k: b.elem([k[1]]), b.den, dt)
        raise Unsupported('np.outer of two index arrays')
    if isinstance(a, STensor) and isinstance(b, STensor):
        sa, sb = a.snap(), b.snap()
        return fresh_like((a.shape[0], b.shape[0]), lambda k: sa([k[0]]) * sb([k[1]]), a, kind='np')
    raise Unsupported('np.outer')


def _np_flip(a, axis=None):
    if not isinstance(a, STensor):
        raise Unsupported('np.flip of %r' % type(a).__name__)
    axes = list(range(a.ndim)) if axis is None else ([axis] if is_conc(axis) else list(axis))
    key = [slice(None)] * a.ndim
    for d in axes:
        key[d % a.ndim] = slice(None, None, -1)
    return tget(a, tuple(key))


def _np_expand_dims(a, axis):
    if not isinstance(a, STensor):
        raise Unsupported('np.expand_dims of %r' % type(a).__name__)
    if not is_conc(axis):
        raise Unsupported('symbolic axis')
    d = axis % (a.ndim + 1)
    key = [slice(None)] * a.ndim
    key.insert(d, None)
    return tget(a, tuple(key))


def _np_stack(ts, axis=0):
    t = t_stack(list(ts), axis)
    t.meta['kind'] = 'np'
    return t


def _np_atleast_2d(v):
    if isinstance(v, STensor):
        if v.ndim >= 2:
            return v
        if v.ndim == 1:
            return tget(v, (None, slice(None)))
    raise Unsupported('np.atleast_2d(%r)' % (v,))


def _np_repeat(h, repeats=None, axis=None):
    if is_conc(repeats) and repeats == 1:
        return fresh_like(h.shape, h.snap(), h)
    if axis is not None and is_conc(h.shape[axis]) and h.shape[axis] == 1:
        reps = [1] * h.ndim
        reps[axis] = repeats
        return t_repeat(h, *reps)
    raise Unsupported('np.repeat')


def _np_copy(x):
    if isinstance(x, STensor):
        return fresh_like(x.shape, x.snap(), x)
    if isinstance(x, IArr):
        return x
    raise Unsupported('np.copy')


def _math_sqrt(v):
    if is_conc(v) or isinstance(v, float):
        if v == 2:
            return SQRT2
        r = int(round(float(v) ** 0.5))
        if r * r == v:
            return r
    raise Unsupported('math.sqrt(%r)' % (v,))


def _math_int(fn):
    import math

    def f(v):
        if isinstance(v, (int, float, Fr)) and not isinstance(v, bool):
            return getattr(math, fn)(v)
        if isz(v) and fn in ('floor', 'ceil', 'trunc'):
            return v
        raise Unsupported('math.%s(%r)' % (fn, v))
    return f


MATH_NS = None


def _np_sqrt(v):
    if is_conc(v) and v == 2:
        return SQRT2
    raise Unsupported('np.sqrt(%r)' % (v,))


def iarr_get(v, k):
    if isinstance(k, slice) and v.ndim == 1:
        a, st, ln = norm_slice(k, v.shape[0])
        return IArr((ln,), lambda i: v.elem([simp(I(a) + st * I(i[0]))]), v.den, v.dtype)
    if (is_conc(k) or isz(k)) and v.ndim == 1:
        kk = k
        if is_conc(k) and k < 0:
            kk = simp(I(v.shape[0]) + k)
        if v.den != 1:
            return QV(v.elem([kk]), v.den)
        return v.elem([kk])
    raise Unsupported('index array subscript')


def _dwt_coeff_len(N, L, mode='symmetric'):
    if mode in ('per', 'periodization'):
        return simp((I(N) + 1) / 2)
    return simp((I(N) + I(L) - 1) / 2)


class WaveletObj:
    pass


def setup_namespaces():
    global TORCH_NS, F_NS, NP_NS, PYWT_NS, NN_NS
    from .interp import NS, TY_TENSOR, TY_NDARRAY, TY_WAVELET, TY_MODULE, TY_SIZE
    TORCH_NS = NS('torch', {
        'Tensor': TY_TENSOR, 'cat': t_cat, 'stack': t_stack, 'unbind': t_unbind,
        'index_select': t_index_select, 'tensor': _torch_tensor, 'zeros': _torch_zeros,
        'zeros_like': _torch_zeros_like, 'reshape': _torch_reshape, 'Size': _torch_size,
        'float': F32, 'double': F64, 'float32': F32, 'float64': F64, 'half': DType('float16'), 'float16': DType('float16'), 'bfloat16': DType('bfloat16'),
        'get_default_dtype': lambda: DT_DEFAULT,
        'sqrt': _torch_sqrt, 'abs': _unary_unsupported('torch.abs'),
        'flip': lambda x, dims: t_flip(x, dims), 'roll': lambda x, shifts, dims=None: t_roll(x, shifts, dims),
        'chunk': lambda x, chunks, dim=0: t_chunk(x, chunks, dim), 'split': lambda x, size, dim=0: t_split(x, size, dim),
        'transpose': lambda x, a, b: t_transpose(x, a, b), 'permute': lambda x, p: t_permute(x, [q % x.ndim for q in p]),
        'unsqueeze': lambda x, d: _m_unsqueeze(None, x, d), 'squeeze': lambda x, d=None: _m_squeeze(None, x, d),
        'flatten': lambda x, a=0, b=-1: _m_flatten(None, x, a, b), 'narrow': lambda x, d, a, n: _m_narrow(None, x, d, a, n),
        'ones': _const_tensor(1), 'ones_like': _const_like(1), 'full': _torch_full,
        'add': lambda a, b: t_bin('+', a, b), 'sub': lambda a, b: t_bin('-', a, b), 'mul': lambda a, b: t_bin('*', a, b),
        'div': lambda a, b: t_bin('/', a, b), 'neg': lambda a: t_bin('*', a, -1),
        'is_tensor': lambda v: isinstance(v, STensor),
        'unflatten': lambda x, dim, sizes: _m_unflatten(x, dim, sizes), 'movedim': lambda x, a, b: _m_movedim(x, a, b),
        'clamp': lambda x, min=None, max=None: _t_clamp(x, min, max),
        'autograd': NS('torch.autograd', {'Function': __import__('cbv.interp', fromlist=['x']).TY_FUNCTION}),
    })
    TORCH_NS.d['nn'] = NS('torch.nn', {'Parameter': lambda t, requires_grad=True: t.with_meta(param=True),
                                         'Module': TY_MODULE})
    NN_NS = TORCH_NS.d['nn']
    F_NS = NS('F', {'conv2d': f_conv2d, 'conv_transpose2d': f_conv_transpose2d, 'pad': f_pad,
                    'avg_pool2d': f_avg_pool2d, 'interpolate': f_interpolate})
    NP_NS = NS('np', {'arange': _np_arange, 'asanyarray': lambda x: x, 'fmod': _np_fmod, 'where': _np_where,
                      'array': _np_array, 'pad': _np_pad, 'clip': _np_clip, 'minimum': _np_minmax('minimum'), 'maximum': _np_minmax('maximum'),
                      'abs': _np_abs, 'ones': _np_ones, 'outer': _np_outer,
                      'stack': _np_stack, 'atleast_2d': _np_atleast_2d, 'repeat': _np_repeat,
                      'ravel': lambda a: (a if isinstance(a, IArr) and a.ndim == 1 else (t_reshape(a, -1) if isinstance(a, STensor) else _np_array(a))),
                      'flip': _np_flip, 'flipud': lambda a: _np_flip(a, 0), 'fliplr': lambda a: _np_flip(a, 1),
                      'expand_dims': _np_expand_dims, 'newaxis': None, 'asarray': lambda x, dtype=None: _np_array(x, dtype),
                      'int32': 'int32', 'int64': 'int64', 'int_': 'int64', 'float32': 'float32', 'float64': 'float64',
                      'copy': _np_copy, 'sqrt': _np_sqrt, 'ndarray': TY_NDARRAY, 'load': Opaque_('np.load')})
    global MATH_NS
    MATH_NS = NS('math', {'sqrt': _math_sqrt, 'floor': _math_int('floor'), 'ceil': _math_int('ceil'), 'trunc': _math_int('trunc'),
                          'log2': _math_int('log2'), 'gcd': _math_int('gcd') if False else (lambda a, b: __import__('math').gcd(a, b)),
                          'pi': __import__('math').pi, 'inf': float('inf')})
    PYWT_NS = NS('pywt', {'dwt_coeff_len': _dwt_coeff_len, 'Wavelet': TY_WAVELET})


# ---------------------------------------------------------------------------
# objects / classes / Function.apply
# ---------------------------------------------------------------------------
def obj_attr(it, v, attr):
    from .interp import BoundMethod, RepoFn
    if attr == 'save_for_backward':
        return lambda *ts: v.a.__setitem__('saved_tensors', tuple(ts))
    if attr == 'register_buffer':
        def reg(name, t):
            v.a[name] = t
            v.buffers.append(name)
        return reg
    if v.cls is not None:
        m = front.mod(v.cls.modkey)
        q = v.cls.name + '.' + attr
        if q in m.funcs:
            return BoundMethod(v, RepoFn(v.cls.modkey, q))
        if attr == 'training':
            # nn.Module state that .train() / .eval() flips: an unknown boolean (both modes are explored)
            if 'training!' not in v.a:
                v.a['training!'] = z3.Bool('self.training')
            return v.a['training!']
        if attr in ('eval', 'train', 'double', 'float', 'half', 'to', 'cpu', 'cuda', 'requires_grad_', 'zero_grad', 'type'):
            def convert(*a, **k):
                # nn.Module conversions rewrite the module's own buffers / flags IN PLACE: inside a call this is a write to module state
                if v.__dict__.get('frozen'):
                    ctx().effects.append(('attr-write', v, '%s() (rewrites the module buffers / flags in place)' % attr))
                return v
            return convert
    raise Raised('AttributeError', attr)


def obj_setattr(it, obj, attr, v):
    if obj.__dict__.get('frozen'):
        ctx().effects.append(('attr-write', obj, attr))
    obj.a[attr] = v


def class_attr(it, cls, attr):
    from .interp import RepoFn
    m = front.mod(cls.modkey)
    if attr == 'apply':
        return lambda *args: function_apply(it, cls, args)
    q = cls.name + '.' + attr
    if q in m.funcs:
        return RepoFn(cls.modkey, q)
    raise Unsupported('class attribute %s.%s' % (cls.name, attr))


def function_apply(it, cls, args):
    from .interp import SObj
    key = cls.modkey + ':' + cls.name + '.apply'
    c = it.contracts.get(key) or it.contracts.get(cls.name + '.apply')
    if c is not None:
        from .interp import USED_CONTRACTS
        USED_CONTRACTS.add(key)
        return c(it, *args)
    fctx = SObj(None)
    ng = []
    for a in args:
        ng.append(a.meta.get('requires_grad', False) if isinstance(a, STensor) else False)
    fctx.a['needs_input_grad'] = tuple(ng)
    res = it.call(cls.modkey, cls.name + '.forward', [fctx] + list(args), {})
    it.applied.append((cls.modkey, cls.name, fctx, args, res))
    return res


def instantiate(it, cls, args, kw):
    from .interp import SObj
    obj = SObj(cls)
    m = front.mod(cls.modkey)
    if cls.name + '.__init__' in m.funcs:
        it.call(cls.modkey, cls.name + '.__init__', [obj] + list(args), kw)
    # A-module: .to()/.double()/.float() convert every registered buffer and Parameter (and nothing else), so at
    # call time those carry the dtype of the input; a tensor kept as a plain attribute keeps its construction dtype
    for name, v in list(obj.a.items()):
        if isinstance(v, STensor):
            v.base.owner = 'self:' + name
            if name in obj.buffers or v.meta.get('param'):
                obj.a[name] = v.with_meta(dtype=DT_IN)
    obj.__dict__['frozen'] = True
    return obj


def type_call(it, ty, args, kw):
    from .interp import TY_WAVELET
    if ty is TY_WAVELET:
        hook = it.hooks.get('pywt.Wavelet')
        if hook:
            return hook(*args, **kw)
    raise Unsupported('constructor %r' % (ty,))


def _isinstance(it):
    from .interp import TY_TENSOR, TY_NDARRAY, TY_WAVELET, TypeTok, SObj

    def f(v, t):
        if isinstance(t, tuple):
            return any(f(v, q) for q in t)
        t = {_tuple: tuple, _list: list, _dict: dict}.get(t, t) if callable(t) else t
        if t is TY_TENSOR:
            return isinstance(v, STensor) and v.meta.get('kind', 'torch') == 'torch'
        if t is TY_NDARRAY:
            return isinstance(v, STensor) and v.meta.get('kind') == 'np'
        if t is TY_WAVELET:
            return isinstance(v, SObj) and v.a.get('__wavelet__', False)
        if isinstance(t, TypeTok):
            return False
        if t is str:
            return isinstance(v, str)
        if t in (list, tuple, int, float, bool, dict):
            if t is int and isz(v):
                return True
            return isinstance(v, t)
        raise Unsupported('isinstance(_, %r)' % (t,))
    return f


def _len(v):
    if isinstance(v, (list, tuple, dict, str)):
        return len(v)
    if isinstance(v, STensor) or isinstance(v, IArr):
        return v.shape[0]
    if isinstance(v, SList):
        return simp(I(v.n) + len(v.tail))
    if isinstance(v, PList) or type(v).__name__ == 'SPyr':
        return v.length()
    raise Unsupported('len(%r)' % (v,))


def _range(*a):
    if all(is_conc(x) for x in a):
        return range(*a)
    if len(a) == 1:
        return SymRange(0, a[0])
    if len(a) == 2:
        return SymRange(a[0], a[1])
    if len(a) == 3 and is_conc(a[2]) and a[2] == -1:
        r = SymRange(a[0], a[1])
        r.step = -1
        return r
    raise Unsupported('symbolic range with step')


def _zip(*a):
    if any(type(q).__name__ in ('SPyr', 'SymRange', 'SList') for q in a):
        from .modules_dtcwt import SymZip
        return SymZip(list(a))
    return list(zip(*a))


def _tuple(v=()):
    if isinstance(v, (list, tuple)):
        return tuple(v)
    raise Unsupported('tuple(%r)' % (v,))


def _list(v=()):
    if isinstance(v, (list, tuple, range)):
        return list(v)
    raise Unsupported('list(%r)' % (v,))


def _dict(v=(), **kw):
    if isinstance(v, dict):
        return dict(v, **kw)
    if isinstance(v, (list, tuple)) and all(isinstance(q, (list, tuple)) and len(q) == 2 for q in v):
        return dict([tuple(q) for q in v], **kw)
    hook = CURHOOK.get('dict')
    if hook:
        return hook(v)
    raise Unsupported('dict(%r)' % (v,))


CURHOOK = {}


def _minmax(is_min):
    def f(*a, **kw):
        from fractions import Fraction
        if kw:
            raise Unsupported('min/max with keyword arguments')
        if len(a) == 1:
            a = list(a[0])
        if all(isinstance(q, (int, float, Fraction)) and not isinstance(q, bool) for q in a):
            return (min if is_min else max)(a)
        if any(not isinstance(q, (int, Fraction, z3.ArithRef)) for q in a):
            raise Unsupported('min/max of %r' % (a,))
        r = a[0]
        for q in a[1:]:
            le = ctx().decide(I(r) <= I(q))          # forks the path
            r = (r if le else q) if is_min else (q if le else r)
        return r
    return f


def _getattr(it, o, k, *d):
    from .interp import Raised
    try:
        return it.getattr(o, k)
    except Raised as r:
        if d and r.kind == 'AttributeError':
            return d[0]
        raise


def _hasattr(it, o, k):
    from .interp import Raised
    try:
        it.getattr(o, k)
        return True
    except Raised as r:
        if r.kind == 'AttributeError':
            return False
        raise


def _set(xs=()):
    xs = list(xs)
    if all(is_conc(q) or isinstance(q, str) for q in xs):
        return set(xs)
    from .interp import SymSet
    if all(is_conc(q) or isz(q) for q in xs):
        return SymSet(xs)
    raise Unsupported('set of non-integer symbolic values')


def _truth(v):
    if isinstance(v, (z3.BoolRef, z3.ArithRef)):
        return ctx().decide(v if isinstance(v, z3.BoolRef) else I(v) != 0)
    if isinstance(v, STensor):
        raise Unsupported('truth value of a tensor')
    return bool(v)


def _anyall(is_any):
    def f(xs):
        for v in xs:
            t = _truth(v)
            if t == is_any:
                return is_any
        return not is_any
    return f


def _sum(it):
    def f(xs, start=0):
        acc = start
        for v in xs:
            acc = it.binop('+', acc, v)
        return acc
    return f


def _sorted(xs, **kw):
    from .interp import SymSet
    if isinstance(xs, SymSet):
        raise Unsupported('sorted() of symbolic values')
    xs = list(xs)
    if kw or not all(is_conc(v) for v in xs):
        raise Unsupported('sorted() of symbolic values')
    return sorted(xs)


def _abs(v):
    if isinstance(v, z3.ArithRef):
        return v if ctx().decide(I(v) >= 0) else -v
    return abs(v)


def builtins(it):
    from .interp import ExcTok
    b = {'isinstance': _isinstance(it), 'len': _len, 'tuple': _tuple, 'list': _list, 'range': _range,
         'zip': _zip, 'dict': _dict, 'int': lambda v: v, 'float': lambda v: v,
         'str': str, 'max': _minmax(False), 'min': _minmax(True), 'abs': _abs, 'print': lambda *a, **k: None,
         'True': True, 'False': False, 'None': None,
         'setattr': lambda o, k, v: obj_setattr(it, o, k, v), 'getattr': lambda o, k, *d: _getattr(it, o, k, *d), 'hasattr': lambda o, k: _hasattr(it, o, k),
         'set': _set, 'frozenset': _set,
         'slice': slice, 'Ellipsis': Ellipsis, 'id': id, 'type': lambda v: type(v), 'map': lambda f, *xs: [it.call_value(f, list(a), {}) for a in zip(*xs)],
         'enumerate': lambda xs, start=0: [(start + k, v) for k, v in enumerate(_list(xs) if not isinstance(xs, (list, tuple)) else xs)],
         'reversed': lambda xs: xs.get(slice(None, None, -1)) if type(xs).__name__ in ('SPyr', 'SList') else list(reversed(_list(xs) if not isinstance(xs, (list, tuple)) else list(xs))),
         'sum': _sum(it), 'any': _anyall(True), 'all': _anyall(False), 'bool': _truth,
         'divmod': lambda a, b: (it.binop('//', a, b), it.binop('%', a, b)), 'sorted': _sorted, 'round': round}
    for e in ('ValueError', 'NotImplementedError', 'ImportError', 'KeyError', 'IOError', 'TypeError',
              'AssertionError', 'RuntimeError', 'IndexError', 'Exception', 'AttributeError'):
        b[e] = ExcTok(e)
    return b


setup_namespaces()
