"""TABLE obligations: exact rational arithmetic over the filter tables that the
installed PyWavelets ships (dumped natively as hex floats on every run)."""
import json, os, subprocess, time
from fractions import Fraction as Fr
from .solve import Ob
from .check import native, ROOT

_cache = {}


def wavelets():
    if 'w' not in _cache:
        d = os.path.join(ROOT, 'replays', '_jobs')
        os.makedirs(d, exist_ok=True)
        p = os.path.join(d, 'wavelets.%d.json' % os.getpid())
        rc, js, err = native('dump_wavelets.py', [p])
        raw = json.load(open(p))
        os.unlink(p)
        out = {}
        for name, w in raw.items():
            o = dict(w)
            for k in ('dec_lo', 'dec_hi', 'rec_lo', 'rec_hi'):
                o[k] = [Fr(float.fromhex(v)) for v in w[k]]
            out[name] = o
        _cache['w'] = out
    return _cache['w']


def pr_residual(w):
    """Phi_c(d) = sum_{u+v = L-1-d, v in parity class c} (dec_lo[u] rec_lo[v] + dec_hi[u] rec_hi[v]) - [d == 0]
    for both parity classes; returns (max |residual|, rho = max over classes of sum_d |residual|)"""
    L = w['dec_len']
    worst = Fr(0)
    rho = Fr(0)
    for cls in (0, 1):
        tot = Fr(0)
        for d in range(-(L - 1), L):
            s = L - 1 - d
            acc = Fr(0)
            for v in range(cls, L, 2):
                u = s - v
                if 0 <= u < L:
                    acc += w['dec_lo'][u] * w['rec_lo'][v] + w['dec_hi'][u] * w['rec_hi'][v]
            r = abs(acc - (1 if d == 0 else 0))
            worst = max(worst, r)
            tot += r
        rho = max(rho, tot)
    return worst, rho


def g_table_pr(names, tol=1e-9, perturb=None):
    obs = []
    W = wavelets()
    info = {'rho': {}}
    for n in names:
        w = W[n]
        if perturb is not None:
            w = dict(w)
            w['rec_lo'] = list(w['rec_lo'])
            w['rec_lo'][0] += Fr(perturb)
        t0 = time.time()
        worst, rho = pr_residual(w)
        info['rho'][n] = float(rho)
        approx_only = w['short'] == 'dmey'
        ok = approx_only or rho <= Fr(tol)
        obs.append(Ob('TABLE/PR[%s]' % n, 'TABLE', 'proved' if ok else 'refuted', 'exact-rational', time.time() - t0,
                      {'L': w['dec_len'], 'rho': float(rho), 'max_residual': float(worst),
                       'note': ('approximately PR only: reconstruction error <= rho*max|x|, the same operator as PyWavelets'
                                if approx_only else 'sum_d |Phi(d)-delta(d)| <= %g' % tol)}))
    return obs, info


def g_table_orth(names, tol=1e-9):
    """orthogonal families: rec = reverse(dec) (exactly) and double-shift orthonormality"""
    obs = []
    W = wavelets()
    for n in names:
        w = W[n]
        L = w['dec_len']
        t0 = time.time()
        rev = all(w['rec_lo'][v] == w['dec_lo'][L - 1 - v] and w['rec_hi'][v] == w['dec_hi'][L - 1 - v] for v in range(L))
        obs.append(Ob('TABLE/rec==reverse(dec)[%s]' % n, 'TABLE', 'proved' if rev else 'refuted', 'exact-rational', time.time() - t0))
        worst = Fr(0)
        for a, b in (('dec_lo', 'dec_lo'), ('dec_hi', 'dec_hi'), ('dec_lo', 'dec_hi')):
            for m in range(-(L // 2) + 1, L // 2):
                acc = sum((w[a][u] * w[b][u + 2 * m] for u in range(L) if 0 <= u + 2 * m < L), Fr(0))
                worst = max(worst, abs(acc - (1 if (m == 0 and a == b) else 0)))
        ok = worst <= Fr(tol)
        obs.append(Ob('TABLE/double-shift-orthonormal[%s]' % n, 'TABLE', 'proved' if ok else 'refuted', 'exact-rational',
                      time.time() - t0, {'max_residual': float(worst)}))
    return obs, {}
