"""Adjointness obligations: a hand-written backward is the exact vector-Jacobian
product of the function its forward computes iff, for every output index P and
input index M,  K_bwd(M ; P) == K_fwd(P ; M)  (kernels of the two linear maps;
both are extracted from the REAL forward and the REAL backward bodies)."""
import z3
from .sym import *
from . import solve
from .solve import Ob


def adjoint_obs(oid, ys, gnames, dx, xname, pc, mv, kind='POST', timeout=None, extra_ranges=()):
    """ys: forward outputs (tensors over data atoms `xname`); gnames: names of the
    cotangent data tensors fed to backward (one per forward output); dx: what
    backward returned for that input (tensor over the cotangent atoms)."""
    obs = []
    canon = Canon()
    xv = canon.vars(xname, dx.ndim)
    bcoef = coeff_exprs(lift(dx.at(xv)), canon)
    rng_x = [z3.And(v >= 0, v < I(n)) for v, n in zip(xv, dx.shape)]
    seen_b = set()
    for y, gname in zip(ys, gnames):
        gv = canon.vars(gname, y.ndim)
        fcoef = coeff_exprs(lift(y.at(gv)), canon)
        rng_g = [z3.And(v >= 0, v < I(n)) for v, n in zip(gv, y.shape)]
        keys_f = {}
        for (h, names), ent in fcoef.items():
            if xname not in names:
                continue            # term of another input of the same function
            taps = tuple(n for n in names if n != xname)
            if names.count(xname) != 1:
                obs.append(Ob('%s/forward-not-linear-in-%s' % (oid, xname), kind, 'refuted', 'by-construction', 0))
                continue
            keys_f[(h, tuple(sorted(taps)))] = ent
        keys_b = {}
        for (h, names), ent in bcoef.items():
            if gname not in names:
                continue
            seen_b.add((h, names))
            taps = tuple(n for n in names if n != gname)
            keys_b[(h, tuple(sorted(taps)))] = ent
        # small concrete axes of the output (orientation, real/imag, band) are enumerated:
        # one query per value keeps each formula small
        split_vars = [(gv[k], list(range(n))) for k, n in enumerate(y.shape) if is_conc(n) and 1 < n <= 8]
        cases = [[]]
        for v, vals in split_vars:
            cases = [cs + [(v, z3.IntVal(q))] for cs in cases for q in vals]
        for key in sorted(set(keys_f) | set(keys_b), key=str):
            sa0 = coeff_sum(keys_f.get(key, []))
            sb0 = coeff_sum(keys_b.get(key, []))
            worst = 'proved'
            tot = 0.0
            detail = {'terms': (len(keys_f.get(key, [])), len(keys_b.get(key, []))), 'cases': len(cases)}
            be_used = 'z3'
            for cs in cases:
                if cs:
                    sa = z3.simplify(z3.substitute(sa0, *cs))
                    sb = z3.simplify(z3.substitute(sb0, *cs))
                    rg = [z3.simplify(z3.substitute(r_, *cs)) for r_ in rng_g]
                else:
                    sa, sb, rg = sa0, sb0, rng_g
                if sa.eq(sb):
                    continue
                st, model, dt, be = solve.check_unsat(list(pc) + rng_x + rg + list(extra_ranges) + [sa != sb], timeout,
                                                      list(mv) + canon.all())
                tot += dt
                be_used = be
                if st == 'sat':
                    worst = 'refuted'
                    detail['model'] = dict(model, **{str(v): q.as_long() for v, q in cs})
                    break
                if st != 'unsat':
                    worst = 'undecided'
                    detail['reason'] = str(model)
                    detail['case'] = str(cs)
            name = '%s/adjoint[d%s/d%s,mono=%s]' % (oid, gname, xname, '*'.join(key[1]) or '1')
            obs.append(Ob(name, kind, worst, be_used, tot, detail))
    for key in bcoef:
        if key not in seen_b:
            obs.append(Ob('%s/backward-mentions-unknown-data%s' % (oid, key[1]), kind, 'refuted', 'by-construction', 0))
    # shape of the gradient == shape of the input is checked by the caller
    return obs
