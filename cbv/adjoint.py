"""Adjointness obligations: a hand-written backward is the exact vector-Jacobian
product of the function its forward computes iff, for every output index P and
input index M,  K_bwd(M ; P) == K_fwd(P ; M)  (kernels of the two linear maps;
both are extracted from the REAL forward and the REAL backward bodies)."""
import z3
from .sym import *
from . import solve
from .solve import Ob


def adjoint_obs(oid, ys, gnames, dx, xname, pc, mv, kind='POST', timeout=None, extra_ranges=()):
    """ys: forward outputs (tensors over data atoms `xname`); gnames: names of the
    cotangent data tensors fed to backward (one per forward output); dx: what
    backward returned for that input (tensor over the cotangent atoms)."""
    obs = []
    canon = Canon()
    xv = canon.vars(xname, dx.ndim)
    bcoef = coeff_exprs(lift(dx.at(xv)), canon)
    rng_x = [z3.And(v >= 0, v < I(n)) for v, n in zip(xv, dx.shape)]
    seen_b = set()
    for y, gname in zip(ys, gnames):
        gv = canon.vars(gname, y.ndim)
        fcoef = coeff_exprs(lift(y.at(gv)), canon)
        rng_g = [z3.And(v >= 0, v < I(n)) for v, n in zip(gv, y.shape)]
        keys_f = {}
        for (h, names), ent in fcoef.items():
            if xname not in names:
                continue            # term of another input of the same function
            taps = tuple(n for n in names if n != xname)
            if names.count(xname) != 1:
                obs.append(Ob('%s/forward-not-linear-in-%s' % (oid, xname), kind, 'refuted', 'by-construction', 0))
                continue
            keys_f[(h, tuple(sorted(taps)))] = ent
        keys_b = {}
        for (h, names), ent in bcoef.items():
            if gname not in names:
                continue
            seen_b.add((h, names))
            taps = tuple(n for n in names if n != gname)
            keys_b[(h, tuple(sorted(taps)))] = ent
        for key in sorted(set(keys_f) | set(keys_b), key=str):
            sa = coeff_sum(keys_f.get(key, []))
            sb = coeff_sum(keys_b.get(key, []))
            st, model, dt, be = solve.check_unsat(list(pc) + rng_x + rng_g + list(extra_ranges) + [sa != sb], timeout,
                                                  list(mv) + canon.all())
            name = '%s/adjoint[d%s/d%s,mono=%s]' % (oid, gname, xname, '*'.join(key[1]) or '1')
            if st == 'unsat':
                obs.append(Ob(name, kind, 'proved', be, dt, {'terms': (len(keys_f.get(key, [])), len(keys_b.get(key, [])))}))
            elif st == 'sat':
                obs.append(Ob(name, kind, 'refuted', be, dt, {'model': model}))
            else:
                obs.append(Ob(name, kind, 'undecided', be, dt, {'reason': str(model)}))
    for key in bcoef:
        if key not in seen_b:
            obs.append(Ob('%s/backward-mentions-unknown-data%s' % (oid, key[1]), kind, 'refuted', 'by-construction', 0))
    # shape of the gradient == shape of the input is checked by the caller
    return obs
