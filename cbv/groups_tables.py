"""C18 / C12 obligation groups that need no tensor semantics: the shipped DTCWT
filter tables (exact rational arithmetic, exhaustive), the table loaders (symbolic
execution of the real _load_from_file / level1 / biort / qshift), and the axis
arithmetic of get_dimensions5/6 (all integers)."""
import os, time, itertools
import numpy as np
import z3
from fractions import Fraction as Fr
from .sym import *
from . import front, solve, prims
from .solve import Ob
from .interp import Interp, explore, SObj

REF_DIR = os.environ.get('DTCWT_REF_DATA', '/venv/lib/python3.12/site-packages/dtcwt/data')
L1_KEYS = ('h0o', 'g0o', 'h1o', 'g1o')
QS_KEYS = ('h0a', 'h0b', 'g0a', 'g0b', 'h1a', 'h1b', 'g1a', 'g1b')
TOL = Fr(1, 10 ** 12)


def data_dir():
    return os.path.join(front.REPO, 'pytorch_wavelets', 'dtcwt', 'data')


def table_names():
    return sorted(f[:-4] for f in os.listdir(data_dir()) if f.endswith('.npz'))


def load(name, d=None):
    z = np.load(os.path.join(d or data_dir(), name + '.npz'))
    return {k: z[k] for k in z.files}


def frac(a):
    return [Fr(float(v)) for v in np.asarray(a).ravel()]


def conv(a, b):
    out = [Fr(0)] * (len(a) + len(b) - 1)
    for i, x in enumerate(a):
        for j, y in enumerate(b):
            out[i + j] += x * y
    return out


def accepted():
    """(name, loader) for every table name a loader accepts"""
    acc = []
    for n in table_names():
        t = load(n)
        if all(k in t for k in L1_KEYS):
            acc.append((n, 'level1'))
        if all(k in t for k in QS_KEYS):
            acc.append((n, 'qshift'))
    return acc


def g_tables_reference(names=None):
    """byte equality with the reference package's arrays, for every accepted name"""
    obs = []
    for n, loader in accepted():
        if names is not None and n not in names:
            continue
        t = load(n)
        p = os.path.join(REF_DIR, n + '.npz')
        if not os.path.exists(p):
            obs.append(Ob('TABLE/equals-reference[%s,%s]' % (n, loader), 'TABLE', 'refuted', 'exact', 0,
                          {'what': 'the reference dtcwt package ships no table of this name', 'model': {}}))
            continue
        r = load(n, REF_DIR)
        keys = [k for k in t if not k.startswith('__')]
        ok = sorted(keys) == sorted(k for k in r if not k.startswith('__')) and all(
            t[k].dtype == r[k].dtype and t[k].shape == r[k].shape and t[k].tobytes() == r[k].tobytes() for k in keys)
        obs.append(Ob('TABLE/equals-reference[%s,%s]' % (n, loader), 'TABLE', 'proved' if ok else 'refuted', 'exact', 0,
                      {'arrays': len(keys)}))
    return obs, {}


def level1_identities(n, t):
    out = []
    f = {k: frac(t[k]) for k in t if not k.startswith('__') and k != 'param'}
    names = [k for k in ('h0o', 'g0o', 'h1o', 'g1o', 'h2o', 'g2o') if k in f]
    worst = Fr(0)
    for k in names:
        a = f[k]
        worst = max([worst] + [abs(a[i] - a[len(a) - 1 - i]) for i in range(len(a))])
    out.append(('symmetric', worst <= TOL, {'max_asymmetry': float(worst)}))
    # undecimated biorthogonal PR:  h0*g0 + h1*g1 (+ h2*g2) = delta at the centre
    terms = [conv(f['h0o'], f['g0o']), conv(f['h1o'], f['g1o'])]
    if 'h2o' in f:
        terms.append(conv(f['h2o'], f['g2o']))
    lens = set(len(x) for x in terms)
    if len(lens) != 1:
        m = max(lens)
        terms = [[Fr(0)] * ((m - len(x)) // 2) + x + [Fr(0)] * ((m - len(x)) // 2) for x in terms]
    tot = [sum(col) for col in zip(*terms)]
    c = len(tot) // 2
    if 'h2o' in f:
        # rotationally symmetric variant: the 2-D bank h0h0+h0h1+h1h0+h2h2 reconstructs, not the 1-D triple;
        # its 1-D identity is h0*g0 + h1*g1 = delta for the non-diagonal pair
        tot = [a + b for a, b in zip(*[x if len(x) == len(terms[0]) else x for x in terms[:2]])]
        c = len(tot) // 2
    res = max(abs(v - (1 if i == c else 0)) for i, v in enumerate(tot))
    out.append(('biorthogonal-PR(h0*g0+h1*g1=delta)', res <= Fr(1, 10 ** 10), {'max_residual': float(res)}))
    return out


def qshift_identities(n, t):
    out = []
    f = {k: frac(t[k]) for k in t if not k.startswith('__') and k != 'param'}
    pairs = [('h0a', 'h0b'), ('h1a', 'h1b'), ('g0a', 'g0b'), ('g1a', 'g1b')] + \
        ([('h2a', 'h2b'), ('g2a', 'g2b')] if 'h2a' in f else [])
    ok = all(len(f[a]) == len(f[b]) and all(abs(x - y) <= TOL for x, y in zip(f[a], f[b][::-1])) for a, b in pairs)
    out.append(('tree-b==reverse(tree-a)', ok, {}))
    gp = [('g0a', 'h0a'), ('g1a', 'h1a'), ('g0b', 'h0b'), ('g1b', 'h1b')] + ([('g2a', 'h2a'), ('g2b', 'h2b')] if 'h2a' in f else [])
    ok = all(len(f[a]) == len(f[b]) and all(abs(x - y) <= TOL for x, y in zip(f[a], f[b][::-1])) for a, b in gp)
    out.append(('synthesis==reverse(analysis)', ok, {}))
    worst = Fr(0)
    L = len(f['h0a'])
    for a, b in (('h0a', 'h0a'), ('h1a', 'h1a'), ('h0a', 'h1a')):
        if len(f[a]) != len(f[b]):
            worst = Fr(1)
            continue
        for m in range(-(L // 2) + 1, L // 2):
            acc = sum((f[a][u] * f[b][u + 2 * m] for u in range(L) if 0 <= u + 2 * m < L), Fr(0))
            worst = max(worst, abs(acc - (1 if (m == 0 and a == b) else 0)))
    out.append(('double-shift-orthonormal(h0,h1;tol=1e-8)', worst <= Fr(1, 10 ** 8), {'max_residual': float(worst)}))
    if 'h2a' in f:
        nrm = abs(sum(x * x for x in f['h2a']) - 1)
        out.append(('band-pass-filter-unit-norm', nrm <= Fr(1, 10 ** 10), {'residual': float(nrm)}))
    return out


def g_tables_identities(names=None, perturb=None):
    obs = []
    for n, loader in accepted():
        if names is not None and n not in names:
            continue
        t = load(n)
        if perturb is not None:
            t = dict(t)
            t['h0a'] = np.array(t['h0a'], copy=True)
            t['h0a'][0] += perturb
        t0 = time.time()
        try:
            res = level1_identities(n, t) if loader == 'level1' else qshift_identities(n, t)
        except Exception as e:
            res = [('well-formed', False, {'error': str(e)})]
        for what, ok, det in res:
            obs.append(Ob('TABLE/%s[%s,%s]' % (what, n, loader), 'TABLE', 'proved' if ok else 'refuted', 'exact-rational',
                          time.time() - t0, dict(det, model={})))
    return obs, {}


# ---------------------------------------------------------------------------
# loaders: symbolic execution of the real functions
# ---------------------------------------------------------------------------
class NpzTok:
    def __init__(s, name, content):
        s.name = name
        s.content = content


def _loader_interp(files):
    """files: name -> dict key -> token standing for that array"""
    def resource_stream(pkg, fname):
        if not fname.endswith('.npz') or fname[:-4] not in files:
            raise Raised('IOError', 'no such resource ' + fname)
        return NpzTok(fname[:-4], files[fname[:-4]])
    it = Interp()
    g = it.globals_of('dtcwt.coeffs')
    g['resource_stream'] = resource_stream
    g['load'] = lambda f: f
    prims.CURHOOK['dict'] = lambda v: dict(v.content) if isinstance(v, NpzTok) else (_ for _ in ()).throw(Unsupported('dict()'))
    return it, g


def g_loaders():
    obs = []
    files = {n: {k: ('array', n, k) for k in load(n) if not k.startswith('__')} for n in table_names()}
    CUR.ctx = Ctx([])
    c = ctx()
    # _load_from_file: miss then hit
    it, g = _loader_interp(files)
    cache = g['COEFF_CACHE']
    n0 = 'near_sym_a'
    w0 = len(c.effects)
    r1 = it.call('dtcwt.coeffs', '_load_from_file', [n0, L1_KEYS], {})
    writes1 = [e for e in c.effects[w0:] if e[0] == 'global-write']
    w1 = len(c.effects)
    r2 = it.call('dtcwt.coeffs', '_load_from_file', [n0, L1_KEYS], {})
    writes2 = [e for e in c.effects[w1:] if e[0] == 'global-write']
    ok = isinstance(r1, tuple) and r1 == tuple(files[n0][k] for k in L1_KEYS)
    obs.append(Ob('_load_from_file/POST[miss: returns the file arrays in the requested order]', 'POST', 'proved' if ok else 'refuted', 'evaluation', 0))
    ok = writes1 == [('global-write', 'dtcwt.coeffs.COEFF_CACHE', n0)] and cache.store.get(n0) == files[n0]
    obs.append(Ob('_load_from_file/FRAME[miss: exactly one cache insertion, with the file content]', 'FRAME', 'proved' if ok else 'refuted', 'evaluation', 0))
    ok = r2 == r1 and all(a is b for a, b in zip(r1, r2)) and writes2 == []
    obs.append(Ob('_load_from_file/POST[hit: same values, no write]', 'POST', 'proved' if ok else 'refuted', 'evaluation', 0))
    try:
        it.call('dtcwt.coeffs', '_load_from_file', [n0, ('h0a',)], {})
        ok = False
    except Raised as r:
        ok = r.kind == 'ValueError'
    obs.append(Ob('_load_from_file/POST[missing key -> ValueError]', 'POST', 'proved' if ok else 'refuted', 'evaluation', 0))
    # level1 / biort / qshift: which arrays, in which order
    for n in table_names():
        it, g = _loader_interp(files)
        has_l1 = all(k in files[n] for k in L1_KEYS)
        has_qs = all(k in files[n] for k in QS_KEYS)
        for fn, args, want_keys, has in (
                ('biort', [n], L1_KEYS + (('h2o', 'g2o') if n == 'near_sym_b_bp' else ()), has_l1),
                ('qshift', [n], QS_KEYS + (('h2a', 'h2b', 'g2a', 'g2b') if n == 'qshift_b_bp' else ()), has_qs)):
            try:
                r = ('ret', it.call('dtcwt.coeffs', fn, args, {}))
            except Raised as e:
                r = ('raise', e.kind)
            if has and all(k in files[n] for k in want_keys):
                ok = r == ('ret', tuple(files[n][k] for k in want_keys))
            else:
                ok = r == ('raise', 'ValueError')
            obs.append(Ob('%s[%s]/POST[returns %s]' % (fn, n, ','.join(want_keys) if has else 'ValueError'), 'POST',
                          'proved' if ok else 'refuted', 'evaluation', 0, {} if ok else {'got': str(r)[:200]}))
    prims.CURHOOK.pop('dict', None)
    return obs, {}


# ---------------------------------------------------------------------------
# get_dimensions5 / get_dimensions6 : all integers
# ---------------------------------------------------------------------------
def _kth_remaining(k, excluded, ndim):
    """position of the k-th (0-based) axis of an ndim tensor not in `excluded` (z3 terms)"""
    e = z3.IntVal(-1)
    for p in range(ndim - 1, -1, -1):
        free = z3.And(*[x != p for x in excluded])
        cnt = z3.Sum([z3.If(z3.And(*[x != q for x in excluded]), 1, 0) for q in range(p)]) if p else z3.IntVal(0)
        e = z3.If(z3.And(free, cnt == k), p, e)
    return e


def g_get_dimensions(which):
    """get_dimensions6(o, ri): positions, in the 6-D tensor obtained from (N,C,H,W) by inserting the orientation axis
    at o mod 6 and the real/imag axis at ri mod 6, of: orientation (counted after the real/imag axis is removed),
    real/imag, height, width.  get_dimensions5: the same after the real/imag axis has been removed (5-D)."""
    o, ri = z3.Ints('o_dim ri_dim')
    base = [o % 6 != ri % 6]
    obs = []

    def run():
        it = Interp()
        return it.call('dtcwt.transform_funcs', which, [o, ri], {}, force_body=True)
    o6, r6 = o % 6, ri % 6
    o5 = z3.If(r6 < o6, o6 - 1, o6)
    if which == 'get_dimensions6':
        want = (o5, r6, _kth_remaining(2, [o6, r6], 6), _kth_remaining(3, [o6, r6], 6))
    else:
        want = (o5, r6, _kth_remaining(2, [o5], 5), _kth_remaining(3, [o5], 5))
    names = ('orientation', 'real/imag', 'height', 'width')
    for k, (c, out) in enumerate(explore(run, base)):
        CUR.ctx = c
        if c.solver.check() == z3.unsat:
            continue
        pid = '%s/path%d' % (which, k)
        if out[0] != 'ret' or not isinstance(out[1], tuple) or len(out[1]) != 4:
            obs.append(Ob(pid + '/returns-4-tuple', 'POST', 'refuted', 'path', 0, {'model': {}}))
            continue
        for nm, g_, w_ in zip(names, out[1], want):
            obs.append(solve.prove('%s/%s' % (pid, nm), 'POST', c.pc, I(g_) == w_, [o, ri]))
    return obs, {}
