"""Module-level obligations of the DWT half: the real __init__ and forward of
DWT1DForward / DWT1DInverse / DWTForward / DWTInverse, with the level loops
handled by an invariant rule (symbolic number of levels J).

Invariant rule for  `for j in range(J): body`  (and for iteration over a
pyramid list of symbolic length):
  INV-init  the state at loop entry is the invariant at j = 0
            (the carried tensor IS the input, the output list is empty);
  INV-step  from an arbitrary iteration state - carried tensor = an arbitrary
            tensor A of arbitrary shape, list = arbitrary prefix - one execution
            of the real body yields the state the property's recursion
            prescribes: (A', appended) = one pywt level of A;
  INV-exit  after the loop the carried variables hold (A_J, [D_0..D_{J-1}]) and
            the function returns exactly these.
Since A is arbitrary in INV-step, induction over j gives the J-level pyramid of
PyWavelets' wavedec / waverec recursion for every J."""
import z3
from .sym import *
from . import contracts_dwt as CD, verify, solve, prims, specs, front
from .solve import Ob
from .interp import Cont, Brk, Interp, explore, SObj, RepoClass
from .prims import SList
from .specbk import SymBk as bk

Bn, C, N, H, W, J = z3.Ints('B C N H W J')
Lc2, Lr2 = z3.Ints('Lc2 Lr2')
Lc, Lr = 2 * Lc2, 2 * Lr2

MOD_CALLEES_1D = {k: CD.CONTRACTS[k] for k in (
    'dwt.lowlevel:prep_filt_afb1d', 'dwt.lowlevel:prep_filt_sfb1d', 'dwt.lowlevel:mode_to_int',
    'dwt.lowlevel:AFB1D.apply', 'dwt.lowlevel:SFB1D.apply')}
MOD_CALLEES_2D = {k: CD.CONTRACTS[k] for k in (
    'dwt.lowlevel:prep_filt_afb2d', 'dwt.lowlevel:prep_filt_sfb2d', 'dwt.lowlevel:mode_to_int',
    'dwt.lowlevel:AFB2D.apply', 'dwt.lowlevel:SFB2D.apply')}


class Side:
    """records made by the loop rules, turned into obligations per path"""
    def __init__(s):
        s.rec = []
        s.exit = None


def _fresh_dims(prefix, n):
    ds = [fresh_int(prefix) for _ in range(n)]
    for d in ds:
        ctx().assume(d >= 1)
    return ds


def loop_state(node, env, tvar=None, lvar=None):
    """identify the loop-carried state from the LOOP BODY, not from the names the repository happens to use:
       tensor variable = a name that is bound to a tensor before the loop and both read and assigned in the body;
       list variable   = a name bound to a list before the loop on which the body calls .append.
       The configured names are only a tie-break."""
    import ast
    stored, loaded, appended = set(), set(), set()
    for st in node.body:
        for q in ast.walk(st):
            if isinstance(q, ast.Name):
                (stored if isinstance(q.ctx, ast.Store) else loaded).add(q.id)
            if isinstance(q, ast.Call) and isinstance(q.func, ast.Attribute) and q.func.attr in ('append', 'insert', 'extend') \
                    and isinstance(q.func.value, ast.Name):
                appended.add(q.func.value.id)
    tgt = {q.id for q in ast.walk(node.target) if isinstance(q, ast.Name)}
    tens = sorted(k for k in (stored & loaded) - tgt if isinstance(env.get(k), STensor))
    lists = sorted(k for k in appended if isinstance(env.get(k), (list, SList)))

    def pick(cands, pref, what):
        if pref in cands or (pref is not None and not cands and pref in env):
            return pref
        if len(cands) == 1:
            return cands[0]
        if not cands:
            return None
        raise Unsupported('cannot identify the loop-carried %s: candidates %s' % (what, cands))
    return pick(tens, tvar, 'tensor'), pick(lists, lvar, 'list')


def fwd_level_rule(side, tvar, lvar, spatial, Jsym, region=None):
    """for j in range(J): <tvar>, item = one_level(<tvar>); <lvar>.append(item)"""
    def rule(it, node, rng, env, tvar=tvar, lvar=lvar):
        c = ctx()
        tvar, lvar = loop_state(node, env, tvar, lvar)
        if tvar is None or lvar is None:
            raise Unsupported('level loop without a carried tensor and an accumulating list')
        side.names = (tvar, lvar)
        side.rec.append(('init', env[tvar], env[lvar], rng))
        T0 = env[tvar]
        j = fresh_int('j')
        c.assume(z3.And(j >= 0, j < I(Jsym)))
        dims = _fresh_dims('n', spatial)
        A = CD.data_tensor('A', tuple(T0.shape[:2]) + tuple(dims))
        if region:
            region(A)
        env[tvar] = A
        pre = SList(j, 'D')
        env[lvar] = pre
        it.assign(node.target, j, env)
        before = {k: v for k, v in env.items()}
        try:
            it.run(node.body, env)
        except Cont:
            pass                     # `continue`: the generic iteration simply ends here
        except Brk:
            raise Unsupported('break inside a loop verified by invariant')
        side.rec.append(('step', A, env[tvar], env[lvar], pre,
                         [k for k in env if k in before and env[k] is not before[k] and k not in (tvar, lvar)]))
        dims2 = _fresh_dims('m', spatial)
        AJ = CD.data_tensor('AJ', tuple(T0.shape[:2]) + tuple(dims2))
        env[tvar] = AJ
        env[lvar] = SList(Jsym, 'D')
        side.exit = (AJ, env[lvar])
    return rule


def inv_level_rule(side, tvar, itemvar, spatial, Jsym, item_rank, region=None):
    """for item in pyramid[::-1]: <tvar> = one_inverse_level(<tvar>, item)"""
    def rule(it, node, seq, env, tvar=tvar):
        c = ctx()
        tvar, _ = loop_state(node, env, tvar, None)
        if tvar is None:
            raise Unsupported('synthesis loop without a carried tensor')
        side.names = (tvar, None)
        side.rec.append(('init-inv', env[tvar], seq))
        T0 = env[tvar]
        dims = _fresh_dims('n', spatial)
        R = CD.data_tensor('R', tuple(T0.shape[:2]) + tuple(dims))
        env[tvar] = R
        isnone = z3.Bool('item_is_none!%d' % len(side.rec))
        if c.decide(isnone):
            D = None
            if region:
                region(R, R)
        else:
            dd = _fresh_dims('d', spatial)
            mid = (3,) if item_rank == spatial + 3 else ()
            D = CD.data_tensor('D', tuple(T0.shape[:2]) + mid + tuple(dd))
            # forward-compatible pyramid: the running lowpass is as long as the
            # detail, or one sample longer, on every axis
            for a_, b_ in zip(dims, dd):
                c.assume(z3.Or(a_ == b_, a_ == b_ + 1))
            if region:
                region(R, D)
        it.assign(node.target, D, env)
        try:
            it.run(node.body, env)
        except Cont:
            pass                     # `continue`: the generic iteration simply ends here
        except Brk:
            raise Unsupported('break inside a loop verified by invariant')
        side.rec.append(('step-inv', R, D, env[tvar]))
        dims2 = _fresh_dims('m', spatial)
        R0 = CD.data_tensor('R0', tuple(T0.shape[:2]) + tuple(dims2))
        env[tvar] = R0
        side.exit = (R0, None)
    return rule


def same_tensor(a, b):
    return isinstance(a, STensor) and isinstance(b, STensor) and a.base is b.base and a.imap is None and b.imap is None


# ---------------------------------------------------------------------------
def _module_paths(build, base, max_paths=200):
    """explore build(); build returns a dict with everything the checker needs"""
    def run():
        return build()
    return explore(run, base, max_paths)


def g_forward_module(dim, mode, waveform, f1_region_excluded=True, canary=None):
    """DWT1DForward (dim=1) / DWTForward (dim=2): real __init__ + forward, symbolic J.
    waveform: 'name' | 'wavelet' | 'tuple2' | 'tuple4'"""
    modkey = 'dwt.transform1d' if dim == 1 else 'dwt.transform2d'
    cls = 'DWT1DForward' if dim == 1 else 'DWTForward'
    callees = MOD_CALLEES_1D if dim == 1 else MOD_CALLEES_2D
    base = [Bn >= 1, C >= 1, N >= 1, H >= 1, W >= 1, J >= 1, Lc2 >= 1, Lr2 >= 1]
    mv = [Bn, C, N, H, W, J, Lc2, Lr2]
    oid = '%s[%s,%s]' % (cls, mode, waveform)
    per = mode in ('per', 'periodization')

    def region(A):
        if per and f1_region_excluded:
            for d_, L_ in zip(A.shape[2:], (Lc,) if dim == 1 else ((Lc, Lr) if waveform == 'tuple4' else (Lc, Lc))):
                ctx().assume(I(d_) + I(d_) % 2 >= L_)

    def build():
        side = Side()
        wcol = CD.wavelet_obj('col.', Lc)
        wrow = CD.wavelet_obj('row.', Lr) if waveform == 'tuple4' else wcol
        it = Interp(contracts=callees, hooks={'pywt.Wavelet': lambda name: wcol})
        it.loop_contracts[((modkey, cls + '.forward'), 0)] = fwd_level_rule(
            side, 'x0' if dim == 1 else 'll', 'highs' if dim == 1 else 'yh', dim, J, region)
        if waveform == 'name':
            wave = 'some-wavelet-name'
        elif waveform == 'wavelet':
            wave = wcol
        elif waveform == 'tuple2':
            wave = (wcol.a['dec_lo'], wcol.a['dec_hi'])
        else:
            wave = (wcol.a['dec_lo'], wcol.a['dec_hi'], wrow.a['dec_lo'], wrow.a['dec_hi'])
        self = prims.instantiate(it, RepoClass(modkey, cls), [], {'J': J, 'wave': wave, 'mode': mode})
        x = CD.data_tensor('x', (Bn, C, N) if dim == 1 else (Bn, C, H, W))
        out = it.call(modkey, cls + '.forward', [self, x], {})
        return dict(it=it, side=side, self=self, x=x, out=out, wcol=wcol, wrow=wrow)

    obs = []
    info = {'paths': 0, 'raise_paths': 0}
    for k, (c, res) in enumerate(_module_paths(build, base)):
        CUR.ctx = c
        pid = '%s/path%d' % (oid, k)
        if c.solver.check() == z3.unsat:
            continue
        info['paths'] += 1
        if res[0] == 'raise':
            r = res[1]
            info['raise_paths'] += 1
            if mode == 'reflect' and r.kind == 'RuntimeError' and 'Padding size' in r.msg:
                obs.append(Ob(pid + '/raises-as-permitted(reflect,signal shorter than filter)', 'POST', 'proved', 'path', 0))
            else:
                m = c.solver.model()
                obs.append(Ob(pid + '/unexpected-raise', 'POST', 'refuted', 'path', 0,
                              {'what': '%s: %s' % (r.kind, r.msg),
                               'model': {str(v): str(m.eval(v, model_completion=True)) for v in mv}}))
            continue
        d = res[1]
        side, out = d['side'], d['out']
        wc, wr = d['wcol'], d['wrow']
        for rec in side.rec:
            if rec[0] == 'init':
                _, T0, L0, rng = rec
                ok = same_tensor(T0, d['x']) and isinstance(L0, list) and L0 == []
                obs.append(Ob(pid + '/INV-init[lowpass is the input, pyramid empty]', 'INV-init',
                              'proved' if ok else 'refuted', 'structural', 0))
                obs.append(solve.prove(pid + '/INV-init[range is 0..J)', 'INV-init', c.pc,
                                       z3.And(I(rng.lo) == 0, I(rng.hi) == J), mv))
            elif rec[0] == 'step':
                _, A, newT, lst, pre, changed = rec
                if dim == 1:
                    wlo, whi = CD.spec_level_1d(A, wc.a['dec_lo'], wc.a['dec_hi'], 'periodization' if per else mode)
                else:
                    if canary == 'swap':      # deliberately wrong: row and column wavelets exchanged
                        wc, wr = wr, wc
                    wlo, whi = CD.spec_level_2d(A, (wc.a['dec_lo'], wc.a['dec_hi']), (wr.a['dec_lo'], wr.a['dec_hi']),
                                                'periodization' if per else mode)
                obs += verify.value_equal(pid + '/INV-step[lowpass]', 'INV-step', newT, wlo, c.pc, mv)
                ok = lst is pre and len(lst.tail) == 1
                obs.append(Ob(pid + '/INV-step[one item appended, finest first]', 'INV-step',
                              'proved' if ok else 'refuted', 'structural', 0))
                if ok:
                    obs += verify.value_equal(pid + '/INV-step[detail]', 'INV-step', lst.tail[0], whi, c.pc, mv)
                    if verify.CFG['dtype']:
                        obs += verify.dtype_obs(pid + '/INV-step', c, (newT, lst.tail[0]))
        ok = side.exit is not None and isinstance(out, tuple) and len(out) == 2 and out[0] is side.exit[0] \
            and out[1] is side.exit[1] and not out[1].tail
        obs.append(Ob(pid + '/POST[returns (A_J, [D_0..D_J-1])]', 'POST', 'proved' if ok else 'refuted', 'structural', 0))
        obs += solve.safety_obligations(pid, c, mv)
        obs += verify.frame_obs(pid, c, (d['self'], d['x']))
    return obs, info


def g_inverse_module(dim, mode, waveform, f1_region_excluded=True, none_region=False):
    """DWT1DInverse / DWTInverse: real __init__ + forward over a pyramid of symbolic depth.
    An absent (None) level stands for zeros OF THE LEVEL'S OWN SHAPE - the shape the forward transform gives that level, which is the
    running low-pass extent or one less on each axis ("a level of zeros on the signal's extent").  none_region=False: None levels whose
    own extent equals the running low-pass (no sample to drop); none_region=True: the complementary region, where pywt.waverec drops the
    last low-pass sample first (known finding F13: the code cannot, an absent level carries no shape)."""
    modkey = 'dwt.transform1d' if dim == 1 else 'dwt.transform2d'
    cls = 'DWT1DInverse' if dim == 1 else 'DWTInverse'
    callees = MOD_CALLEES_1D if dim == 1 else MOD_CALLEES_2D
    base = [Bn >= 1, C >= 1, N >= 1, H >= 1, W >= 1, J >= 1, Lc2 >= 1, Lr2 >= 1]
    mv = [Bn, C, N, H, W, J, Lc2, Lr2]
    oid = '%s[%s,%s%s]' % (cls, mode, waveform, ',region=absent-level-needs-unpad' if none_region else '')
    per = mode in ('per', 'periodization')
    Ls = (Lc,) if dim == 1 else ((Lc, Lr) if waveform == 'tuple4' else (Lc, Lc))

    def region(R, D):
        # the pyramid comes from a forward-compatible shape: synthesis is defined
        for d_, L_ in zip(D.shape[-dim:], Ls):
            if per:
                if f1_region_excluded:
                    ctx().assume(2 * I(d_) >= L_ - 2)
            else:
                ctx().assume(2 * I(d_) - L_ + 2 >= 1)

    def build():
        side = Side()
        wcol = CD.wavelet_obj('col.', Lc)
        wrow = CD.wavelet_obj('row.', Lr) if waveform == 'tuple4' else wcol
        it = Interp(contracts=callees, hooks={'pywt.Wavelet': lambda name: wcol})
        it.loop_contracts[((modkey, cls + '.forward'), 0)] = inv_level_rule(
            side, 'x0' if dim == 1 else 'll', 'x1' if dim == 1 else 'h', dim, J, dim + (2 if dim == 1 else 3), region)
        if waveform == 'name':
            wave = 'some-wavelet-name'
        elif waveform == 'wavelet':
            wave = wcol
        elif waveform == 'tuple2':
            wave = (wcol.a['rec_lo'], wcol.a['rec_hi'])
        else:
            wave = (wcol.a['rec_lo'], wcol.a['rec_hi'], wrow.a['rec_lo'], wrow.a['rec_hi'])
        self = prims.instantiate(it, RepoClass(modkey, cls), [], {'wave': wave, 'mode': mode})
        yl = CD.data_tensor('yl', (Bn, C, N) if dim == 1 else (Bn, C, H, W))
        yh = SList(J, 'yh')
        out = it.call(modkey, cls + '.forward', [self, (yl, yh)], {})
        return dict(it=it, side=side, self=self, yl=yl, yh=yh, out=out, wcol=wcol, wrow=wrow)

    obs = []
    info = {'paths': 0, 'raise_paths': 0}
    for k, (c, res) in enumerate(_module_paths(build, base)):
        CUR.ctx = c
        pid = '%s/path%d' % (oid, k)
        if c.solver.check() == z3.unsat:
            continue
        info['paths'] += 1
        if res[0] == 'raise':
            r = res[1]
            m = c.solver.model()
            obs.append(Ob(pid + '/unexpected-raise', 'POST', 'refuted', 'path', 0,
                          {'what': '%s: %s' % (r.kind, r.msg),
                           'model': {str(v): str(m.eval(v, model_completion=True)) for v in mv}}))
            continue
        d = res[1]
        side, out = d['side'], d['out']
        wc, wr = d['wcol'], d['wrow']
        m_ = 'periodization' if per else mode
        for rec in side.rec:
            if rec[0] == 'init-inv':
                _, T0, seq = rec
                ok = same_tensor(T0, d['yl']) and isinstance(seq, SList) and seq.src is d['yh'] and seq.rev
                obs.append(Ob(pid + '/INV-init[starts from yl, walks the pyramid coarsest first]', 'INV-init',
                              'proved' if ok else 'refuted', 'structural', 0))
            elif rec[0] == 'step-inv':
                _, R, D, newT = rec
                # pywt.waverec: drop the last lowpass sample when it is one longer than the detail
                if D is None:
                    # the absent level's own spatial extents: the running low-pass extent, or one less (forward-compatible pyramid)
                    dd = [fresh_int('dn') for _ in range(dim)]
                    hyp = [z3.Or(a_ == I(b_), a_ == I(b_) - 1) for a_, b_ in zip(dd, R.shape[-dim:])] + [a_ >= 1 for a_ in dd]
                    same = z3.And(*[a_ == I(b_) for a_, b_ in zip(dd, R.shape[-dim:])])
                    hyp.append(z3.Not(same) if none_region else same)
                    for L_, a_ in zip(Ls, dd):
                        hyp.append((2 * a_ >= L_ - 2) if per else (2 * a_ - L_ + 2 >= 1))
                    key = [slice(None), slice(None)] + [slice(0, a_) for a_ in dd]
                    c.pc.extend(hyp)
                    c.solver.add(*hyp)
                    Rc = tget(R, tuple(key))
                    Dz = t_zeros((R.shape[0], R.shape[1]) + tuple(dd) if dim == 1 else (R.shape[0], R.shape[1], 3) + tuple(dd),
                                 dtype=prims.DT_IN, kind='torch')
                elif none_region:
                    continue                      # the region group only looks at absent levels
                else:
                    key = [slice(None), slice(None)] + [slice(0, D.shape[-dim + q]) for q in range(dim)]
                    Rc = tget(R, tuple(key))
                    Dz = D
                if dim == 1:
                    want = CD.spec_inv_level_1d(Rc, Dz, wc.a['rec_lo'], wc.a['rec_hi'], m_)
                else:
                    want = CD.spec_inv_level_2d(Rc, Dz, (wc.a['rec_lo'], wc.a['rec_hi']),
                                                (wr.a['rec_lo'], wr.a['rec_hi']), m_)
                tag = ('None-level,own-extent-one-less-than-running-lowpass' if none_region else 'None-level,own-extent==running-lowpass') if D is None else 'level'
                obs += verify.value_equal(pid + '/INV-step[%s]' % tag, 'INV-step', newT, want, c.pc, mv)
                got_dt = newT.meta.get('dtype')
                obs.append(Ob(pid + '/INV-step[%s]/dtype' % tag, 'DTYPE',
                              'proved' if got_dt == prims.DT_IN else 'refuted', 'ghost', 0,
                              {} if got_dt == prims.DT_IN else {'what': 'result dtype %s, input dtype %s' % (got_dt, prims.DT_IN)}))
        ok = side.exit is not None and out is side.exit[0]
        obs.append(Ob(pid + '/POST[returns R_0]', 'POST', 'proved' if ok else 'refuted', 'structural', 0))
        obs += solve.safety_obligations(pid, c, mv)
        obs += verify.frame_obs(pid, c, (d['self'], d['yl']))
    return obs, info
