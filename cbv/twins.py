"""Axiom twins: every primitive axiom of cbv/sym.py / cbv/prims.py is evaluated on small CONCRETE operands (random
values, `VERIF_SEED`) by the very code the verifier uses symbolically; the results are written to a JSON file that
native/twins_check.py recomputes with the installed torch / numpy / pywt.  A disagreement is a CHECKER error.
usage (python3-vt): python3-vt -m cbv.twins <out.json> [seed]"""
import sys, json, random, itertools
import z3
from fractions import Fraction as Fr
from .sym import *
from . import prims


def atom_tensor(name, shape, kind='torch'):
    return STensor(tuple(shape), lambda idx, name=name: GS.atom(name, idx, True), meta=dict(kind=kind, dtype=prims.DT_IN, contig=True))


def _ival(e):
    e = simp(e)
    if is_conc(e):
        return e
    raise ValueError('not concrete: %s' % e)


def gs_eval(gs, env):
    """numeric value of a GS whose atoms refer to arrays in env (name -> nested list)"""
    tot = Fr(0)
    for t in lift(gs).t:
        ranges = [range(_ival(lo), _ival(hi)) for (_, lo, hi) in t.bv]
        for vals in itertools.product(*ranges):
            sub = [(v[0], z3.IntVal(q)) for v, q in zip(t.bv, vals)]
            ok = True
            for g in t.g:
                gg = simp(z3.substitute(g, *sub)) if sub else simp(g)
                if gg is False:
                    ok = False
                    break
                if gg is not True:
                    raise ValueError('guard not concrete: %s' % gg)
            if not ok:
                continue
            v = t.c
            if t.h:
                v = v * Fr(2 ** 0.5).limit_denominator(10 ** 15) / 2
            for name, idx, _ in t.atoms:
                a = env[name]
                for e in idx:
                    e = z3.substitute(I(e), *sub) if sub else I(e)
                    a = a[_ival(e)]
                v = v * Fr(a)
            tot += v
    return float(tot)


def t_eval(t, env):
    shape = [_ival(d) for d in t.shape]
    out = []
    for idx in itertools.product(*[range(n) for n in shape]):
        out.append(gs_eval(t.at(list(idx)), env))
    return {'shape': shape, 'data': out}


def rnd_array(rnd, shape):
    def rec(sh):
        if not sh:
            return Fr(rnd.randint(-8, 8), 4)
        return [rec(sh[1:]) for _ in range(sh[0])]
    return rec(list(shape))


def to_float(a):
    if isinstance(a, list):
        return [to_float(q) for q in a]
    return float(a)


def cases(rnd):
    out = []

    def add(name, args, inputs, result, env):
        out.append({'name': name, 'args': args, 'inputs': {k: to_float(v) for k, v in inputs.items()}, 'expect': t_eval(result, env)})
    CUR.ctx = Ctx([])
    F_, T_ = prims.F_NS.d, prims.TORCH_NS.d
    # ---- conv2d (stride, padding, dilation, groups; depthwise with channel multiplier)
    for (xs, ws, kw) in [((1, 2, 5, 6), (4, 1, 3, 1), dict(stride=(2, 1), padding=(1, 0), groups=2)),
                         ((2, 3, 4, 7), (6, 1, 1, 4), dict(stride=(1, 2), padding=(0, 3), groups=3)),
                         ((1, 2, 6, 5), (2, 1, 2, 1), dict(dilation=(2, 1), groups=2)),
                         ((1, 2, 5, 5), (8, 1, 2, 3), dict(stride=2, padding=(1, 2), groups=2)),
                         ((1, 1, 4, 4), (1, 1, 2, 2), dict())]:
        x, w = rnd_array(rnd, xs), rnd_array(rnd, ws)
        r = f_conv2d(atom_tensor('x', xs), atom_tensor('w', ws), **kw)
        add('conv2d', kw, {'x': x, 'w': w}, r, {'x': x, 'w': w})
    # ---- conv_transpose2d
    for (xs, ws, kw) in [((1, 2, 3, 4), (2, 1, 1, 4), dict(stride=(1, 2), padding=(0, 2), groups=2)),
                         ((1, 2, 3, 2), (2, 1, 4, 1), dict(stride=(2, 1), groups=2)),
                         ((1, 8, 2, 3), (8, 1, 2, 2), dict(stride=2, groups=2)),
                         ((2, 4, 2, 2), (4, 1, 3, 3), dict(stride=2, padding=(1, 1), groups=1))]:
        x, w = rnd_array(rnd, xs), rnd_array(rnd, ws)
        r = f_conv_transpose2d(atom_tensor('x', xs), atom_tensor('w', ws), **kw)
        add('conv_transpose2d', kw, {'x': x, 'w': w}, r, {'x': x, 'w': w})
    # ---- F.pad
    for mode, pad in (('constant', (1, 2, 0, 1)), ('reflect', (2, 1, 1, 2)), ('replicate', (1, 3, 2, 0))):
        xs = (1, 2, 4, 5)
        x = rnd_array(rnd, xs)
        r = f_pad(atom_tensor('x', xs), pad, mode)
        add('pad', {'pad': list(pad), 'mode': mode}, {'x': x}, r, {'x': x})
    # ---- cat / stack / unbind / index_select / repeat / transpose / reshape / contiguous
    xs, ys = (2, 3, 2, 2), (2, 1, 2, 2)
    x, y = rnd_array(rnd, xs), rnd_array(rnd, ys)
    add('cat', {'dim': 1}, {'x': x, 'y': y}, t_cat([atom_tensor('x', xs), atom_tensor('y', ys)], 1), {'x': x, 'y': y})
    add('stack', {'dim': -2}, {'x': x}, t_stack([atom_tensor('x', xs), atom_tensor('x', xs)], -2), {'x': x})
    add('stack', {'dim': 0}, {'x': x}, t_stack([atom_tensor('x', xs), atom_tensor('x', xs)], 0), {'x': x})
    add('unbind', {'dim': 1, 'pick': 2}, {'x': x}, t_unbind(atom_tensor('x', xs), 1)[2], {'x': x})
    add('index_select', {'dim': 1, 'index': [0, 2]}, {'x': x}, t_index_select(atom_tensor('x', xs), 1, [0, 2]), {'x': x})
    add('repeat', {'reps': [3, 1, 1, 1]}, {'y': rnd_array(rnd, (1, 1, 2, 2))}, None, None) if False else None
    y1 = rnd_array(rnd, (1, 1, 3, 1))
    add('repeat', {'reps': [4, 1, 1, 1]}, {'x': y1}, t_repeat(atom_tensor('x', (1, 1, 3, 1)), 4, 1, 1, 1), {'x': y1})
    add('transpose', {'d0': 2, 'd1': 3}, {'x': x}, t_contiguous(t_transpose(atom_tensor('x', xs), 2, 3)), {'x': x})
    zs = (2, 6, 12, 3)
    z = rnd_array(rnd, zs)
    add('reshape', {'shape': [2, -1, 4, 12, 3]}, {'x': rnd_array(rnd, (2, 8, 12, 3))}, None, None) if False else None
    z8 = rnd_array(rnd, (2, 8, 3, 2))
    add('reshape', {'shape': [2, -1, 4, 3, 2]}, {'x': z8}, t_reshape(atom_tensor('x', (2, 8, 3, 2)), 2, -1, 4, 3, 2), {'x': z8})
    add('reshape', {'shape': [2, 36, 2, 3]}, {'x': z}, t_reshape(atom_tensor('x', zs), 2, 36, 2, 3), {'x': z})
    z5 = rnd_array(rnd, (2, 3, 4, 2, 3))
    add('reshape', {'shape': [2, 3, 8, 3]}, {'x': z5}, t_reshape(atom_tensor('x', (2, 3, 4, 2, 3)), 2, 3, 8, 3), {'x': z5})
    add('reshape', {'shape': [2, 12, 2, 3]}, {'x': z5}, t_reshape(atom_tensor('x', (2, 3, 4, 2, 3)), 2, 12, 2, 3), {'x': z5})
    f1 = rnd_array(rnd, (1, 1, 5))
    add('reshape', {'shape': [1, 1, 1, 5]}, {'x': f1}, t_reshape(atom_tensor('x', (1, 1, 5)), 1, 1, 1, 5), {'x': f1})
    # ---- basic indexing / slice assignment / in-place add
    xs = (2, 3, 6, 7)
    x = rnd_array(rnd, xs)
    keys = {'a': (slice(None), slice(None), slice(None, -1)), 'b': (Ellipsis, slice(1, None, 2)), 'c': (slice(None), slice(0, None, 2), 0),
            'd': (slice(None), slice(None), None, slice(-3, None)), 'e': (slice(None), slice(None), slice(1, -1), slice(None, None, -1))}
    for kname, key in keys.items():
        if kname == 'd':
            xx = rnd_array(rnd, (2, 3, 5))
            add('getitem', {'key': kname}, {'x': xx}, tget(atom_tensor('x', (2, 3, 5)), key), {'x': xx})
        elif kname == 'e':
            continue
        else:
            add('getitem', {'key': kname}, {'x': x}, tget(atom_tensor('x', xs), key), {'x': x})
    base = atom_tensor('x', xs)
    v = tget(base, (slice(None), slice(None), slice(0, 2)))
    tset(base, (slice(None), slice(None), slice(0, 2)), t_bin('+', v, tget(base, (slice(None), slice(None), slice(3, 5)))))
    add('fold', {}, {'x': x}, tget(base, (slice(None), slice(None), slice(0, 3))), {'x': x})
    yz = t_zeros((1, 1, 4, 6), dtype=prims.DT_IN, kind='torch')
    q = rnd_array(rnd, (1, 1, 2, 3))
    tset(yz, (slice(None), slice(None), slice(1, None, 2), slice(0, None, 2)), atom_tensor('q', (1, 1, 2, 3)))
    add('strided_setitem', {}, {'q': q}, yz, {'q': q})
    # ---- advanced indexing with numpy index arrays
    def table1(vals, dt):
        return IArr((len(vals),), lambda k: z3.Sum([z3.If(I(k[0]) == q, v, 0) for q, v in enumerate(vals)]), 1, dt)

    def table2(rows, dt):
        return IArr((len(rows), len(rows[0])),
                    lambda k: z3.Sum([z3.If(z3.And(I(k[0]) == a_, I(k[1]) == b_), v, 0) for a_, r_ in enumerate(rows) for b_, v in enumerate(r_)]), 1, dt)
    ia = table1([3, 0, 2, 2, 1], 'int')
    xs3 = (1, 2, 4, 3)
    x3 = rnd_array(rnd, xs3)
    add('gather1d', {'axis': 2, 'index': [3, 0, 2, 2, 1]}, {'x': x3}, tget(atom_tensor('x', xs3), (slice(None), slice(None), ia)), {'x': x3})
    ir = table2([[0, 0, 0], [3, 3, 3]], 'float')
    ic = table2([[2, 0, 1], [2, 0, 1]], 'float')
    add('gather2d_float_index', {'rows': [[0, 0, 0], [3, 3, 3]], 'cols': [[2, 0, 1], [2, 0, 1]]}, {'x': x3},
        tget(atom_tensor('x', xs3), (slice(None), slice(None), ir, ic)), {'x': x3})
    # ---- writes through structured views (basic-index views, permutations)
    xw = rnd_array(rnd, (2, 3, 6, 7))
    bw = atom_tensor('x', (2, 3, 6, 7))
    vw = tget(bw, (slice(None), slice(None), slice(1, 5)))
    tset(vw, (slice(None), slice(None), 0), t_bin('+', tget(vw, (slice(None), slice(None), 0)), tget(vw, (slice(None), slice(None), 3))))
    add('view_write_a', {}, {'x': xw}, bw, {'x': xw})
    bw2 = atom_tensor('x', (2, 3, 6, 7))
    qw = rnd_array(rnd, (2, 3, 3))
    ww = t_transpose(tget(bw2, (slice(None), slice(None), slice(0, None, 2))), 2, 3)      # (2,3,7,3)
    tset(ww, (slice(None), slice(None), 4, slice(None)), atom_tensor('q', (2, 3, 3)))
    add('view_write_b', {}, {'x': xw, 'q': qw}, bw2, {'x': xw, 'q': qw})
    bw3 = atom_tensor('x', (2, 3, 6, 7))
    v3 = tget(bw3, (slice(None), 1, None, slice(2, None), slice(None, -1)))               # (2,1,4,6)
    prims.inplace_write(None, v3, t_bin('*', v3, 3))
    add('view_write_c', {}, {'x': xw}, bw3, {'x': xw})
    # ---- shape / order methods added for refactor coverage
    TM = prims.TMETH
    xs5 = (2, 3, 4, 5)
    x5 = rnd_array(rnd, xs5)
    a5 = lambda: atom_tensor('x', xs5)
    add('m_permute', {'perm': [0, 2, 3, 1]}, {'x': x5}, t_contiguous(TM['permute'](None, a5(), 0, 2, 3, 1)), {'x': x5})
    add('m_unsqueeze', {'dim': -2}, {'x': x5}, TM['unsqueeze'](None, a5(), -2), {'x': x5})
    x51 = rnd_array(rnd, (2, 1, 4, 1))
    add('m_squeeze', {'dim': 1}, {'x': x51}, TM['squeeze'](None, atom_tensor('x', (2, 1, 4, 1)), 1), {'x': x51})
    add('m_squeeze', {'dim': None}, {'x': x51}, TM['squeeze'](None, atom_tensor('x', (2, 1, 4, 1))), {'x': x51})
    add('m_flip', {'dims': [3]}, {'x': x5}, prims.t_flip(a5(), [3]), {'x': x5})
    add('m_flip', {'dims': [2, -1]}, {'x': x5}, prims.t_flip(a5(), [2, -1]), {'x': x5})
    for sh in (1, -2, 7, 0):
        add('m_roll', {'shifts': sh, 'dims': 3}, {'x': x5}, prims.t_roll(a5(), sh, 3), {'x': x5})
    add('m_roll', {'shifts': [1, -1], 'dims': [2, 3]}, {'x': x5}, prims.t_roll(a5(), [1, -1], [2, 3]), {'x': x5})
    add('m_chunk', {'chunks': 2, 'dim': 2, 'pick': 1}, {'x': x5}, prims.t_chunk(a5(), 2, 2)[1], {'x': x5})
    add('m_split', {'size': 2, 'dim': 3, 'pick': 2}, {'x': x5}, prims.t_split(a5(), 2, 3)[2], {'x': x5})
    add('m_split', {'size': [1, 3], 'dim': 2, 'pick': 1}, {'x': x5}, prims.t_split(a5(), [1, 3], 2)[1], {'x': x5})
    add('m_narrow', {'dim': 3, 'start': 1, 'length': 3}, {'x': x5}, TM['narrow'](None, a5(), 3, 1, 3), {'x': x5})
    add('m_flatten', {'start': 1, 'end': 2}, {'x': x5}, TM['flatten'](None, a5(), 1, 2), {'x': x5})
    x12 = rnd_array(rnd, (2, 6, 4, 5))
    add('m_unflatten', {'dim': 1, 'sizes': [3, 2]}, {'x': x12}, prims._m_unflatten(atom_tensor('x', (2, 6, 4, 5)), 1, [3, 2]), {'x': x12})
    add('m_unflatten', {'dim': -2, 'sizes': [2, -1]}, {'x': x12}, prims._m_unflatten(atom_tensor('x', (2, 6, 4, 5)), -2, [2, -1]), {'x': x12})
    add('m_movedim', {'src': 1, 'dst': -1}, {'x': x12}, t_contiguous(prims._m_movedim(atom_tensor('x', (2, 6, 4, 5)), 1, -1)), {'x': x12})
    add('m_movedim', {'src': 3, 'dst': 0}, {'x': x12}, t_contiguous(prims._m_movedim(atom_tensor('x', (2, 6, 4, 5)), 3, 0)), {'x': x12})
    x6 = rnd_array(rnd, (1, 3, 1, 5))
    add('m_expand', {'sizes': [2, 2, 3, 4, 5]}, {'x': x6}, t_contiguous(TM['expand'](None, atom_tensor('x', (1, 3, 1, 5)), 2, 2, 3, 4, 5)), {'x': x6})
    add('m_expand', {'sizes': [-1, -1, 2, -1]}, {'x': x6}, t_contiguous(TM['expand'](None, atom_tensor('x', (1, 3, 1, 5)), -1, -1, 2, -1)), {'x': x6})
    # ---- pooling / interpolation
    xs4 = (1, 2, 4, 6)
    x4 = rnd_array(rnd, xs4)
    add('avg_pool2d', {}, {'x': x4}, f_avg_pool2d(atom_tensor('x', xs4), 2), {'x': x4})
    add('interpolate', {}, {'x': x4}, f_interpolate(atom_tensor('x', xs4), scale_factor=2, mode='nearest'), {'x': x4})
    return [c for c in out if c is not None]


def int_cases():
    """integer-valued axioms"""
    out = []
    CUR.ctx = Ctx([])
    for (a, b) in ((-3, 9), (0, 5), (2, 4)):
        r = prims._np_arange(a, b)
        out.append({'name': 'np.arange', 'args': [a, b], 'expect': [_ival(r.elem([z3.IntVal(k)])) for k in range(_ival(r.shape[0]))]})
    for n, pw in ((5, (3, 7)), (2, (5, 0)), (4, (0, 9))):
        r = prims._np_pad(prims._np_arange(n), pw, mode='wrap')
        from .solve import wrap_def
        vals = []
        for k in range(_ival(r.shape[0])):
            e = r.elem([z3.IntVal(k)])
            # expand the uninterpreted wrap with its definition
            e = z3.substitute(e, *[(a_, wrap_def(a_.arg(0), a_.arg(1), 6)) for a_ in _wraps(e)])
            vals.append(_ival(e))
        out.append({'name': 'np.pad.wrap', 'args': [n, list(pw)], 'expect': vals})
    for N, L, mode in ((7, 4, 'zero'), (8, 6, 'symmetric'), (9, 4, 'periodization'), (5, 10, 'reflect'), (6, 2, 'per')):
        out.append({'name': 'pywt.dwt_coeff_len', 'args': [N, L, mode], 'expect': _ival(prims._dwt_coeff_len(N, L, mode=mode))})
    return out


def _wraps(e):
    from .solve import _apps
    return _apps([e], {'wrapidx'})


if __name__ == '__main__':
    seed = int(sys.argv[2]) if len(sys.argv) > 2 else 0
    rnd = random.Random(seed)
    js = {'tensor_cases': cases(rnd), 'int_cases': int_cases(), 'seed': seed}
    json.dump(js, open(sys.argv[1], 'w'))
    print(json.dumps({'cases': len(js['tensor_cases']) + len(js['int_cases'])}))
