"""Front end: re-reads the real source under $REPO on every run."""
import ast, os, hashlib

REPO = os.environ.get('REPO', '/repo')

FILES = {
    'utils': 'pytorch_wavelets/utils.py',
    'dwt.lowlevel': 'pytorch_wavelets/dwt/lowlevel.py',
    'dwt.transform1d': 'pytorch_wavelets/dwt/transform1d.py',
    'dwt.transform2d': 'pytorch_wavelets/dwt/transform2d.py',
    'dtcwt.lowlevel': 'pytorch_wavelets/dtcwt/lowlevel.py',
    'dtcwt.transform_funcs': 'pytorch_wavelets/dtcwt/transform_funcs.py',
    'dtcwt.transform2d': 'pytorch_wavelets/dtcwt/transform2d.py',
    'dtcwt.coeffs': 'pytorch_wavelets/dtcwt/coeffs.py',
    'scatternet.lowlevel': 'pytorch_wavelets/scatternet/lowlevel.py',
    'scatternet.layers': 'pytorch_wavelets/scatternet/layers.py',
}
PKG2KEY = {('pytorch_wavelets.' + k): k for k in FILES}


class Mod:
    def __init__(s, key, path):
        s.key = key
        s.path = path
        s.src = open(os.path.join(REPO, path)).read()
        s.tree = ast.parse(s.src)
        s.funcs = {}      # qualname -> FunctionDef
        s.classes = {}    # name -> ClassDef
        s.imports = []    # ast import nodes
        s.assigns = []    # module-level assignments
        for n in s.tree.body:
            if isinstance(n, ast.FunctionDef):
                s.funcs[n.name] = n
            elif isinstance(n, ast.ClassDef):
                s.classes[n.name] = n
                for m in n.body:
                    if isinstance(m, ast.FunctionDef):
                        s.funcs[n.name + '.' + m.name] = m
            elif isinstance(n, (ast.Import, ast.ImportFrom)):
                s.imports.append(n)
            elif isinstance(n, ast.Assign):
                s.assigns.append(n)
            elif isinstance(n, ast.Try):
                for b in n.body:
                    if isinstance(b, (ast.Import, ast.ImportFrom)):
                        s.imports.append(b)
                    elif isinstance(b, ast.Assign):
                        s.assigns.append(b)


_MODS = {}


def mod(key):
    if key not in _MODS:
        _MODS[key] = Mod(key, FILES[key])
    return _MODS[key]


def reset():
    _MODS.clear()


def func(key, qual):
    return mod(key).funcs[qual]


def strip_doc(fn):
    body = fn.body
    if body and isinstance(body[0], ast.Expr) and isinstance(getattr(body[0], 'value', None), ast.Constant) \
            and isinstance(body[0].value.value, str):
        body = body[1:]
    return body


def ast_hash(key, qual):
    fn = func(key, qual)
    return hashlib.sha256(ast.dump(fn, include_attributes=False).encode()).hexdigest()[:16]
