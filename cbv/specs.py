"""Mathematical specifications the contracts are written against.

Each spec is written ONCE over an abstract backend `bk`, so that the very same
text is evaluated (a) on z3 terms / exact linear combinations when verification
conditions are generated (backend SymBk in specbk.py) and (b) on python ints and
floats (backend ConcBk below) when it is cross-validated against PyWavelets and
the reference dtcwt package by native/oracle.py.  This file must stay importable
without z3 and without torch.

Backend interface:
  bk.sum(lo, hi, fn)      sum_{u=lo}^{hi-1} fn(u)
  bk.when(cond, thunk)    thunk() if cond else 0
  bk.div(a, k), bk.mod(a, k)   floor division / modulo by a positive constant
  bk.ext_sym(k, n)        half-sample symmetric extension index (pywt 'symmetric')
  bk.wrap(k, n)           k mod n
  bk.ext_refl(k, n)       whole-sample symmetric extension index (pywt 'reflect')
  bk.and_(*c), bk.or_(*c), bk.not_(c)
  bk.zero
"""


# ---------------------------------------------------------------------------
# extension of a length-N signal: list of (condition, index) alternatives,
# mutually exclusive; no alternative = value 0
# ---------------------------------------------------------------------------
def ext_alts(bk, mode, k, N, single_reflect=True):
    if mode == 'zero':
        return [(bk.and_(k >= 0, k < N), k)]
    if mode == 'symmetric':
        return [(True, bk.ext_sym(k, N))]
    if mode == 'periodic':
        return [(True, bk.wrap(k, N))]
    if mode == 'reflect':
        # whole-sample reflection (period 2N-2)
        return [(True, bk.ext_refl(k, N))]
    raise ValueError(mode)


def dwt_len(bk, N, L, mode):
    if mode in ('per', 'periodization'):
        return bk.div(N + 1, 2)
    return bk.div(N + L - 1, 2)


def dwt1(bk, xat, N, tap, L, mode):
    """PyWavelets single-level 1-D analysis with decomposition filter `tap`
    (tap(u) = dec[u], u in [0,L)).  Returns out(i) for i in [0, dwt_len)."""
    if mode in ('per', 'periodization'):
        Ne = N + bk.mod(N, 2)
        L2 = bk.div(L, 2)

        def xp(j):      # periodised, odd length extended by repeating the last sample
            return bk.when(j < N, lambda: xat(j)) + bk.when(bk.and_(j >= N, j < Ne), lambda: xat(N - 1))

        def out(i):
            def term(u):
                return tap(u) * xp(bk.wrap(2 * i + L2 - u, Ne))
            return bk.sum(0, L, term)
        return out

    def out(i):
        def term(u):
            k = 2 * i + 1 - u
            acc = bk.zero
            for cond, idx in ext_alts(bk, mode, k, N):
                acc = acc + bk.when(cond, lambda idx=idx: xat(idx))
            return tap(u) * acc
        return bk.sum(0, L, term)
    return out


def idwt_len(bk, Nc, L, mode):
    if mode in ('per', 'periodization'):
        return 2 * Nc
    return 2 * Nc - L + 2


def idwt1(bk, loat, hiat, Nc, tap0, tap1, L, mode):
    """PyWavelets single-level 1-D synthesis: rec filters tap0/tap1, coefficient
    arrays of length Nc.  Returns out(n), n in [0, idwt_len)."""
    if mode in ('per', 'periodization'):
        N = 2 * Nc
        L2 = bk.div(L, 2)

        def out(n):
            def term(v):
                tt = bk.wrap(n + L2 - 1 - v, N)
                return bk.when(bk.mod(tt, 2) == 0,
                               lambda: tap0(v) * loat(bk.div(tt, 2)) + tap1(v) * hiat(bk.div(tt, 2)))
            return bk.sum(0, L, term)
        return out

    def out(n):
        def term(v):
            t = n + L - 2 - v
            return bk.when(bk.and_(bk.mod(t, 2) == 0, t >= 0, bk.div(t, 2) < Nc),
                           lambda: tap0(v) * loat(bk.div(t, 2)) + tap1(v) * hiat(bk.div(t, 2)))
        return bk.sum(0, L, term)
    return out


def swt1(bk, xat, N, tap, L, d):
    """one level of the undecimated transform (pywt.swt): filter dilated by d,
    periodic boundary: out[i] = sum_u dec[u] x[(i + d*(L/2) - d*u) mod N]"""
    def out(i):
        def term(u):
            return tap(u) * xat(bk.wrap(i + d * bk.div(L, 2) - d * u, N))
        return bk.sum(0, L, term)
    return out


# ---------------------------------------------------------------------------
# concrete backend (python ints / floats)
# ---------------------------------------------------------------------------
class ConcBk:
    zero = 0.0

    @staticmethod
    def sum(lo, hi, fn):
        acc = 0.0
        for u in range(lo, hi):
            acc = acc + fn(u)
        return acc

    @staticmethod
    def when(cond, thunk):
        return thunk() if cond else 0.0

    @staticmethod
    def div(a, k):
        return a // k

    @staticmethod
    def mod(a, k):
        return a % k

    @staticmethod
    def ext_sym(k, n):
        k = k % (2 * n)
        return k if k < n else 2 * n - 1 - k

    @staticmethod
    def wrap(k, n):
        return k % n

    @staticmethod
    def ext_refl(k, n):
        if n == 1:
            return 0
        k = k % (2 * n - 2)
        return k if k < n else 2 * n - 2 - k

    @staticmethod
    def and_(*c):
        return all(c)

    @staticmethod
    def or_(*c):
        return any(c)

    @staticmethod
    def not_(c):
        return not c


class FracBk(ConcBk):
    """the same specs on exact rationals (fractions.Fraction): finite identities are decided by computation"""
    from fractions import Fraction as _Fr
    zero = _Fr(0)

    @staticmethod
    def sum(lo, hi, fn):
        from fractions import Fraction
        acc = Fraction(0)
        for u in range(lo, hi):
            acc = acc + fn(u)
        return acc

    @staticmethod
    def when(cond, thunk):
        from fractions import Fraction
        return thunk() if cond else Fraction(0)


# ---------------------------------------------------------------------------
# reference dual-tree column operations (dtcwt/numpy/lowlevel.py), one axis.
# tap(t) are the reference's (un-reversed) filter arrays.  delta = 0 when
# sum(ha*hb) > 0 (lowpass pair), 1 otherwise (highpass pair): the reference
# decides the interleaving order of the two trees from that sign.
# ---------------------------------------------------------------------------
def dt_colfilter_len(bk, r, m):
    return r + 1 - bk.mod(m, 2)


def dt_colfilter(bk, xat, r, tap, m, mode='symmetric'):
    """Y[i] = sum_t h[t] X_ext[i + (m-1-t) - m//2]  ('valid' convolution of the symmetric extension by m//2)"""
    m2 = bk.div(m, 2)

    def out(i):
        def term(t):
            k = i + (m - 1 - t) - m2
            if mode == 'symmetric':
                return tap(t) * xat(bk.ext_sym(k, r))
            return tap(t) * bk.when(bk.and_(k >= 0, k < r), lambda: xat(k))
        return bk.sum(0, m, term)
    return out


def dt_coldfilt(bk, xat, r, tapa, tapb, m, delta):
    """decimating two-tree filter, r % 4 == 0, output length r/2:
    Ya[i] = sum_t ha[t] X[ext(4i + m - 2t)],  Yb[i] = sum_t hb[t] X[ext(4i + m - 2t + 1)],
    interleaved (Ya, Yb) for a lowpass pair and (Yb, Ya) for a highpass pair"""
    def ya(i):
        return bk.sum(0, m, lambda t: tapa(t) * xat(bk.ext_sym(4 * i + m - 2 * t, r)))

    def yb(i):
        return bk.sum(0, m, lambda t: tapb(t) * xat(bk.ext_sym(4 * i + m - 2 * t + 1, r)))

    def out(k):
        i = bk.div(k, 2)
        s = bk.mod(k, 2)
        first, second = (ya, yb) if delta == 0 else (yb, ya)
        return bk.when(s == 0, lambda: first(i)) + bk.when(s == 1, lambda: second(i))
    return out


def dt_colifilt(bk, xat, r, tapa, tapb, m, delta):
    """interpolating two-tree filter, r % 2 == 0, m even, output length 2r (see DESIGN / reference colifilt)"""
    m2 = bk.div(m, 2)

    def poly(i, tap, par, off):
        # sum_q tap[2q + par] X[ext(2i + m2 + off - 2q)]
        return bk.sum(0, m2, lambda q: tap(2 * q + par) * xat(bk.ext_sym(2 * i + m2 + off - 2 * q, r)))
    d = delta

    def out(k):
        i = bk.div(k, 4)
        s = bk.mod(k, 4)

        def even_case():
            return (bk.when(s == 0, lambda: poly(i, tapa, 1, -2 + d)) + bk.when(s == 1, lambda: poly(i, tapb, 1, -1 - d)) +
                    bk.when(s == 2, lambda: poly(i, tapa, 0, 0 + d)) + bk.when(s == 3, lambda: poly(i, tapb, 0, 1 - d)))

        def odd_case():
            return (bk.when(s == 0, lambda: poly(i, tapa, 0, -1 + d)) + bk.when(s == 1, lambda: poly(i, tapb, 0, 0 - d)) +
                    bk.when(s == 2, lambda: poly(i, tapa, 1, -1 + d)) + bk.when(s == 3, lambda: poly(i, tapb, 1, 0 - d)))
        return bk.when(bk.mod(m2, 2) == 0, even_case) + bk.when(bk.mod(m2, 2) == 1, odd_case)
    return out
