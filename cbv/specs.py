"""Mathematical specifications the contracts are written against.

Each spec is written ONCE over an abstract backend `bk`, so that the very same
text is evaluated (a) on z3 terms / exact linear combinations when verification
conditions are generated (backend SymBk in specbk.py) and (b) on python ints and
floats (backend ConcBk below) when it is cross-validated against PyWavelets and
the reference dtcwt package by native/oracle.py.  This file must stay importable
without z3 and without torch.

Backend interface:
  bk.sum(lo, hi, fn)      sum_{u=lo}^{hi-1} fn(u)
  bk.when(cond, thunk)    thunk() if cond else 0
  bk.div(a, k), bk.mod(a, k)   floor division / modulo by a positive constant
  bk.ext_sym(k, n)        half-sample symmetric extension index (pywt 'symmetric')
  bk.wrap(k, n)           k mod n
  bk.ext_refl(k, n)       whole-sample symmetric extension index (pywt 'reflect')
  bk.and_(*c), bk.or_(*c), bk.not_(c)
  bk.zero
"""


# ---------------------------------------------------------------------------
# extension of a length-N signal: list of (condition, index) alternatives,
# mutually exclusive; no alternative = value 0
# ---------------------------------------------------------------------------
def ext_alts(bk, mode, k, N, single_reflect=True):
    if mode == 'zero':
        return [(bk.and_(k >= 0, k < N), k)]
    if mode == 'symmetric':
        return [(True, bk.ext_sym(k, N))]
    if mode == 'periodic':
        return [(True, bk.wrap(k, N))]
    if mode == 'reflect':
        # whole-sample reflection (period 2N-2)
        return [(True, bk.ext_refl(k, N))]
    raise ValueError(mode)


def dwt_len(bk, N, L, mode):
    if mode in ('per', 'periodization'):
        return bk.div(N + 1, 2)
    return bk.div(N + L - 1, 2)


def dwt1(bk, xat, N, tap, L, mode):
    """PyWavelets single-level 1-D analysis with decomposition filter `tap`
    (tap(u) = dec[u], u in [0,L)).  Returns out(i) for i in [0, dwt_len)."""
    if mode in ('per', 'periodization'):
        Ne = N + bk.mod(N, 2)
        L2 = bk.div(L, 2)

        def xp(j):      # periodised, odd length extended by repeating the last sample
            return bk.when(j < N, lambda: xat(j)) + bk.when(bk.and_(j >= N, j < Ne), lambda: xat(N - 1))

        def out(i):
            def term(u):
                return tap(u) * xp(bk.wrap(2 * i + L2 - u, Ne))
            return bk.sum(0, L, term)
        return out

    def out(i):
        def term(u):
            k = 2 * i + 1 - u
            acc = bk.zero
            for cond, idx in ext_alts(bk, mode, k, N):
                acc = acc + bk.when(cond, lambda idx=idx: xat(idx))
            return tap(u) * acc
        return bk.sum(0, L, term)
    return out


def idwt_len(bk, Nc, L, mode):
    if mode in ('per', 'periodization'):
        return 2 * Nc
    return 2 * Nc - L + 2


def idwt1(bk, loat, hiat, Nc, tap0, tap1, L, mode):
    """PyWavelets single-level 1-D synthesis: rec filters tap0/tap1, coefficient
    arrays of length Nc.  Returns out(n), n in [0, idwt_len)."""
    if mode in ('per', 'periodization'):
        N = 2 * Nc
        L2 = bk.div(L, 2)

        def out(n):
            def term(v):
                tt = bk.wrap(n + L2 - 1 - v, N)
                return bk.when(bk.mod(tt, 2) == 0,
                               lambda: tap0(v) * loat(bk.div(tt, 2)) + tap1(v) * hiat(bk.div(tt, 2)))
            return bk.sum(0, L, term)
        return out

    def out(n):
        def term(v):
            t = n + L - 2 - v
            return bk.when(bk.and_(bk.mod(t, 2) == 0, t >= 0, bk.div(t, 2) < Nc),
                           lambda: tap0(v) * loat(bk.div(t, 2)) + tap1(v) * hiat(bk.div(t, 2)))
        return bk.sum(0, L, term)
    return out


def swt1(bk, xat, N, tap, L, d):
    """one level of the undecimated transform (pywt.swt): filter dilated by d,
    periodic boundary: out[i] = sum_u dec[u] x[(i + d*(L/2) - d*u) mod N]"""
    def out(i):
        def term(u):
            return tap(u) * xat(bk.wrap(i + d * bk.div(L, 2) - d * u, N))
        return bk.sum(0, L, term)
    return out


# ---------------------------------------------------------------------------
# concrete backend (python ints / floats)
# ---------------------------------------------------------------------------
class ConcBk:
    zero = 0.0

    @staticmethod
    def sum(lo, hi, fn):
        acc = 0.0
        for u in range(lo, hi):
            acc = acc + fn(u)
        return acc

    @staticmethod
    def when(cond, thunk):
        return thunk() if cond else 0.0

    @staticmethod
    def div(a, k):
        return a // k

    @staticmethod
    def mod(a, k):
        return a % k

    @staticmethod
    def ext_sym(k, n):
        k = k % (2 * n)
        return k if k < n else 2 * n - 1 - k

    @staticmethod
    def wrap(k, n):
        return k % n

    @staticmethod
    def ext_refl(k, n):
        if n == 1:
            return 0
        k = k % (2 * n - 2)
        return k if k < n else 2 * n - 2 - k

    @staticmethod
    def and_(*c):
        return all(c)

    @staticmethod
    def or_(*c):
        return any(c)

    @staticmethod
    def not_(c):
        return not c
