"""Obligations and their discharge (z3 primary, cvc5 second opinion)."""
import time, z3, subprocess, tempfile, os
from .sym import *
from . import prims


class Ob:
    def __init__(s, oid, kind, status, backend='z3', seconds=0.0, detail=None, group=None):
        s.id = oid
        s.kind = kind
        s.status = status      # proved | refuted | undecided | error
        s.backend = backend
        s.seconds = seconds
        s.detail = detail or {}
        s.group = group

    def as_dict(s):
        return {'id': s.id, 'kind': s.kind, 'status': s.status, 'backend': s.backend,
                'seconds': round(s.seconds, 3), 'detail': s.detail}


def _uses_uf(fs):
    seen = set()
    stack = list(fs)
    names = set()
    while stack:
        e = stack.pop()
        i = e.get_id()
        if i in seen:
            continue
        seen.add(i)
        if z3.is_app(e):
            d = e.decl()
            if d.kind() == z3.Z3_OP_UNINTERPRETED and e.num_args() > 0:
                names.add(d.name())
            stack.extend(e.children())
        elif z3.is_quantifier(e):
            stack.append(e.body())
    return names


QUICK_TIMEOUT = 60
# budgets are z3 resource units (deterministic: verdicts do not flip under machine load; ~1e6 units per
# second on an idle core); the wall-clock timeout is only a backstop
CFG = {'timeout': 1800, 'rlimit': 150000000, 'cvc5_retry': True}


def check_unsat(fs, timeout=None, model_vars=()):
    """is And(fs) unsatisfiable?  -> (status, model, seconds, backend)"""
    timeout = timeout or CFG['timeout']
    fs = [B(f) for f in fs]
    t0 = time.time()
    ufs = _uses_uf(fs) & {'ext_sym', 'wrapidx', 'pow2'}

    def model_of(m):
        mv = {}
        for v in model_vars:
            try:
                val = m.eval(v, model_completion=True)
                mv[str(v)] = val.as_long() if z3.is_int_value(val) else str(val)
            except Exception:
                pass
        return mv
    rl = int(CFG['rlimit'])
    s = z3.Solver()
    s.set('timeout', int(timeout * 1000))
    s.set('rlimit', int(min(rl, 3000000) if ufs else rl))
    s.add(*fs)
    r = s.check()        # uninterpreted index maps: congruence only
    if r == z3.unsat:
        return 'unsat', None, time.time() - t0, 'z3'
    if r == z3.sat and not ufs:
        return 'sat', model_of(s.model()), time.time() - t0, 'z3'
    if ufs:
        # the defining facts of the index maps, instantiated at every application
        # that occurs in the formula (ground instances: no quantifiers)
        s = z3.Solver()
        s.set('timeout', int(timeout * 1000))
        s.set('rlimit', rl)
        s.add(*fs)
        s.add(*ground_axioms(fs))
        r = s.check()
        if r == z3.unsat:
            return 'unsat', None, time.time() - t0, 'z3+uf-ground-axioms'
    if ufs & {'ext_sym', 'wrapidx'}:
        # abstraction refinement: a non-unsat answer under the uninterpreted index
        # maps is re-solved with their definitions expanded at every application
        # (bounded number of wraps Q; a model found this way is genuine)
        for Q in (1, 3):
            rs, rm = refine_uf(fs, Q, timeout, model_vars)
            if rs == 'sat':
                return 'sat', rm, time.time() - t0, 'z3+uf-expansion(Q=%d)' % Q
    # unknown: second opinion from cvc5 (quantifier-free part only)
    if CFG['cvc5_retry'] and not ufs:
        r2 = cvc5_check(fs, 120)
        if r2 == 'unsat':
            return 'unsat', None, time.time() - t0, 'cvc5'
    return 'unknown', {'reason': s.reason_unknown()}, time.time() - t0, 'z3'


def _apps(fs, names):
    seen = set()
    out = []
    stack = list(fs)
    while stack:
        e = stack.pop()
        i = e.get_id()
        if i in seen:
            continue
        seen.add(i)
        if z3.is_app(e):
            if e.decl().kind() == z3.Z3_OP_UNINTERPRETED and e.decl().name() in names and e.num_args() == 2:
                out.append(e)
            stack.extend(e.children())
    return out


def ground_axioms(fs):
    ax = []
    for a in _apps(fs, {'ext_sym', 'wrapidx', 'ext_refl'}):
        k, n = a.arg(0), a.arg(1)
        nm = a.decl().name()
        ax.append(z3.Implies(n >= 1, z3.And(a >= 0, a < n)))
        ax.append(z3.Implies(z3.And(k >= 0, k < n), a == k))
        if nm == 'ext_sym':
            ax.append(z3.Implies(z3.And(k < 0, k >= -n), a == -1 - k))
            ax.append(z3.Implies(z3.And(k >= n, k < 2 * n), a == 2 * n - 1 - k))
        elif nm == 'wrapidx':
            ax.append(z3.Implies(z3.And(k >= n, k < 2 * n), a == k - n))
            ax.append(z3.Implies(z3.And(k >= -n, k < 0), a == k + n))
        else:
            ax.append(z3.Implies(z3.And(k < 0, k > -n), a == -k))
            ax.append(z3.Implies(z3.And(k >= n, k < 2 * n - 1), a == 2 * (n - 1) - k))
    return ax


def ext_sym_def(k, n, Q):
    e = z3.IntVal(0)
    for q in range(-Q, Q):
        r = k - 2 * q * n
        e = z3.If(z3.And(r >= 0, r < 2 * n), z3.If(r < n, r, 2 * n - 1 - r), e)
    return e


def wrap_def(k, n, Q):
    e = z3.IntVal(0)
    for q in range(-Q, Q + 1):
        r = k - q * n
        e = z3.If(z3.And(r >= 0, r < n), r, e)
    return e


def refine_uf(fs, Q, timeout, model_vars):
    s = z3.Solver()
    s.set('timeout', int(timeout * 1000))
    s.set('rlimit', 30000000)
    s.add(*fs)
    for a in _apps(fs, {'ext_sym', 'wrapidx'}):
        k, n = a.arg(0), a.arg(1)
        if a.decl().name() == 'ext_sym':
            s.add(n >= 1, k >= -2 * Q * n, k < 2 * Q * n, a == ext_sym_def(k, n, Q))
        else:
            s.add(n >= 1, k >= -Q * n, k < (Q + 1) * n, a == wrap_def(k, n, Q))
    r = s.check()
    if r != z3.sat:
        return str(r), None
    m = s.model()
    mv = {}
    for v in model_vars:
        try:
            val = m.eval(v, model_completion=True)
            mv[str(v)] = val.as_long() if z3.is_int_value(val) else str(val)
        except Exception:
            pass
    return 'sat', mv


def cvc5_check(fs, timeout):
    s = z3.Solver()
    s.add(*fs)
    smt = s.to_smt2()
    smt = '(set-logic ALL)\n' + smt
    fd, path = tempfile.mkstemp(suffix='.smt2')
    try:
        with os.fdopen(fd, 'w') as f:
            f.write(smt)
        p = subprocess.run(['/usr/bin/cvc5', '--tlimit=%d' % int(timeout * 1000), path],
                           capture_output=True, text=True, timeout=timeout + 10)
        out = p.stdout.strip().splitlines()
        return out[0] if out else 'unknown'
    except Exception:
        return 'unknown'
    finally:
        try:
            os.unlink(path)
        except OSError:
            pass


def gs_equal(oid, kind, A, B_, pc, ranges=(), tol=None, model_vars=(), timeout=None, linear=None):
    """obligations: A == B_ as linear combinations, for all values of every
    variable, under pc and ranges.  One obligation per monomial shape."""
    canon = Canon()
    ca = coeff_exprs(A, canon)
    cb = coeff_exprs(B_, canon)
    obs = []
    keys = sorted(set(ca) | set(cb), key=str)
    if not keys:
        obs.append(Ob(oid + '[all-zero]', kind, 'proved', 'syntactic', 0.0))
        return obs
    for key in keys:
        ea = ca.get(key, [])
        eb = cb.get(key, [])
        sa = coeff_sum(ea)
        sb = coeff_sum(eb)
        if tol is None:
            neq = sa != sb
        else:
            d = sa - sb
            neq = z3.Or(d > z3.RealVal(str(tol)), d < -z3.RealVal(str(tol)))
        mv = list(model_vars) + canon.all()
        st, model, dt, be = check_unsat(list(pc) + list(ranges) + [neq], timeout, mv)
        name = '%s[mono=%s%s]' % (oid, '*'.join(key[1]) or '1', '/sqrt2' if key[0] else '')
        if st == 'unsat':
            obs.append(Ob(name, kind, 'proved', be, dt, {'terms': (len(ea), len(eb))}))
        elif st == 'sat':
            obs.append(Ob(name, kind, 'refuted', be, dt, {'model': model, 'terms': (len(ea), len(eb))}))
        else:
            obs.append(Ob(name, kind, 'undecided', be, dt, {'reason': str(model)}))
    return obs


def prove(oid, kind, pc, claim, model_vars=(), timeout=None):
    st, model, dt, be = check_unsat(list(pc) + [z3.Not(B(claim))], timeout, model_vars)
    if st == 'unsat':
        return Ob(oid, kind, 'proved', be, dt)
    if st == 'sat':
        return Ob(oid, kind, 'refuted', be, dt, {'model': model})
    return Ob(oid, kind, 'undecided', be, dt, {'reason': str(model)})


def safety_obligations(oid, c, model_vars=(), timeout=None):
    """the SAFETY obligations collected on a path"""
    obs = []
    seen = {}
    for k, (name, pc, cond) in enumerate(c.obl):
        key = (name, cond.get_id(), len(pc))
        if key in seen:
            continue
        seen[key] = 1
        obs.append(prove('%s/SAFETY[%s#%d]' % (oid, name, k), 'SAFETY', pc, cond, model_vars, timeout))
    return obs
