"""python3-vt -m cbv.check <PROPERTY> [--tier quick|thorough]

Decides one property: generates the verification conditions from the current
source under $REPO (default /repo), discharges them, cross-validates specs and
axioms natively, replays counterexamples on the real code, writes
evidence/<id>.json.  Exit codes: 0 held / 1 violation / 3 checker error."""
import sys, os, json, time, importlib, subprocess, re, multiprocessing, traceback, tempfile, hashlib

ROOT = os.path.dirname(os.path.dirname(os.path.abspath(__file__)))
VENV_PY = '/venv/bin/python'


class Group:
    def __init__(s, gid, fn, args=(), kwargs=None, replay=None, finding=None, canary=False, functions=(),
                 bounded=None, level='proof'):
        s.gid = gid
        s.fn = fn
        s.args = tuple(args)
        s.kwargs = dict(kwargs or {})
        s.replay = replay          # {'fn':..., 'cfg':...} native recipe
        s.finding = finding        # id of the known finding whose region this group covers
        s.canary = canary          # deliberately wrong contract: must be refuted
        s.functions = tuple(functions)   # (modkey, qualname) under contract
        s.bounded = bounded        # native grid job run underneath (bounded tier)
        s.level = level            # 'proof' | 'bounded' (J unrolled etc.)


def _run_group(g):
    from . import verify
    t0 = time.time()
    cpu0 = time.process_time()
    from .interp import USED_CONTRACTS
    USED_CONTRACTS.clear()
    obs, info, err = verify.run_group(g.fn, *g.args, **g.kwargs)
    info = {k: (sorted(v) if isinstance(v, set) else v) for k, v in (info or {}).items()}
    info['used_contracts'] = sorted(USED_CONTRACTS)
    return g.gid, [o.as_dict() for o in obs], info, err, time.time() - t0, time.process_time() - cpu0


def _pool_entry(args):
    prop, tier, seed, gid = args
    mod = importlib.import_module('cbv.props.' + prop)
    plan = mod.plan(tier, seed)
    for g in plan['groups']:
        if g.gid == gid:
            try:
                return _run_group(g)
            except Exception:
                return gid, [], {}, ('error', traceback.format_exc()), 0.0, 0.0
    return gid, [], {}, ('error', 'group not found'), 0.0, 0.0


def _closure_entry(args):
    """a group added by the callee closure (cbv/props/catalogue.py), rebuilt in the worker from the list of missing contracts"""
    prop, tier, seed, missing, have, gid = args
    mod = importlib.import_module('cbv.props.' + prop)
    mod.plan(tier, seed)                              # side effects of the plan (ghost switches) apply to closure groups too
    from .props import catalogue
    for g in catalogue.closure_groups(list(missing), tier, set(have)):
        if g.gid == gid:
            try:
                return _run_group(g)
            except Exception:
                return gid, [], {}, ('error', traceback.format_exc()), 0.0, 0.0
    return gid, [], {}, ('error', 'closure group not found'), 0.0, 0.0


def native(script, args, timeout=3000, env=None):
    e = dict(os.environ)
    e.update(env or {})
    e.setdefault('REPO', '/repo')
    e['PYTHONWARNINGS'] = 'ignore'
    for k in ('OMP_NUM_THREADS', 'MKL_NUM_THREADS', 'OPENBLAS_NUM_THREADS'):      # tiny tensors: thread pools only spin
        e.setdefault(k, '1')
    p = subprocess.run([VENV_PY, os.path.join(ROOT, 'native', script)] + [str(a) for a in args],
                       capture_output=True, text=True, timeout=timeout, env=e, cwd=ROOT)
    out = p.stdout.strip().splitlines()
    last = out[-1] if out else ''
    try:
        return p.returncode, json.loads(last), p.stderr[-2000:]
    except Exception:
        return p.returncode, {'raw': p.stdout[-2000:]}, p.stderr[-2000:]


def load_known():
    p = os.path.join(ROOT, 'known_findings.json')
    if os.path.exists(p):
        return json.load(open(p))
    return {'findings': [], 'fixed': []}


def main(argv=None):
    argv = argv or sys.argv[1:]
    if os.environ.get('PYTHONHASHSEED') != '0':
        # term / dict iteration order (hence the text of every SMT query and its cost) must not vary from run to run
        os.environ['PYTHONHASHSEED'] = '0'
        os.execv(sys.executable, [sys.executable, '-m', 'cbv.check'] + list(argv))
    prop = argv[0]
    tier = os.environ.get('VERIF_TIER', 'quick')
    if '--tier' in argv:
        tier = argv[argv.index('--tier') + 1]
    seed = int(os.environ.get('VERIF_SEED', '0') or 0)
    jobs = int(os.environ.get('VERIF_JOBS', '16'))
    from . import solve as _solve
    if tier != 'quick':
        _solve.CFG['rlimit'] = 2000000000
        _solve.CFG['timeout'] = 7200
    t0 = time.time()
    os.chdir(ROOT)
    mod = importlib.import_module('cbv.props.' + prop)
    plan = mod.plan(tier, seed)
    groups = plan['groups']
    known = load_known()
    findings = {f['id']: f for f in known.get('findings', []) if prop in f['property']}

    # ---- deductive part: all groups in a process pool ------------------------------
    results = {}
    ctxm = multiprocessing.get_context('fork')
    with ctxm.Pool(processes=min(jobs, max(1, len(groups))), maxtasksperchild=4) as pool:
        it = pool.imap_unordered(_pool_entry, [(prop, tier, seed, g.gid) for g in groups])
        for res in it:
            results[res[0]] = res

    # ---- callee closure: every contract applied to a callee gets the callee's own obligations into THIS check --------------
    def _verified():
        v = set()
        for g in groups:
            for mk, q in g.functions:
                v.add('%s:%s' % (mk, q))
                if q.endswith('.forward'):
                    v.add('%s:%s' % (mk, q[:-len('.forward')] + '.apply'))
        return v
    closure_added = []
    if os.environ.get('VERIF_NO_CLOSURE') != '1':
        from .props import catalogue
        for _round in range(3):
            used_c = set()
            for g in groups:
                r_ = results.get(g.gid)
                if r_ and isinstance(r_[2], dict):
                    used_c.update(r_[2].get('used_contracts') or [])
            missing = tuple(sorted(k for k in used_c if k in catalogue.CALLEE_GROUPS and k not in _verified()))
            have = tuple(sorted(g.gid for g in groups))
            extra = catalogue.closure_groups(list(missing), tier, set(have)) if missing else []
            if not extra:
                break
            with ctxm.Pool(processes=min(jobs, max(1, len(extra))), maxtasksperchild=4) as pool:
                for res in pool.imap_unordered(_closure_entry, [(prop, tier, seed, missing, have, g.gid) for g in extra]):
                    results[res[0]] = res
            groups = groups + extra
            closure_added += [g.gid for g in extra]

    # ---- native part: spec-vs-oracle, axiom twins, bounded tier ---------------------
    native_res = []
    checker_errors = []
    # axiom twins: the primitive axioms evaluated on concrete operands by the verifier's own code, recomputed natively
    try:
        tw = os.path.join(ROOT, 'replays', '_jobs', 'twins_%s.json' % prop)
        os.makedirs(os.path.dirname(tw), exist_ok=True)
        g = subprocess.run([sys.executable, '-m', 'cbv.twins', tw, str(seed)], cwd=ROOT, capture_output=True, text=True, timeout=900)
        rc_t, js_t, err_t = native('twins_check.py', [tw])
        native_res.append({'what': 'twins: primitive axioms vs installed torch/numpy/pywt', 'script': 'cbv/twins.py + native/twins_check.py',
                           'rc': rc_t, 'result': js_t})
        if g.returncode != 0 or rc_t != 0 or js_t.get('n_bad', 1) != 0:
            checker_errors.append('axiom twins: %s %s' % (json.dumps(js_t)[:400], (g.stderr or '')[-300:]))
    except Exception as e:
        checker_errors.append('axiom twins could not run: %s' % e)
    for script, args, what in plan.get('native', []):
        try:
            rc, js, err = native(script, args, env={'VERIF_PROP': prop})
        except subprocess.TimeoutExpired:
            rc, js, err = 3, {'raw': 'timeout'}, ''
        native_res.append({'what': what, 'script': script, 'rc': rc, 'result': js})
        if what.startswith('oracle') or what.startswith('twins'):
            if rc != 0 or js.get('n_bad', 1) != 0:
                checker_errors.append('%s: %s %s' % (what, json.dumps(js)[:400], err[-300:]))

    # ---- algebraic glue lemmas (Lean 4 + Mathlib): composition steps between the per-function contracts and the statement
    lemmas = plan.get('lean_lemmas')
    if lemmas:
        lf = os.path.join(ROOT, 'lean', 'Glue.lean')
        rec = {'what': 'lean: algebraic glue lemmas %s' % lemmas, 'script': 'lean/Glue.lean', 'sha1': hashlib.sha1(open(lf, 'rb').read()).hexdigest(),
               'lemmas': lemmas}
        if tier != 'quick' or os.environ.get('VERIF_LEAN') == '1':
            try:
                t_l = time.time()
                pl = subprocess.run(['lean', lf], capture_output=True, text=True, timeout=3000, cwd=os.path.join(ROOT, 'lean'))
                out_l = pl.stdout + pl.stderr
                ax = {m.group(1): m.group(2) for m in re.finditer(r"'(\w+)' (depends on axioms: \[[^\]]*\]|does not depend on any axioms)", out_l)}
                bad_ax = []
                for k, v in ax.items():
                    mm = re.findall(r'\[([^\]]*)\]', v)
                    if mm and any(a.strip() and a.strip() not in ('propext', 'Classical.choice', 'Quot.sound') for a in mm[0].split(',')):
                        bad_ax.append(k)
                rec.update({'rc': pl.returncode, 'seconds': round(time.time() - t_l, 1), 'axioms': ax, 'checked': [l for l in lemmas if l in ax]})
                if pl.returncode != 0 or 'error' in out_l or 'sorry' in out_l or bad_ax or any(l not in ax for l in lemmas):
                    checker_errors.append('lean glue lemmas: rc=%d %s' % (pl.returncode, out_l[-400:]))
            except Exception as e:
                rec.update({'rc': 3, 'error': str(e)})
                checker_errors.append('lean glue lemmas could not be checked: %s' % e)
        else:
            rec.update({'rc': None, 'note': 'checked by the thorough tier (lean + Mathlib import takes 10 s idle, minutes under load); quick records the file hash'})
        native_res.append(rec)

    # ---- interpret ------------------------------------------------------------------
    all_obs = []
    violations = []
    undecided = []
    known_hits = {}
    canary_fail = []
    errors = []
    solver_s = 0.0
    gsummary = []
    for g in groups:
        gid, obs, info, err, wall, cpu = results.get(g.gid, (g.gid, [], {}, ('error', 'no result'), 0, 0))
        for o in obs:
            o['group'] = gid
            o['id'] = '%s/%s' % (prop, o['id'])
            solver_s += o.get('seconds', 0)
        st = 'proved'
        if err is not None:
            st = 'undecided' if err[0] == 'unsupported' else 'error'
        elif any(o['status'] == 'refuted' for o in obs):
            st = 'refuted'
        elif any(o['status'] != 'proved' for o in obs):
            st = 'undecided'
        elif not obs:
            st = 'empty'
        gsummary.append({'group': gid, 'status': st, 'obligations': len(obs), 'wall_s': round(wall, 2),
                         'paths': info.get('paths'), 'level': g.level,
                         'error': (err[1][-600:] if err else None), 'finding': g.finding, 'canary': g.canary})
        if g.canary:
            if st != 'refuted':
                canary_fail.append(gid)
            continue
        if g.finding:
            if st in ('refuted', 'undecided', 'error'):
                known_hits.setdefault(g.finding, []).append(gid)
            all_obs += [dict(o, region=g.finding) for o in obs]
            continue
        all_obs += obs
        if st == 'error':
            errors.append((gid, err[1]))
            # the executor crashed on this code: no verdict from the verifier (exit 3), but the bounded stand-in still searches the real code
            undecided.append((g, 'checker error (no verdict): ' + str(err[1])[-200:]))
        elif st == 'empty':
            errors.append((gid, 'group produced no obligations'))
        elif st == 'refuted':
            violations.append((g, [o for o in obs if o['status'] == 'refuted']))
        elif st == 'undecided':
            undecided.append((g, err[1] if err else [o['id'] for o in obs if o['status'] != 'proved']))

    # modularity audit: a callee contract applied by some group of this plan must have its own obligations in this plan
    used_c = set()
    for g in groups:
        r_ = results.get(g.gid)
        if r_ and isinstance(r_[2], dict):
            used_c.update(r_[2].get('used_contracts') or [])
    verified_fn = set()
    for g in groups:
        for mk, q in g.functions:
            verified_fn.add('%s:%s' % (mk, q))
            if q.endswith('.forward'):
                verified_fn.add('%s:%s' % (mk, q[:-len('.forward')] + '.apply'))
    assumed_only = sorted(k for k in used_c if ':' in k and k not in verified_fn)

    lines = []
    rc = 0
    # known findings: region obligations refuted (or undecided + native witness fails)
    for fid, f in findings.items():
        hit = fid in known_hits
        wit = f.get('witness')
        wit_fails = None
        if wit:
            fd, path = tempfile.mkstemp(suffix='.json')
            os.write(fd, json.dumps({'fn': wit['fn'], 'cfg': wit.get('cfg', {}), 'model': wit.get('sizes', {})}).encode())
            os.close(fd)
            try:
                wrc, wjs, _ = native('replay.py', [path])
                wit_fails = bool(wjs.get('reproduced'))
            finally:
                os.unlink(path)
        if (hit and wit_fails is not False) or (wit_fails and not f.get('region_groups')):
            lines.append('KNOWN-FINDING: property=%s %s [%s]' % (prop, f['what'], fid))
            f['_active'] = True
        elif hit and wit_fails is False:
            # region obligations fail but the recorded witness no longer does: a different violation
            for gid in known_hits[fid]:
                g = [q for q in groups if q.gid == gid][0]
                obs = results[gid][1]
                ref_ = [o for o in obs if o['status'] == 'refuted']
                if ref_:
                    violations.append((g, ref_))
                else:            # no verdict in the region and the recorded witness passes: undecided, not a violation
                    undecided.append((g, 'region of %s: no verdict and the recorded witness no longer fails' % fid))

    # bounded tier failures (native sweeps) that are not inside a known finding
    for nr in native_res:
        if nr['what'].startswith('bounded'):
            js = nr['result']
            for fl in js.get('failures', []):
                if _in_known(fl, findings):
                    continue
                path = _write_replay(prop, 'bounded/' + fl['fn'], {'fn': fl['fn'], 'cfg': fl['cfg'], 'model': fl['sizes'],
                                                                   'detail': fl['detail'], 'obligation': 'bounded-tier run-time contract'})
                lines.append('VIOLATION property=%s replay=%s' % (prop, path))
                rc = 1
                break
            if js.get('n_errors'):
                checker_errors.append('bounded tier checker errors: %s' % json.dumps(js.get('errors'))[:500])

    # refuted obligations: replay on the real code (the group's own recipe, else the property's default recipes)
    replay_cache = {}

    def recipes_for(g):
        if g.replay:
            return [g.replay]
        d = plan.get('default_replay')
        if callable(d):
            return list(d(g))[:8]
        if d is None:            # derive from the bounded tier's job list: the same run-time contracts, searched over small sizes
            d, seen = [], set()
            for sc, a, _w in plan.get('native', []):
                if sc == 'bounded.py' and os.path.exists(str(a[0])):
                    for j in json.load(open(a[0])):
                        k = json.dumps([j['fn'], j.get('cfg', {})], sort_keys=True)
                        if k not in seen:
                            seen.add(k)
                            d.append({'fn': j['fn'], 'cfg': j.get('cfg', {})})
        sel = [r for r in d if 'mode' in r.get('cfg', {}) and ('[%s' % r['cfg']['mode'] in g.gid or ',%s' % r['cfg']['mode'] in g.gid)]
        return (sel or d)[:8]

    def try_replay(oid, spec, recipes):
        """-> (reproduced, path); the first recipe that reproduces wins"""
        path = _write_replay(prop, oid, spec)
        for r in recipes:
            key = json.dumps(r, sort_keys=True)
            spec.update({'fn': r['fn'], 'cfg': r.get('cfg', {})})
            if key not in replay_cache:
                path = _write_replay(prop, oid, spec)
                try:
                    wrc, wjs, _ = native('replay.py', [path, '--search'], timeout=900)
                except Exception as e:
                    wjs = {'reproduced': None, 'error': str(e)}
                replay_cache[key] = wjs
            wjs = replay_cache[key]
            spec.setdefault('replay_attempts', []).append({'fn': r['fn'], 'cfg': r.get('cfg', {}), 'reproduced': wjs.get('reproduced'),
                                                           'detail': str(wjs.get('detail'))[:200]})
            if wjs.get('reproduced'):
                spec['replay_result'] = wjs
                spec['failing_input'] = wjs.get('sizes')
                return True, _write_replay(prop, oid, spec)
        return False, _write_replay(prop, oid, spec)

    for g, robs in violations:
        o = robs[0] if robs else {'id': '%s/%s' % (prop, g.gid), 'detail': {}}
        spec = {'property': prop, 'obligation': o['id'], 'group': g.gid, 'solver_output': o.get('detail'),
                'all_refuted': [q['id'] for q in robs][:20], 'model': (o.get('detail') or {}).get('model', {})}
        reproduced, path = try_replay(o['id'], spec, recipes_for(g))
        if reproduced:
            lines.append('VIOLATION property=%s replay=%s' % (prop, path))
        else:
            lines.append('VIOLATION property=%s replay=%s no-failing-input-found' % (prop, path))
        rc = 1

    # undecided obligations: bounded tier stands in (never counted as proved)
    for g, why in undecided:
        lines.append('UNDECIDED group=%s/%s (%s)' % (prop, g.gid, str(why)[:200].replace('\n', ' ')))
        rs_ = recipes_for(g)
        if rs_:
            spec = {'property': prop, 'obligation': '%s/%s' % (prop, g.gid), 'model': {}, 'solver_output': str(why)[:1000]}
            reproduced, path = try_replay(g.gid + '-undecided', spec, rs_)
            if reproduced:
                lines.append('VIOLATION property=%s replay=%s' % (prop, path))
                rc = 1

    if canary_fail:
        checker_errors.append('vacuity canaries not refuted: %s' % canary_fail)
    n_obl = len([o for o in all_obs if not o.get('region')])
    n_dis = len([o for o in all_obs if not o.get('region') and o['status'] == 'proved'])
    if n_obl == 0:
        checker_errors.append('zero obligations generated')
    for gid, e in errors:
        checker_errors.append('group %s: %s' % (gid, str(e)[-600:]))

    # ---- evidence ---------------------------------------------------------------------
    from . import front
    funcs = {}
    for g in groups:
        for mk, q in g.functions:
            try:
                funcs['%s:%s' % (mk, q)] = front.ast_hash(mk, q)
            except Exception:
                funcs['%s:%s' % (mk, q)] = 'missing'
    level = plan.get('level', 'proof')
    backends = {}
    for o in all_obs:
        backends[o['backend']] = backends.get(o['backend'], 0) + 1
    ev = {
        'property_id': prop, 'tier': tier, 'seed': seed, 'level': level,
        'coverage': {
            'obligations': n_obl, 'discharged': n_dis,
            'checker_cmd': 'python3-vt -m cbv.check %s --tier %s' % (prop, tier),
            'trusted_base': plan.get('trusted_base', []) + (['Lean 4 kernel + Mathlib (algebraic glue lemmas lean/Glue.lean, checked by the thorough tier)']
                                                            if plan.get('lean_lemmas') else []),
            'explanation': plan.get('explanation', ''),
            'functions_under_contract': funcs,
            'callee_contracts_without_own_obligation_in_this_plan': assumed_only,
            'groups_added_by_callee_closure': closure_added,
            'backends': backends, 'solver_seconds': round(solver_s, 2),
            'groups': gsummary,
            'samples': [o for o in all_obs if not o.get('region')][:12],
            'known_finding_region_obligations': [o for o in all_obs if o.get('region')][:12],
            'undecided': [{'group': g.gid, 'why': str(w)[:300]} for g, w in undecided],
            'bounded': [nr for nr in native_res if nr['what'].startswith('bounded')],
            'oracle_validation': [nr for nr in native_res if not nr['what'].startswith('bounded')],
            'canaries_refuted': len([g for g in groups if g.canary]) - len(canary_fail),
            'evaluations': n_obl, 'distinct_nontrivial': len(set(o['id'] for o in all_obs if o['backend'] not in ('syntactic', 'by-construction'))),
            'rule': 'one obligation per (function, configuration, path, monomial/shape/safety clause); non-trivial = sent to an SMT solver',
            'exhaustive': False,
            'known_findings_active': [fid for fid, f in findings.items() if f.get('_active')],
            'output_lines': lines,
        },
        'assumptions': plan.get('assumptions', []),
        'wall_s': round(time.time() - t0, 2),
        'violations': len([l for l in lines if l.startswith('VIOLATION')]),
    }
    evdir = os.environ.get('VERIF_EVIDENCE_DIR') or os.path.join(ROOT, 'evidence')
    os.makedirs(evdir, exist_ok=True)
    with open(os.path.join(evdir, prop + '.json'), 'w') as f:
        json.dump(ev, f, indent=1, default=str)

    for l in lines:
        print(l)
    print('%s tier=%s: %d obligations, %d discharged, %d groups, %d undecided groups, wall %.1fs'
          % (prop, tier, n_obl, n_dis, len(groups), len(undecided), time.time() - t0))
    if checker_errors:
        for e in checker_errors:
            print('CHECKER-ERROR ' + e)
        return 3 if rc == 0 else rc
    if rc == 0 and undecided:
        return 2          # some obligation got no verdict and the bounded stand-in found nothing: neither held nor violated
    return rc


sys.path.insert(0, os.path.join(ROOT, 'native'))
from known import in_known as _in_known, PREDS      # noqa: E402  (shared with native/replay.py)


def _write_replay(prop, oid, spec):
    d = os.path.join(ROOT, 'replays', prop)
    os.makedirs(d, exist_ok=True)
    name = re.sub(r'[^A-Za-z0-9_.=,-]+', '_', oid)[:120] + '_' + hashlib.sha1(oid.encode()).hexdigest()[:6] + '.json'
    path = os.path.join(d, name)
    with open(path, 'w') as f:
        json.dump(spec, f, indent=1, default=str)
    return path


if __name__ == '__main__':
    sys.exit(main())
