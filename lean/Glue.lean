/-
Algebraic glue between the per-function contracts and the multi-level / 2-D statements of the properties.
The SMT obligations (cbv/) establish facts about ONE call of ONE function of the repository:
  * one-level 1-D perfect reconstruction      Σ_b S_b ∘ A_b = id        (C02, C04)
  * one-level adjointness                     backward = adjoint         (C05, C06, C17)
  * one-level isometry (orthogonal wavelets)  ‖A x‖ = ‖x‖                (C17)
  * one-level shift equivariance              A ∘ T = T' ∘ A             (C13)
and the level-loop invariants say how the module composes those calls.  The statements below are the
remaining, purely algebraic steps; they are about abstract linear maps, not about the code.
-/
import Mathlib

open LinearMap

section PR2D
variable {R : Type*} [CommRing R]
variable {V W U : Type*} [AddCommGroup V] [Module R V] [AddCommGroup W] [Module R W] [AddCommGroup U] [Module R U]

/-- 2-D two-channel perfect reconstruction from the two 1-D identities.  Analysis: rows (`Ar b`) then columns (`Ac c`);
synthesis: columns (`Sc c`) then rows (`Sr b`) — the order used by `afb2d`/`sfb2d` and by `fwd_j*`/`inv_j*`.
No commutation of row and column operators is needed. -/
theorem pr_2d (Ar : Bool → (V →ₗ[R] W)) (Sr : Bool → (W →ₗ[R] V)) (Ac : Bool → (W →ₗ[R] U)) (Sc : Bool → (U →ₗ[R] W))
    (hr : (Sr false) ∘ₗ (Ar false) + (Sr true) ∘ₗ (Ar true) = LinearMap.id)
    (hc : (Sc false) ∘ₗ (Ac false) + (Sc true) ∘ₗ (Ac true) = LinearMap.id) :
    (Sr false) ∘ₗ ((Sc false) ∘ₗ (Ac false) + (Sc true) ∘ₗ (Ac true)) ∘ₗ (Ar false)
      + (Sr true) ∘ₗ ((Sc false) ∘ₗ (Ac false) + (Sc true) ∘ₗ (Ac true)) ∘ₗ (Ar true) = LinearMap.id := by
  rw [hc]
  simpa using hr

/-- the four-band form of the same statement (what `sfb2d (afb2d x)` computes, band by band) -/
theorem pr_2d_bands (Ar : Bool → (V →ₗ[R] W)) (Sr : Bool → (W →ₗ[R] V)) (Ac : Bool → (W →ₗ[R] U)) (Sc : Bool → (U →ₗ[R] W))
    (hr : (Sr false) ∘ₗ (Ar false) + (Sr true) ∘ₗ (Ar true) = LinearMap.id)
    (hc : (Sc false) ∘ₗ (Ac false) + (Sc true) ∘ₗ (Ac true) = LinearMap.id) (x : V) :
    Sr false (Sc false (Ac false (Ar false x)) + Sc true (Ac true (Ar false x)))
      + Sr true (Sc false (Ac false (Ar true x)) + Sc true (Ac true (Ar true x))) = x := by
  have hc' : ∀ w : W, Sc false (Ac false w) + Sc true (Ac true w) = w := fun w => by
    have := congrArg (fun f => f w) hc
    simpa using this
  have hr' : Sr false (Ar false x) + Sr true (Ar true x) = x := by
    have := congrArg (fun f => f x) hr
    simpa using this
  rw [hc', hc']
  exact hr'
end PR2D

section MultiLevel
variable {X D : Type*}

/-- J-level analysis: apply the one-level map to the running low-pass, collect the details (finest first). -/
def ana (L : X → X × D) : ℕ → X → X × List D
  | 0, x => (x, [])
  | (j + 1), x => let p := L x; let q := ana L j p.1; (q.1, p.2 :: q.2)

/-- J-level synthesis: consume the details coarsest first. -/
def syn (S : X × D → X) : X → List D → X
  | x, [] => x
  | x, d :: ds => S (syn S x ds, d)

/-- multi-level perfect reconstruction from one-level perfect reconstruction (the level-loop invariants of
`DWTForward`/`DWTInverse`, `DTCWTForward`/`DTCWTInverse` say the modules compute `ana` and `syn`). -/
theorem pr_levels (L : X → X × D) (S : X × D → X) (h : ∀ x, S (L x) = x) (J : ℕ) (x : X) :
    syn S (ana L J x).1 (ana L J x).2 = x := by
  induction J generalizing x with
  | zero => simp [ana, syn]
  | succ j ih =>
    simp only [ana, syn]
    rw [ih]
    exact h x
end MultiLevel

section Adjoint
variable {𝕜 : Type*} [RCLike 𝕜]
variable {E F G : Type*} [NormedAddCommGroup E] [InnerProductSpace 𝕜 E] [FiniteDimensional 𝕜 E]
variable [NormedAddCommGroup F] [InnerProductSpace 𝕜 F] [FiniteDimensional 𝕜 F]
variable [NormedAddCommGroup G] [InnerProductSpace 𝕜 G] [FiniteDimensional 𝕜 G]

/-- back-propagation through a composition applies the one-level adjoints in reverse order (autograd's chain rule for
linear maps): if every level's backward is the adjoint of its forward, the module's backward is the adjoint of the module. -/
theorem adjoint_of_comp (A : E →ₗ[𝕜] F) (B : F →ₗ[𝕜] G) (At : F →ₗ[𝕜] E) (Bt : G →ₗ[𝕜] F)
    (hA : At = LinearMap.adjoint A) (hB : Bt = LinearMap.adjoint B) :
    At ∘ₗ Bt = LinearMap.adjoint (B ∘ₗ A) := by
  rw [hA, hB, LinearMap.adjoint_comp]

/-- a sum of branches (low-pass + band-pass outputs feeding one gradient) has the sum of the adjoints -/
theorem adjoint_of_add (A B : E →ₗ[𝕜] F) : LinearMap.adjoint (A + B) = LinearMap.adjoint A + LinearMap.adjoint B := by
  simp

/-- C17: if the inverse is a left inverse of the forward map and equals its adjoint, the forward map preserves inner products. -/
theorem inner_preserved (A : E →ₗ[𝕜] F) (S : F →ₗ[𝕜] E) (hS : S = LinearMap.adjoint A) (hPR : S ∘ₗ A = LinearMap.id) (x y : E) :
    inner 𝕜 (A x) (A y) = inner 𝕜 x y := by
  have h1 : inner 𝕜 (A x) (A y) = inner 𝕜 ((LinearMap.adjoint A) (A x)) y := by
    rw [LinearMap.adjoint_inner_left]
  rw [h1, ← hS]
  have : S (A x) = x := by
    have := congrArg (fun f => f x) hPR
    simpa using this
  rw [this]

/-- energy form of the same statement -/
theorem norm_preserved (A : E →ₗ[𝕜] F) (S : F →ₗ[𝕜] E) (hS : S = LinearMap.adjoint A) (hPR : S ∘ₗ A = LinearMap.id) (x : E) :
    ‖A x‖ = ‖x‖ := by
  have h := inner_preserved A S hS hPR x x
  have h2 : ‖A x‖ ^ 2 = ‖x‖ ^ 2 := by
    have e1 := inner_self_eq_norm_sq_to_K (𝕜 := 𝕜) (A x)
    have e2 := inner_self_eq_norm_sq_to_K (𝕜 := 𝕜) x
    rw [h] at e1
    have : ((‖A x‖ : 𝕜)) ^ 2 = ((‖x‖ : 𝕜)) ^ 2 := by rw [← e1, ← e2]
    exact_mod_cast this
  have hx : 0 ≤ ‖x‖ := norm_nonneg x
  have hA : 0 ≤ ‖A x‖ := norm_nonneg (A x)
  nlinarith [sq_nonneg (‖A x‖ - ‖x‖), sq_nonneg (‖A x‖ + ‖x‖)]
end Adjoint

section Equivariance
variable {X Y Z : Type*}

/-- C13: a composition of shift-equivariant levels is shift-equivariant (undecimated transform: the same shift on both sides). -/
theorem equivariant_comp (f : X → Y) (g : Y → Z) (Tx : X → X) (Ty : Y → Y) (Tz : Z → Z)
    (hf : ∀ x, f (Tx x) = Ty (f x)) (hg : ∀ y, g (Ty y) = Tz (g y)) : ∀ x, g (f (Tx x)) = Tz (g (f x)) := by
  intro x
  rw [hf, hg]

/-- iterating one equivariant level J times -/
theorem equivariant_iter (f : X → X) (T : X → X) (hf : ∀ x, f (T x) = T (f x)) (J : ℕ) : ∀ x, f^[J] (T x) = T (f^[J] x) := by
  induction J with
  | zero => intro x; rfl
  | succ j ih =>
    intro x
    rw [Function.iterate_succ_apply', Function.iterate_succ_apply', ih, hf]
end Equivariance

#print axioms pr_2d
#print axioms pr_2d_bands
#print axioms pr_levels
#print axioms adjoint_of_comp
#print axioms adjoint_of_add
#print axioms inner_preserved
#print axioms norm_preserved
#print axioms equivariant_comp
#print axioms equivariant_iter
