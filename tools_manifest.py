"""Regenerates MANIFEST.json from the claimed-properties table below."""
import json, os
ROOT = os.path.dirname(os.path.abspath(__file__))
props = [json.loads(l) for l in open(os.path.join(ROOT, 'properties.jsonl'))]
CLAIMED = json.load(open(os.path.join(ROOT, 'claims.json')))
checks = []
for pid, c in sorted(CLAIMED['claimed'].items()):
    checks.append({
        'property_id': pid,
        'quick_cmd': 'python3-vt -m cbv.check %s --tier quick' % pid,
        'thorough_cmd': 'python3-vt -m cbv.check %s --tier thorough' % pid,
        'evidence_file': '/verif/evidence/%s.json' % pid,
        'replay_cmd_template': '/venv/bin/python native/replay.py {path}',
        'engine': 'cbv',
        'level_claimed': {'category': c['category'], 'text': c['text'], 'design_ref': c.get('design_ref', 'DESIGN.md section 6')},
        'level_note': c['note'],
        'technique': c['technique'],
    })
na = [{'property_id': p['id'], 'reason': CLAIMED['not_applicable'].get(p['id'], 'check not built yet (work in progress)')}
      for p in props if p['id'] not in CLAIMED['claimed']]
m = {
    'version': 1,
    'setup_cmd': 'python3-vt -c "import z3, numpy; import cbv.check" && /venv/bin/python -c "import torch, pywt, numpy"',
    'hooks': {'guard': 'PYTORCH_WAVELETS_VERIF', 'enable': 'no source hooks are needed: contracts live in a sidecar (/verif/cbv/contracts_*.py) and the real source is re-read from $REPO on every run',
              'baseline_off_cmd': 'cd /repo && /venv/bin/python -m pytest -ra -q -p no:cacheprovider --timeout=900 --continue-on-collection-errors',
              'source_commits': CLAIMED.get('source_commits', []), 'add_only': True},
    'engines': [{'name': 'cbv', 'path': '/verif/cbv', 'serves_properties': sorted(CLAIMED['claimed']),
                 'kind_free_text': 'contract-based deductive verifier for the real Python source: AST symbolic executor + sidecar contracts + z3/cvc5; native run-time contracts and replay under /verif/native'}],
    'checks': checks,
    'not_applicable': na,
    'notes': 'See DESIGN.md. Exit codes of a check: 0 held (KNOWN-FINDING lines allowed), 1 VIOLATION, 2 some obligation without verdict and nothing found by the bounded stand-in, 3 checker error (spec/axiom/oracle disagreement, vacuity canary not refuted, zero obligations).',
}
json.dump(m, open(os.path.join(ROOT, 'MANIFEST.json'), 'w'), indent=1)
print('claimed', len(checks), 'not_applicable', len(na))
