"""Bounded stand-in tier: run-time contracts on the real code over a stated grid.
usage: /venv/bin/python native/bounded.py <jobs.json>   (list of {fn,cfg,grid})
prints one JSON line: evaluations, failures (never counted as proved)."""
import sys, json, os, itertools
HERE = os.path.dirname(os.path.abspath(__file__))
sys.path.insert(0, HERE)
import rtc
for m in ('rtc_dwt', 'rtc_dtcwt', 'rtc_scat', 'rtc_misc'):
    try:
        __import__(m)
    except ImportError:
        pass

if __name__ == '__main__':
    jobs = json.load(open(sys.argv[1]))
    seed = int(sys.argv[2]) if len(sys.argv) > 2 else 0
    n = 0
    fails = []
    known_fails = []
    errors = []
    import known
    findings = known.load_findings(os.environ.get('VERIF_PROP')) if os.environ.get('VERIF_PROP') else {}
    for job in jobs:
        keys = sorted(job['grid'])
        for vals in itertools.product(*[job['grid'][k] for k in keys]):
            sizes = dict(zip(keys, vals))
            cfgs = [job['cfg']]
            if job['fn'] in rtc.LINEAR_FNS and 'amp' not in job['cfg']:
                # the linear transforms are exact at every amplitude and on inputs with exactly-zero regions: one extra
                # evaluation per grid point with a rotating amplitude pattern (tiny 1e-9 / huge 1e7 / sparse)
                cfgs.append(dict(job['cfg'], amp=('tiny', 'huge', 'sparse')[n % 3]))
            for cfg in cfgs:
                r = rtc.run_one(job['fn'], cfg, sizes, seed + n)
                n += 1
                if r['ok'] is False:
                    fl = {'fn': job['fn'], 'cfg': cfg, 'sizes': sizes, 'eff': r.get('eff', {}), 'detail': r['detail']}
                    # failures inside the region of a recorded known finding are counted apart, so that they cannot crowd new ones out
                    (known_fails if findings and known.in_known(fl, findings) else fails).append(fl)
                elif r['ok'] is None:
                    errors.append({'fn': job['fn'], 'cfg': cfg, 'sizes': sizes, 'detail': r['detail']})
    print(json.dumps({'evaluations': n, 'failures': fails[:50], 'n_failures': len(fails), 'errors': errors[:5],
                      'n_errors': len(errors), 'n_in_known_finding_regions': len(known_fails), 'known_region_samples': known_fails[:3]}))
