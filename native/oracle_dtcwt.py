"""Cross-validation of the dual-tree spec functions against the reference dtcwt
package (dtcwt.numpy.lowlevel).  A disagreement is a CHECKER error."""
import sys, os, json, random
sys.path.insert(0, os.path.join(os.path.dirname(os.path.abspath(__file__)), '..'))
import numpy as np
if not hasattr(np, 'int'):
    np.int = int
import dtcwt, dtcwt.coeffs as coeffs
from dtcwt.numpy import lowlevel as ref
from cbv import specs
bk = specs.ConcBk


def run(seed, dense):
    rnd = random.Random(seed)
    n = 0
    bad = []
    rs = np.random.RandomState(seed)
    # level-1 filters: shipped tables + random odd / even lengths
    filts = []
    for name in ('antonini', 'legall', 'near_sym_a', 'near_sym_b', 'near_sym_b_bp'):
        filts += [np.asarray(f).ravel() for f in coeffs.biort(name)]
    filts += [rs.randn(k) for k in (1, 2, 3, 4, 6, 9)]
    for h in filts:
        m = len(h)
        for r in sorted(set([1, 2, 3, 4, 5, 8, m, m + 3, rnd.randint(2, 30)])):
            X = rs.randn(r, 2)
            want = ref.colfilter(X, h)
            f = lambda c: specs.dt_colfilter(bk, lambda k: X[k, c], r, lambda t: h[t], m)
            got = np.array([[f(c)(i) for c in range(2)] for i in range(specs.dt_colfilter_len(bk, r, m))])
            n += 1
            if got.shape != want.shape or np.abs(got - want).max() > 1e-10:
                bad.append(('colfilter', m, r))
    pairs = []
    for name in ('qshift_06', 'qshift_a', 'qshift_b', 'qshift_c', 'qshift_d', 'qshift_b_bp', 'qshift_32'):
        t = [np.asarray(f).ravel() for f in coeffs.qshift(name)]
        h0a, h0b, g0a, g0b, h1a, h1b, g1a, g1b = t[:8]
        pairs += [(h0b, h0a), (h1b, h1a), (g0b, g0a), (g1b, g1a)]
        if len(t) > 8:
            pairs += [(t[9], t[8]), (t[11], t[10])]
    for k in (2, 4, 6, 8, 12):
        a = rs.randn(k)
        pairs += [(a, a[::-1] + 0.1), (a, -a[::-1])]
    for ha, hb in pairs:
        m = len(ha)
        delta = 0 if np.sum(ha * hb) > 0 else 1
        for r4 in (1, 2, 3, 5) + ((8, 13) if dense else ()):
            r = 4 * r4
            X = rs.randn(r, 2)
            want = ref.coldfilt(X, ha, hb)
            got = np.array([[specs.dt_coldfilt(bk, lambda k: X[k, c], r, lambda t: ha[t], lambda t: hb[t], m, delta)(i)
                             for c in range(2)] for i in range(r // 2)])
            n += 1
            if got.shape != want.shape or np.abs(got - want).max() > 1e-10:
                bad.append(('coldfilt', m, r, delta))
        for r2 in (1, 2, 3, 4, 7) + ((10, 16) if dense else ()):
            r = 2 * r2
            X = rs.randn(r, 2)
            want = ref.colifilt(X, ha, hb)
            got = np.array([[specs.dt_colifilt(bk, lambda k: X[k, c], r, lambda t: ha[t], lambda t: hb[t], m, delta)(i)
                             for c in range(2)] for i in range(2 * r)])
            n += 1
            if got.shape != want.shape or np.abs(got - want).max() > 1e-10:
                bad.append(('colifilt', m, r, delta))
    return n, bad


if __name__ == '__main__':
    seed = int(sys.argv[1]) if len(sys.argv) > 1 else 0
    dense = len(sys.argv) > 2 and sys.argv[2] == 'dense'
    n, bad = run(seed, dense)
    print(json.dumps({'evaluations': n, 'disagreements': bad[:20], 'n_bad': len(bad)}))
