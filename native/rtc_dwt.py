"""Run-time contracts for the DWT modules: real module vs PyWavelets (float64)."""
import numpy as np, torch, pywt
import rtc
from rtc import _rand, _close, _sz, register


def build64(cls, **kw):
    """module constructed in float64 (default dtype switched only during construction)"""
    old = torch.get_default_dtype()
    torch.set_default_dtype(torch.float64)
    try:
        return cls(**kw)
    finally:
        torch.set_default_dtype(old)


def _wave(L2, axis='c'):
    L2 = max(1, min(19, int(L2)))
    w = pywt.Wavelet('db%d' % L2)
    rtc.EFF['L' + axis] = w.dec_len
    return w


def _named(name, axis='c'):
    w = pywt.Wavelet(name)
    rtc.EFF['L' + axis] = w.dec_len
    return w


def _mode(m):
    return 'periodization' if m == 'per' else m


def _levels(sizes, shape, L):
    J = _sz(sizes, 'J', 1, 1, 3)
    return J


def _mk_wave_arg(cfg, wc, wr, rec=False):
    wf = cfg.get('waveform', 'wavelet')
    lo, hi = ('rec_lo', 'rec_hi') if rec else ('dec_lo', 'dec_hi')
    if wf == 'name':
        return wc.name
    if wf == 'wavelet':
        return wc
    if wf == 'tuple2':
        return (np.array(getattr(wc, lo)), np.array(getattr(wc, hi)))
    if wf == 'tuple4col':            # the four filters as (L, 1) column arrays (the layout of the shipped DTCWT tables)
        return tuple(np.array(getattr(w_, k_)).reshape(-1, 1) for w_, k_ in ((wc, lo), (wc, hi), (wr, lo), (wr, hi)))
    return (np.array(getattr(wc, lo)), np.array(getattr(wc, hi)), np.array(getattr(wr, lo)), np.array(getattr(wr, hi)))


@register('dwt_forward')
def check_dwt_forward(cfg, sizes, rnd):
    import pytorch_wavelets as pw
    from pytorch_wavelets.dwt.transform1d import DWT1DForward
    from pytorch_wavelets.dwt.transform2d import DWTForward
    dim, mode = cfg['dim'], cfg['mode']
    wc = _wave(sizes.get('Lc2', sizes.get('L2', 2)))
    wr = _wave(sizes.get('Lr2', 1), 'r') if cfg.get('waveform') in ('tuple4', 'tuple4col') else wc
    J = _sz(sizes, 'J', 1, 1, 3)
    Bn, C = _sz(sizes, 'B', 1, 1, 2), _sz(sizes, 'C', 1, 1, 2)
    m = _mode(mode)
    if dim == 1:
        N = _sz(sizes, 'N', sizes.get('W', 5), 2, 40)
        x = _rand(rnd, Bn, C, N)
        try:
            yl, yh = build64(DWT1DForward, J=J, wave=_mk_wave_arg(cfg, wc, wr), mode=mode)(x)
        except Exception as e:
            if mode == 'reflect':
                return True, 'raises as permitted in reflect mode (%s)' % type(e).__name__
            return False, 'raises %s: %s' % (type(e).__name__, e)
        import warnings
        with warnings.catch_warnings():
            warnings.simplefilter('ignore')
            try:
                ref = pywt.wavedec(x.numpy(), wc, mode=m, level=J, axis=-1)
            except ValueError as e:
                return True, 'oracle undefined here (pywt raises: %s)' % e
        ok, det = _close(yl.numpy(), ref[0])
        for j in range(J):
            if not ok:
                break
            ok, det = _close(yh[j].numpy(), ref[J - j])
        return ok, 'DWT1DForward J=%d %s %s N=%d L=%d: %s' % (J, mode, cfg.get('waveform'), N, wc.dec_len, det)
    H, W = _sz(sizes, 'H', 5, 2, 24), _sz(sizes, 'W', 6, 2, 24)
    x = _rand(rnd, Bn, C, H, W)
    try:
        yl, yh = build64(DWTForward, J=J, wave=_mk_wave_arg(cfg, wc, wr), mode=mode)(x)
    except Exception as e:
        if mode == 'reflect':
            return True, 'raises as permitted in reflect mode (%s)' % type(e).__name__
        return False, 'raises %s: %s' % (type(e).__name__, e)
    import warnings
    with warnings.catch_warnings():
        warnings.simplefilter('ignore')
        try:
            ref = pywt.wavedec2(x.numpy(), (wc, wr), mode=m, level=J, axes=(-2, -1))
        except ValueError as e:
            return True, 'oracle undefined here (pywt raises: %s)' % e
    ok, det = _close(yl.numpy(), ref[0])
    for j in range(J):
        if not ok:
            break
        cH, cV, cD = ref[J - j]
        ok, det = _close(yh[j].numpy(), np.stack([cH, cV, cD], axis=2))
    return ok, 'DWTForward J=%d %s %s HxW=%dx%d Lcol=%d Lrow=%d: %s' % (J, mode, cfg.get('waveform'), H, W,
                                                                       wc.dec_len, wr.dec_len, det)


def _none_needs_unpad(detail_shapes, none_level, Ls, mode):
    """detail_shapes[j] = spatial shape of the band-pass level j (0 = finest).  True when the low-pass that reaches the absent level is
    longer than that level's own extent on some axis (pywt.waverec drops the extra sample there; an absent level carries no shape)"""
    J = len(detail_shapes)
    if none_level >= J - 1:
        return False                      # coarsest level: the given low-pass has the level's shape
    coarser = detail_shapes[none_level + 1]
    own = detail_shapes[none_level]
    for n_c, n_o, L in zip(coarser, own, Ls):
        incoming = 2 * n_c if mode == 'periodization' else 2 * n_c - L + 2
        if incoming > n_o:
            return True
    return False


@register('dwt_inverse')
def check_dwt_inverse(cfg, sizes, rnd):
    from pytorch_wavelets.dwt.transform1d import DWT1DInverse
    from pytorch_wavelets.dwt.transform2d import DWTInverse
    dim, mode = cfg['dim'], cfg['mode']
    wc = _wave(sizes.get('Lc2', sizes.get('L2', 2)))
    wr = _wave(sizes.get('Lr2', 1), 'r') if cfg.get('waveform') in ('tuple4', 'tuple4col') else wc
    J = _sz(sizes, 'J', 1, 1, 3)
    Bn, C = _sz(sizes, 'B', 1, 1, 2), _sz(sizes, 'C', 1, 1, 2)
    m = _mode(mode)
    none_level = cfg.get('none_level')
    import warnings
    warnings.simplefilter('ignore')
    if dim == 1:
        N = _sz(sizes, 'N', sizes.get('W', 9), 2, 40)
        # an arbitrary pyramid with forward-compatible shapes
        try:
            shapes = [c.shape for c in pywt.wavedec(np.zeros((Bn, C, N)), wc, mode=m, level=J, axis=-1)]
        except ValueError as e:
            return True, 'oracle undefined here (pywt raises: %s)' % e
        coeffs = [rtc.RState(rnd.randint(0, 10**6)).randn(*s) for s in shapes]
        yl = torch.tensor(coeffs[0])
        yh = [torch.tensor(c) for c in coeffs[1:]][::-1]
        ref_c = list(coeffs)
        if none_level is not None and none_level < J:
            yh[none_level] = None
            ref_c[J - none_level] = None
            rtc.EFF['none_needs_unpad'] = _none_needs_unpad([s_[-1:] for s_ in shapes[1:]][::-1], none_level, [wc.dec_len], m)
        try:
            got = build64(DWT1DInverse, wave=_mk_wave_arg(cfg, wc, wr, True), mode=mode)((yl, yh))
        except Exception as e:
            return False, 'raises %s: %s' % (type(e).__name__, e)
        ref = pywt.waverec(ref_c, wc, mode=m, axis=-1)
        ok, det = _close(got.numpy(), ref)
        return ok, 'DWT1DInverse J=%d %s N=%d L=%d none=%s: %s' % (J, mode, N, wc.dec_len, none_level, det)
    H, W = _sz(sizes, 'H', 7, 2, 24), _sz(sizes, 'W', 6, 2, 24)
    try:
        ref0 = pywt.wavedec2(np.zeros((Bn, C, H, W)), (wc, wr), mode=m, level=J, axes=(-2, -1))
    except ValueError as e:
        return True, 'oracle undefined here (pywt raises: %s)' % e
    rs = rtc.RState(rnd.randint(0, 10**6))
    cA = rs.randn(*ref0[0].shape)
    det_ = [tuple(rs.randn(*d.shape) for d in lvl) for lvl in ref0[1:]]
    yl = torch.tensor(cA)
    yh = [torch.tensor(np.stack(lvl, axis=2)) for lvl in det_][::-1]
    ref_c = [cA] + [tuple(l) for l in det_]
    if none_level is not None and none_level < J:
        yh[none_level] = None
        ref_c[J - none_level] = tuple([None, None, None])
        rtc.EFF['none_needs_unpad'] = _none_needs_unpad([d[0].shape[-2:] for d in ref0[1:]][::-1], none_level, [wc.dec_len, wr.dec_len], m)
    try:
        got = build64(DWTInverse, wave=_mk_wave_arg(cfg, wc, wr, True), mode=mode)((yl, yh))
    except Exception as e:
        return False, 'raises %s: %s' % (type(e).__name__, e)
    ref = pywt.waverec2(ref_c, (wc, wr), mode=m, axes=(-2, -1))
    ok, det = _close(got.numpy(), ref)
    return ok, 'DWTInverse J=%d %s %s HxW=%dx%d Lcol=%d Lrow=%d none=%s: %s' % (
        J, mode, cfg.get('waveform'), H, W, wc.dec_len, wr.dec_len, none_level, det)


@register('dwt_grad')
def check_dwt_grad(cfg, sizes, rnd):
    """autograd through the real Function vs J^T g with J assembled column by
    column from the real forward (the transform is linear in its data inputs)"""
    from pytorch_wavelets.dwt import lowlevel
    cls, mode = cfg['cls'], cfg['mode']
    needs = cfg.get('needs', [True, True])
    one_d = cls.endswith('1D')
    ana = cls.startswith('AFB')
    L = 2 * _sz(sizes, 'L2', 2, 1, 8)
    Lr = 2 * _sz(sizes, 'Lr2', sizes.get('L2', 2), 1, 8)
    rtc.EFF.update(Lc=L, Lr=(L if one_d else Lr), J=1)
    Bn, C = 1, _sz(sizes, 'C', 1, 1, 2)
    mi = lowlevel.mode_to_int(mode)
    rs = rtc.RState(rnd.randint(0, 10**6))

    def filt(n, shape):
        return torch.tensor(rs.randn(n)).reshape(shape)
    if one_d:
        N = _sz(sizes, 'N', 5, 1, 24)
        f = [filt(L, (1, 1, L)), filt(L, (1, 1, L))]
        shapes = [(Bn, C, N)] if ana else [(Bn, C, N), (Bn, C, N)]
        fn = (lambda *d: lowlevel.AFB1D.apply(d[0], f[0], f[1], mi)) if ana else \
            (lambda *d: lowlevel.SFB1D.apply(d[0], d[1], f[0], f[1], mi))
    else:
        H, W = _sz(sizes, 'H', 5, 1, 12), _sz(sizes, 'W', 4, 1, 12)
        f = [filt(Lr, (1, 1, 1, Lr)), filt(Lr, (1, 1, 1, Lr)), filt(L, (1, 1, L, 1)), filt(L, (1, 1, L, 1))]
        shapes = [(Bn, C, H, W)] if ana else [(Bn, C, H, W), (Bn, C, 3, H, W)]
        fn = (lambda *d: lowlevel.AFB2D.apply(d[0], f[0], f[1], f[2], f[3], mi)) if ana else \
            (lambda *d: lowlevel.SFB2D.apply(d[0], d[1], f[0], f[1], f[2], f[3], mi))
    data = [torch.tensor(rs.randn(*s)) for s in shapes]

    def flat(out):
        outs = out if isinstance(out, tuple) else (out,)
        return torch.cat([o.reshape(-1) for o in outs])
    try:
        y0 = flat(fn(*data))
    except Exception as e:
        if mode == 'reflect':
            return True, 'forward raises as permitted in reflect mode'
        return True, 'forward raises (%s) - outside the gradient property' % type(e).__name__
    g = torch.tensor(rs.randn(y0.numel()))
    det = ''
    for k, need in enumerate(needs[:len(data)]):
        if not need:
            continue
        # J for input k
        n = data[k].numel()
        Jt_g = np.zeros(n)
        for m in range(n):
            e = [torch.zeros_like(d) for d in data]
            e[k].reshape(-1)[m] = 1.0
            Jt_g[m] = float((flat(fn(*e)) * g).sum())
        inp = [d.clone().requires_grad_(bool(nd)) for d, nd in zip(data, list(needs) + [False] * 4)]
        y = flat(fn(*inp))
        try:
            gr = torch.autograd.grad((y * g).sum(), inp[k], allow_unused=True)[0]
        except Exception as e:
            return False, '%s mode=%s needs=%s: autograd raises %s: %s' % (cls, mode, needs, type(e).__name__, e)
        if gr is None:
            return False, '%s mode=%s needs=%s: input %d requires grad but receives None' % (cls, mode, needs, k)
        ok, det = _close(gr.reshape(-1).numpy(), Jt_g, 1e-8)
        if not ok:
            return False, '%s mode=%s needs=%s shapes=%s L=%d: gradient of input %d is not J^T g (%s)' % (
                cls, mode, needs, shapes, L, k, det)
    return True, '%s mode=%s needs=%s shapes=%s: %s' % (cls, mode, needs, shapes, det)


@register('slices')
def check_slices(cfg, sizes, rnd):
    """linearity and slice-wise action of the real modules"""
    from pytorch_wavelets.dwt.transform1d import DWT1DForward, DWT1DInverse
    from pytorch_wavelets.dwt.transform2d import DWTForward, DWTInverse
    fn, mode = cfg['fn'], cfg['mode']
    if fn not in ('DWT1DForward', 'DWTForward', 'DWT1DInverse', 'DWTInverse'):
        fn = {'afb1d': 'DWT1DForward', 'AFB1D': 'DWT1DForward', 'AFB2D': 'DWTForward', 'sfb1d': 'DWT1DInverse',
              'SFB1D': 'DWT1DInverse', 'SFB2D': 'DWTInverse'}.get(fn, 'DWTForward')
    w = _wave(sizes.get('L2', 2))
    Bn, C = _sz(sizes, 'B', 2, 1, 3), _sz(sizes, 'C', 2, 1, 3)
    N = _sz(sizes, 'N', 6, 2, 16)
    one_d = '1D' in fn
    rs = rtc.RState(rnd.randint(0, 10**6))
    shp = (Bn, C, N) if one_d else (Bn, C, N, N + 1)
    cls = {'DWT1DForward': DWT1DForward, 'DWTForward': DWTForward, 'DWT1DInverse': DWT1DInverse, 'DWTInverse': DWTInverse}[fn]
    fwd = 'Forward' in fn
    mod = build64(cls, J=2, wave=w, mode=mode) if fwd else build64(cls, wave=w, mode=mode)
    ana = build64(DWT1DForward if one_d else DWTForward, J=2, wave=w, mode=mode)

    def flat(o):
        if isinstance(o, tuple):
            return torch.cat([o[0].reshape(o[0].shape[0], o[0].shape[1], -1)] + [h.reshape(h.shape[0], h.shape[1], -1) for h in o[1]], dim=2)
        return o.reshape(o.shape[0], o.shape[1], -1)
    try:
        if fwd:
            T = lambda x: flat(mod(x))
            x, y = torch.tensor(rs.randn(*shp)), torch.tensor(rs.randn(*shp))
            comb = lambda a, b: a * x + b * y
            Tx, Ty, Tc, T0 = T(x), T(y), T(1.5 * x - 0.25 * y), T(torch.zeros(shp, dtype=torch.float64))
        else:
            px, py = ana(torch.tensor(rs.randn(*shp))), ana(torch.tensor(rs.randn(*shp)))
            T = lambda p: flat(mod(p))
            lin = lambda a, p, b, q: (a * p[0] + b * q[0], [a * u + b * v for u, v in zip(p[1], q[1])])
            Tx, Ty, Tc = T(px), T(py), T(lin(1.5, px, -0.25, py))
            T0 = T(lin(0.0, px, 0.0, py))
    except Exception as e:
        if mode == 'reflect':
            return True, 'raises as permitted (reflect)'
        return False, 'raises %s: %s' % (type(e).__name__, e)
    ok, det = _close(Tc.numpy(), (1.5 * Tx - 0.25 * Ty).numpy())
    if not ok:
        return False, '%s %s: not linear (%s)' % (fn, mode, det)
    if float(T0.abs().max()) != 0.0:
        return False, '%s %s: T(0) != 0' % (fn, mode)
    if fwd:
        # slice (n, c) of the output must equal the transform of slice (n, c) alone
        n0, c0 = Bn - 1, C - 1
        one = flat(mod(x[n0:n0 + 1, c0:c0 + 1]))
        ok, det = _close(Tx[n0:n0 + 1, c0:c0 + 1].numpy(), one.numpy())
        if not ok:
            return False, '%s %s: slice (%d,%d) is not the transform of that slice alone (%s)' % (fn, mode, n0, c0, det)
    return True, '%s %s shape %s ok' % (fn, mode, shp)


@register('nonsep')
def check_nonsep(cfg, sizes, rnd):
    """the library's non-separable bank against its separable bank (code vs code)"""
    from pytorch_wavelets.dwt import lowlevel
    mode, nf, kind = cfg['mode'], cfg.get('nf', 4), cfg.get('kind', 'afb')
    wc = _wave(sizes.get('L2', sizes.get('Lc2', 2)))
    wr = _wave(sizes.get('Lr2', 1), 'r') if nf == 4 else wc
    H, W = _sz(sizes, 'H', 6, 1, 20), _sz(sizes, 'W', 5, 1, 20)
    C = _sz(sizes, 'C', 2, 1, 3)
    rs = rtc.RState(rnd.randint(0, 10**6))
    old = torch.get_default_dtype()
    torch.set_default_dtype(torch.float64)
    try:
        if kind == 'afb':
            fl = [wc.dec_lo, wc.dec_hi] + ([wr.dec_lo, wr.dec_hi] if nf == 4 else [])
            x = torch.tensor(rs.randn(1, C, H, W))
            try:
                a = lowlevel.afb2d_nonsep(x, fl, mode)
            except Exception as e:
                try:
                    lowlevel.afb2d(x, fl, mode)
                except Exception:
                    return True, 'both raise'
                return False, 'afb2d_nonsep raises %s: %s but afb2d returns' % (type(e).__name__, e)
            b = lowlevel.afb2d(x, fl, mode)
        else:
            fl = [wc.rec_lo, wc.rec_hi] + ([wr.rec_lo, wr.rec_hi] if nf == 4 else [])
            co = torch.tensor(rs.randn(1, C, 4, H, W))
            if mode not in ('per', 'periodization') and (2 * H - wc.dec_len + 2 < 1 or 2 * W - wr.dec_len + 2 < 1):
                return True, 'outside precondition'
            a = lowlevel.sfb2d_nonsep(co, fl, mode)
            b = lowlevel.sfb2d(co[:, :, 0], co[:, :, 1], co[:, :, 2], co[:, :, 3], fl, mode)
    finally:
        torch.set_default_dtype(old)
    ok, det = _close(a.numpy(), b.numpy())
    return ok, '%s2d_nonsep vs %s2d mode=%s nf=%d HxW=%dx%d L=%d,%d: %s' % (kind, kind, mode, nf, H, W, wc.dec_len, wr.dec_len, det)


@register('dwt_pr')
def check_dwt_pr(cfg, sizes, rnd):
    """inverse(forward(x)) == x on the original extent; error compared with PyWavelets' own"""
    from pytorch_wavelets.dwt.transform1d import DWT1DForward, DWT1DInverse
    from pytorch_wavelets.dwt.transform2d import DWTForward, DWTInverse
    import warnings
    warnings.simplefilter('ignore')
    dim, mode = cfg['dim'], cfg['mode']
    name = cfg.get('wave')
    w = _named(name) if name else _wave(sizes.get('Lc2', sizes.get('L2', 2)))
    J = _sz(sizes, 'J', 2, 1, 4)
    m = _mode(mode)
    rs = rtc.RState(rnd.randint(0, 10**6))
    if dim == 1:
        N = _sz(sizes, 'N', 9, 2, 64)
        x = torch.tensor(rs.randn(1, 2, N))
        F_, I_ = DWT1DForward, DWT1DInverse
        ref = lambda a: pywt.waverec(pywt.wavedec(a, w, mode=m, level=J, axis=-1), w, mode=m, axis=-1)
        crop = lambda y: y[..., :N]
    else:
        H, W = _sz(sizes, 'H', 9, 2, 40), _sz(sizes, 'W', 6, 2, 40)
        x = torch.tensor(rs.randn(1, 2, H, W))
        F_, I_ = DWTForward, DWTInverse
        ref = lambda a: pywt.waverec2(pywt.wavedec2(a, w, mode=m, level=J, axes=(-2, -1)), w, mode=m, axes=(-2, -1))
        crop = lambda y: y[..., :H, :W]
    try:
        yl, yh = build64(F_, J=J, wave=w, mode=mode)(x)
    except Exception as e:
        return True, 'forward raises (%s): outside the property (reflect mode / signal shorter than filter)' % type(e).__name__
    try:
        y = build64(I_, wave=w, mode=mode)((yl, yh))
    except Exception as e:
        return False, 'inverse raises on the forward output: %s: %s' % (type(e).__name__, e)
    for a, b in zip(y.shape[2:], x.shape[2:]):
        if a not in (b, b + 1):
            return False, 'extent %s for input %s' % (tuple(y.shape), tuple(x.shape))
    err = float((crop(y) - x).abs().max())
    try:
        perr = float(np.abs(crop(torch.tensor(ref(x.numpy()))).numpy() - x.numpy()).max())
    except ValueError:
        perr = None
    tol = 1e-9 if w.short_family_name != 'dmey' else None
    if tol is not None:
        ok = err <= tol * rtc.AMP['scale']
    else:
        ok = perr is None or err <= 1.01 * perr + 1e-12 * rtc.AMP['scale']
    return ok, 'PR dim=%d %s %s J=%d shape=%s: err %.3g (pywt %s)' % (dim, mode, w.name, J, tuple(x.shape), err, perr)


@register('dwt_orth')
def check_dwt_orth(cfg, sizes, rnd):
    """orthogonal wavelet + periodization, every level even and >= L: energy preserved and inverse(g) == backprop(g)"""
    from pytorch_wavelets.dwt.transform1d import DWT1DForward, DWT1DInverse
    from pytorch_wavelets.dwt.transform2d import DWTForward, DWTInverse
    dim = cfg['dim']
    w = _named(cfg['wave']) if cfg.get('wave') else _wave(sizes.get('L2', 2))
    J = _sz(sizes, 'J', 2, 1, 3)
    mult = _sz(sizes, 'm', 1, 1, 4)
    N = (w.dec_len + 2 * mult) // 2 * 2 * 2 ** (J - 1)
    rs = rtc.RState(rnd.randint(0, 10**6))
    shp = (1, 2, N) if dim == 1 else (1, 2, N, N + 2 ** J)
    x = torch.tensor(rs.randn(*shp), requires_grad=True)
    F_, I_ = (DWT1DForward, DWT1DInverse) if dim == 1 else (DWTForward, DWTInverse)
    fwd = build64(F_, J=J, wave=w, mode='periodization')
    inv = build64(I_, wave=w, mode='periodization')
    yl, yh = fwd(x)
    e_in = float((x ** 2).sum())
    e_out = float((yl ** 2).sum() + sum((h ** 2).sum() for h in yh))
    if abs(e_in - e_out) > 1e-9 * e_in:
        return False, 'energy %g -> %g (%s, N=%d, J=%d)' % (e_in, e_out, w.name, N, J)
    gl = torch.tensor(rs.randn(*yl.shape))
    gh = [torch.tensor(rs.randn(*h.shape)) for h in yh]
    (yl * gl).sum().__add__(sum((h * g).sum() for h, g in zip(yh, gh))).backward()
    ok, det = _close(inv((gl, gh)).detach().numpy(), x.grad.numpy(), 1e-9)
    return ok, 'orth dim=%d %s N=%d J=%d: inverse(g) vs backprop(g): %s' % (dim, w.name, N, J, det)


@register('swt_forward')
def check_swt_forward(cfg, sizes, rnd):
    """real SWTForward vs pywt.swt2 (and circular-shift equivariance)"""
    from pytorch_wavelets.dwt.transform2d import SWTForward
    w = _named(cfg['wave']) if cfg.get('wave') else _wave(sizes.get('Lc2', sizes.get('L2', 2)))
    J = min(6, max(_sz(sizes, 'J', 2, 1, 3), int(cfg.get('minJ', 1))))
    mh, mw = _sz(sizes, 'mh', 2, 1, 6), _sz(sizes, 'mw', 3, 1, 6)
    H, W = mh * 2 ** J, mw * 2 ** J
    rs = rtc.RState(rnd.randint(0, 10**6))
    x = torch.tensor(rs.randn(1, 2, H, W))
    kw = {'J': J, 'wave': w}
    if cfg.get('mode') is not None:
        kw['mode'] = cfg['mode']
    try:
        mod = build64(SWTForward, **kw)
        out = mod(x)
    except Exception as e:
        return False, 'SWTForward(%s) raises %s: %s' % (kw.get('mode', 'default mode'), type(e).__name__, e)
    ref = pywt.swt2(x.numpy(), w, level=J, axes=(-2, -1))
    if len(out) != J:
        return False, 'returns %d levels for J=%d' % (len(out), J)
    for j in range(J):
        cA, (cH, cV, cD) = ref[J - 1 - j]
        want = np.stack([cA, cH, cV, cD], axis=2)
        ok, det = _close(out[j].numpy(), want)
        if not ok:
            return False, 'SWTForward J=%d level %d %s HxW=%dx%d: %s' % (J, j + 1, w.name, H, W, det)
    sh, sw = rnd.randint(1, H - 1) if H > 1 else 0, rnd.randint(1, W - 1) if W > 1 else 0
    out2 = mod(torch.roll(x, (sh, sw), (-2, -1)))
    for j in range(J):
        ok, det = _close(out2[j].numpy(), torch.roll(out[j], (sh, sw), (-2, -1)).numpy())
        if not ok:
            return False, 'not shift-equivariant at level %d: %s' % (j + 1, det)
    return True, 'SWTForward J=%d %s HxW=%dx%d ok' % (J, w.name, H, W)
