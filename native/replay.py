"""Replay of a verifier counterexample against the real code.
usage: /venv/bin/python native/replay.py <replay.json> [--search]
exit 1 = the violation reproduces on $REPO, 0 = it does not."""
import sys, json, os, itertools
HERE = os.path.dirname(os.path.abspath(__file__))
sys.path.insert(0, HERE)
import rtc
for m in ('rtc_dwt', 'rtc_dtcwt', 'rtc_scat', 'rtc_misc'):
    try:
        __import__(m)
    except ImportError:
        pass


import known
FINDINGS = {}


def _run(fn, cfg, sizes, seed):
    """one evaluation; a failure inside the region of a recorded known finding is not a new violation"""
    r = rtc.run_one(fn, cfg, sizes, seed)
    if r['ok'] is False and known.in_known({'fn': fn, 'cfg': cfg, 'sizes': sizes, 'eff': r.get('eff', {})}, FINDINGS):
        return {'ok': True, 'detail': 'inside a known-finding region: ' + r['detail'][:100]}
    return r


def search(fn, cfg, model, budget=450):
    """the model point first, then a small-size sweep over the obligation's scope"""
    tried = 0
    r = _run(fn, cfg, model, 0)
    if r['ok'] is False:
        return model, r
    amps = ('unit', 'tiny', 'huge', 'sparse') if fn in rtc.LINEAR_FNS and 'amp' not in cfg else ('unit',)
    for amp in amps[1:]:
        r2 = _run(fn, dict(cfg, amp=amp), model, 0)
        if r2['ok'] is False:
            return dict(model, amp=amp), r2
    if fn in ('precision', 'purity', 'history_order', 'functional_dtype', 'dtcwt_table', 'scat_grad_ref'):      # fixed shapes: only the seed varies
        for sd in (1, 2):
            r2 = _run(fn, cfg, model, sd)
            if r2['ok'] is False:
                return model, r2
        return None, r
    # option combinations the recipe leaves open (absent levels of the synthesis pyramids)
    variants = [{}]
    if fn == 'dwt_inverse' and 'none_level' not in cfg:
        variants += [{'none_level': 0}, {'none_level': 1}]
    if fn == 'scat_forward':
        # module state (eval mode) and the zero-bias / exactly-zero-region corner of the magnitude
        for v in ({'eval_mode': True, 'magbias': 0.3}, {'magbias': 0.0, 'sparse': True}, {'magbias': 0.0, 'zero_image': True}):
            if not any(k in cfg for k in v):
                r2 = _run(fn, dict(cfg, **v), dict(model, H=16, W=16), 0)
                if r2['ok'] is False:
                    return dict(model, H=16, W=16, _seed=0, _cfg=v), r2
    for total in range(0, 30):
        for H, W, L2 in itertools.product(range(1, 12), range(1, 12), range(1, 6)):
            if H + W + L2 != total + 3:
                continue
            for C, J in ((1, 1), (2, 2), (1, 3)):
                sizes = dict(model)
                sizes.update({'H': H, 'W': W, 'N': W, 'L2': L2, 'Lc2': L2, 'Lr2': max(1, (L2 + 1) % 4), 'C': C, 'B': 1, 'J': J})
                for extra in variants:
                    amp = amps[(tried // 2) % len(amps)] if tried % 2 else 'unit'
                    cfg2 = dict(cfg, **extra)
                    r = _run(fn, dict(cfg2, amp=amp) if amp != 'unit' else cfg2, sizes, tried)
                    tried += 1
                    if r['ok'] is False:
                        return dict(sizes, _seed=tried - 1, _cfg=extra, **({'amp': amp} if amp != 'unit' else {})), r
                    if tried >= budget:
                        return None, r
    return None, r


if __name__ == '__main__':
    spec = json.load(open(sys.argv[1]))
    fn, cfg, model = spec.get('fn'), spec.get('cfg', {}), spec.get('model', {})
    if fn is None or fn not in rtc.CHECKS:
        print(json.dumps({'reproduced': None, 'detail': 'no native replay recipe for this obligation'}))
        sys.exit(0)
    if '--search' in sys.argv:
        FINDINGS.update(known.load_findings(spec.get('property')))
        sizes, r = search(fn, cfg, model)
        print(json.dumps({'reproduced': sizes is not None, 'sizes': sizes, 'detail': r['detail']}))
        sys.exit(1 if sizes is not None else 0)
    fi = dict(spec.get('failing_input') or model)
    if 'amp' in fi:
        cfg = dict(cfg, amp=fi.pop('amp'))
    cfg = dict(cfg, **fi.pop('_cfg', {}))
    r = rtc.run_one(fn, cfg, fi, fi.pop('_seed', spec.get('seed', 0)))
    print(json.dumps({'reproduced': r['ok'] is False, 'detail': r['detail']}))
    sys.exit(1 if r['ok'] is False else 0)
