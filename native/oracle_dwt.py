"""Cross-validation of the spec functions (cbv/specs.py, concrete backend) against
PyWavelets.  Runs under /venv/bin/python.  A disagreement is a CHECKER error
(spec does not say what the oracle does), never a property violation."""
import sys, os, json, random
sys.path.insert(0, os.path.join(os.path.dirname(os.path.abspath(__file__)), '..'))
import numpy as np, pywt
from cbv import specs
bk = specs.ConcBk


def run(seed, dense):
    rnd = random.Random(seed)
    waves = ['haar', 'db2', 'db3', 'db4', 'sym5', 'coif2', 'bior2.4', 'bior3.1', 'rbio1.3', 'db8', 'dmey']
    if dense:
        waves = pywt.wavelist(kind='discrete')
    modes = ['zero', 'symmetric', 'reflect', 'periodic', 'periodization']
    n_eval = 0
    bad = []
    for wn in waves:
        w = pywt.Wavelet(wn)
        L = w.dec_len
        sizes = sorted(set([2, 3, 4, 5, 7, 8, L - 1, L, L + 1, 2 * L + 3, rnd.randint(2, 3 * L + 5)]))
        sizes = [s for s in sizes if s >= 2]
        for mode in modes:
            for N in sizes:
                x = np.array([rnd.uniform(-1, 1) for _ in range(N)])
                # ---- analysis
                if True:
                    ca, cd = pywt.dwt(x, w, mode)
                    n_out = specs.dwt_len(bk, N, L, mode)
                    for taps, ref in ((w.dec_lo, ca), (w.dec_hi, cd)):
                        f = specs.dwt1(bk, lambda j: x[j], N, lambda u: taps[u], L, mode)
                        got = np.array([f(i) for i in range(n_out)])
                        n_eval += 1
                        if got.shape != ref.shape or np.abs(got - ref).max() > 1e-10 * (1 + np.abs(ref).max()):
                            bad.append(('dwt1', wn, mode, N))
                # ---- synthesis on arbitrary coefficients
                Nc = specs.dwt_len(bk, N, L, mode)
                lo = np.array([rnd.uniform(-1, 1) for _ in range(Nc)])
                hi = np.array([rnd.uniform(-1, 1) for _ in range(Nc)])
                if mode != 'periodization' and 2 * Nc - L + 2 < 1:
                    continue
                ref = pywt.idwt(lo, hi, w, mode)
                n_out = specs.idwt_len(bk, Nc, L, mode)
                f = specs.idwt1(bk, lambda k: lo[k], lambda k: hi[k], Nc, lambda v: w.rec_lo[v], lambda v: w.rec_hi[v], L, mode)
                got = np.array([f(n) for n in range(n_out)])
                n_eval += 1
                if got.shape != ref.shape or np.abs(got - ref).max() > 1e-10 * (1 + np.abs(ref).max()):
                    bad.append(('idwt1', wn, mode, N, Nc))
    # ---- stationary transform: spec swt1 (dilated filters, periodic) vs pywt.swt
    for wn in waves[:12] if not dense else waves:
        w = pywt.Wavelet(wn)
        L = w.dec_len
        for J in (1, 2, 3):
            for mlt in (1, 3):
                N = mlt * 2 ** J * max(1, (L // 2 ** J))
                if N < 2:
                    continue
                x = np.array([rnd.uniform(-1, 1) for _ in range(N)])
                try:
                    ref = pywt.swt(x, w, level=J, trim_approx=False)
                except ValueError:
                    continue
                a = x
                for j in range(1, J + 1):
                    d = 2 ** (j - 1)
                    lo = np.array([specs.swt1(bk, lambda q: a[q], N, lambda u: w.dec_lo[u], L, d)(i) for i in range(N)])
                    hi = np.array([specs.swt1(bk, lambda q: a[q], N, lambda u: w.dec_hi[u], L, d)(i) for i in range(N)])
                    cA, cD = ref[J - j]
                    n_eval += 1
                    if np.abs(lo - cA).max() > 1e-10 or np.abs(hi - cD).max() > 1e-10:
                        bad.append(('swt1', wn, N, J, j))
                    a = lo
    return n_eval, bad


if __name__ == '__main__':
    seed = int(sys.argv[1]) if len(sys.argv) > 1 else 0
    dense = len(sys.argv) > 2 and sys.argv[2] == 'dense'
    n, bad = run(seed, dense)
    print(json.dumps({'evaluations': n, 'disagreements': bad[:20], 'n_bad': len(bad)}))
