"""Regions of the recorded known findings (known_findings.json), shared by the checker (python3-vt) and the replay
search (/venv python): a failing evaluation inside one of these regions is the known finding, not a new violation."""
import json, os
ROOT = os.path.dirname(os.path.dirname(os.path.abspath(__file__)))


def _f1_short(cfg, sz):
    """some level's even-extended length is smaller than the filter length (sz = the sizes the evaluation really used, when
    the checker reported them: clamped extents, actual wavelet lengths Lc / Lr)"""
    if 'Lc' in sz or 'Lr' in sz:
        J = sz.get('J', 1)
        lc = sz.get('Lc', sz.get('Lr'))
        lr = sz.get('Lr', lc)
        pairs = []
        if 'H' in sz or 'W' in sz:
            pairs += [(sz.get('H'), lc), (sz.get('W'), lr)]
        if 'N' in sz and ('H' not in sz):
            pairs.append((sz.get('N'), lc))
        for n, L in pairs:
            if n is None or L is None:
                continue
            if cfg.get('cls', '').startswith('SFB'):
                n = 2 * n
            if sz.get('synth1'):
                # one-level synthesis function (sfb1d): the single fold is exact down to 2*len == L-2 (proved), F1 starts below
                L = L - 2
            for j in range(J):
                if n + n % 2 < L:
                    return True
                n = (n + 1) // 2
        return False
    J = sz.get('J', 1)
    pairs = []
    if cfg.get('dim') == 1 or 'N' in sz and 'H' not in sz:
        pairs.append((sz.get('N', sz.get('W')), 2 * sz.get('Lc2', sz.get('L2', 1))))
    else:
        lr = sz.get('Lr2') if (cfg.get('waveform') == 'tuple4' or 'cls' in cfg) else sz.get('Lc2', sz.get('L2', 1))
        pairs += [(sz.get('H'), 2 * sz.get('Lc2', sz.get('L2', 1))), (sz.get('W'), 2 * (lr or 1))]
    for n, L in pairs:
        if n is None:
            continue
        if cfg.get('cls', '').startswith('SFB'):
            n = 2 * n
        for j in range(J):
            if n + n % 2 < L:
                return True
            n = (n + 1) // 2
    return False


def _f2_region(cfg, sz):
    m = cfg.get('mode')
    if m in ('symmetric', 'reflect', 'periodic'):
        return True
    if m in ('per', 'periodization') and cfg.get('cls', '').startswith('AFB'):
        return any(sz.get(k, 0) % 2 == 1 for k in ('N', 'H', 'W'))
    return False


def _f8_absent_level(cfg, sz):
    return 'level' in (cfg.get('absent') or {})


def _f13_none_unpad(cfg, sz):
    return cfg.get('none_level') is not None and bool(sz.get('none_needs_unpad'))


PREDS = {'f13_none_unpad': _f13_none_unpad,
         'f1_short': _f1_short, 'f2_region': _f2_region, 'f8_absent_level': _f8_absent_level,
         'f11_tiny': lambda cfg, sz: sz.get('H', 9) <= 2 or sz.get('W', 9) <= 2}


def in_known(fl, findings):
    for f in findings.values():
        m = f.get('bounded_match')
        if not m:
            continue
        if m.get('fn') and m['fn'] != fl['fn']:
            continue
        ok = True
        for k, v in m.get('cfg', {}).items():
            if fl['cfg'].get(k) not in (v if isinstance(v, list) else [v]):
                ok = False
        if ok and m.get('pred'):
            eff = dict(fl.get('sizes') or {})
            eff.update(fl.get('eff') or {})
            ok = PREDS[m['pred']](fl['cfg'], eff)
        if ok:
            return True
    return False




def load_findings(prop=None):
    p = os.path.join(ROOT, 'known_findings.json')
    if not os.path.exists(p):
        return {}
    out = {}
    for f in json.load(open(p)).get('findings', []):
        if prop is None or prop in f.get('property', []):
            out[f['id']] = f
    return out
