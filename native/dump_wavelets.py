"""Dumps the filter banks of every PyWavelets discrete wavelet as exact hex floats
(the verifier's python has no pywt).  usage: dump_wavelets.py <out.json>"""
import sys, json, pywt
out = {}
for name in pywt.wavelist(kind='discrete'):
    w = pywt.Wavelet(name)
    out[name] = {'family': w.family_name, 'short': w.short_family_name, 'orthogonal': bool(w.orthogonal),
                 'biorthogonal': bool(w.biorthogonal), 'dec_len': w.dec_len,
                 'dec_lo': [float(v).hex() for v in w.dec_lo], 'dec_hi': [float(v).hex() for v in w.dec_hi],
                 'rec_lo': [float(v).hex() for v in w.rec_lo], 'rec_hi': [float(v).hex() for v in w.rec_hi]}
json.dump(out, open(sys.argv[1], 'w'))
print(json.dumps({'n': len(out), 'n_bad': 0}))
