"""Recomputes the axiom-twin cases with the installed torch / numpy / pywt and compares.
usage: /venv/bin/python native/twins_check.py <cases.json>"""
import sys, json
import numpy as np, torch, pywt
import torch.nn.functional as F

js = json.load(open(sys.argv[1]))
bad = []
n = 0


def T(a):
    return torch.tensor(np.array(a, dtype=np.float64))


KEYS = {'a': (slice(None), slice(None), slice(None, -1)), 'b': (Ellipsis, slice(1, None, 2)), 'c': (slice(None), slice(0, None, 2), 0),
        'd': (slice(None), slice(None), None, slice(-3, None))}
for c in js['tensor_cases']:
    nm, a, inp = c['name'], c['args'], c['inputs']
    try:
        if nm == 'conv2d':
            kw = {k: (tuple(v) if isinstance(v, list) else v) for k, v in a.items()}
            r = F.conv2d(T(inp['x']), T(inp['w']), **kw)
        elif nm == 'conv_transpose2d':
            kw = {k: (tuple(v) if isinstance(v, list) else v) for k, v in a.items()}
            r = F.conv_transpose2d(T(inp['x']), T(inp['w']), **kw)
        elif nm == 'pad':
            r = F.pad(T(inp['x']), tuple(a['pad']), a['mode']) if a['mode'] != 'constant' else F.pad(T(inp['x']), tuple(a['pad']))
        elif nm == 'cat':
            r = torch.cat((T(inp['x']), T(inp['y'])), dim=a['dim'])
        elif nm == 'stack':
            r = torch.stack((T(inp['x']), T(inp['x'])), dim=a['dim'])
        elif nm == 'unbind':
            r = torch.unbind(T(inp['x']), dim=a['dim'])[a['pick']]
        elif nm == 'index_select':
            r = torch.index_select(T(inp['x']), a['dim'], torch.tensor(a['index']))
        elif nm == 'repeat':
            r = T(inp['x']).repeat(*a['reps'])
        elif nm == 'transpose':
            r = T(inp['x']).transpose(a['d0'], a['d1']).contiguous()
        elif nm == 'reshape':
            r = T(inp['x']).reshape(*a['shape'])
        elif nm == 'getitem':
            r = T(inp['x'])[KEYS[a['key']]]
        elif nm == 'fold':
            x = T(inp['x'])
            x[:, :, :2] = x[:, :, :2] + x[:, :, 3:5]
            r = x[:, :, :3]
        elif nm == 'strided_setitem':
            r = torch.zeros(1, 1, 4, 6, dtype=torch.float64)
            r[:, :, 1::2, 0::2] = T(inp['q'])
        elif nm == 'gather1d':
            r = T(inp['x'])[:, :, np.array(a['index'], dtype='int32')]
        elif nm == 'gather2d_float_index':
            r = T(inp['x'])[:, :, np.array(a['rows'], dtype=np.float64), np.array(a['cols'], dtype=np.float64)]
        elif nm == 'avg_pool2d':
            r = F.avg_pool2d(T(inp['x']), 2)
        elif nm == 'interpolate':
            r = F.interpolate(T(inp['x']), scale_factor=2, mode='nearest')
        elif nm == 'view_write_a':
            r = T(inp['x'])
            v = r[:, :, 1:5]
            v[:, :, 0] += v[:, :, 3]
        elif nm == 'view_write_b':
            r = T(inp['x'])
            w = r[:, :, 0::2].transpose(2, 3)
            w[:, :, 4, :] = T(inp['q'])
        elif nm == 'view_write_c':
            r = T(inp['x'])
            v = r[:, 1, None, 2:, :-1]
            v *= 3
        elif nm == 'm_unflatten':
            r = T(inp['x']).unflatten(a['dim'], a['sizes'])
        elif nm == 'm_movedim':
            r = T(inp['x']).movedim(a['src'], a['dst']).contiguous()
        elif nm == 'm_permute':
            r = T(inp['x']).permute(*a['perm']).contiguous()
        elif nm == 'm_unsqueeze':
            r = T(inp['x']).unsqueeze(a['dim'])
        elif nm == 'm_squeeze':
            r = T(inp['x']).squeeze() if a['dim'] is None else T(inp['x']).squeeze(a['dim'])
        elif nm == 'm_flip':
            r = torch.flip(T(inp['x']), a['dims'])
        elif nm == 'm_roll':
            r = torch.roll(T(inp['x']), a['shifts'], a['dims'])
        elif nm == 'm_chunk':
            r = torch.chunk(T(inp['x']), a['chunks'], a['dim'])[a['pick']]
        elif nm == 'm_split':
            r = torch.split(T(inp['x']), a['size'], a['dim'])[a['pick']]
        elif nm == 'm_narrow':
            r = T(inp['x']).narrow(a['dim'], a['start'], a['length'])
        elif nm == 'm_flatten':
            r = T(inp['x']).flatten(a['start'], a['end'])
        elif nm == 'm_expand':
            r = T(inp['x']).expand(*a['sizes']).contiguous()
        else:
            bad.append((nm, 'no twin'))
            continue
        n += 1
        exp = np.array(c['expect']['data']).reshape(c['expect']['shape'])
        if list(r.shape) != c['expect']['shape'] or np.abs(r.numpy() - exp).max() > 1e-9:
            bad.append((nm, a, 'shape %s vs %s' % (list(r.shape), c['expect']['shape'])))
    except Exception as e:
        bad.append((nm, a, 'library raised %s: %s' % (type(e).__name__, str(e)[:80])))
for c in js['int_cases']:
    nm, a = c['name'], c['args']
    n += 1
    if nm == 'np.arange':
        r = list(np.arange(a[0], a[1]))
    elif nm == 'np.pad.wrap':
        r = list(np.pad(np.arange(a[0]), tuple(a[1]), mode='wrap'))
    elif nm == 'pywt.dwt_coeff_len':
        r = pywt.dwt_coeff_len(a[0], a[1], mode=a[2])
    if (list(map(int, r)) if isinstance(r, list) else int(r)) != c['expect']:
        bad.append((nm, a, 'got %s expected %s' % (r, c['expect'])))
print(json.dumps({'evaluations': n, 'disagreements': [str(b)[:200] for b in bad[:10]], 'n_bad': len(bad)}))
