"""Run-time contracts for the DTCWT half: real code vs the reference `dtcwt` package (float64)."""
import numpy as np, torch
import rtc
from rtc import _rand, _close, _sz, register


@register('dtcwt_table')
def check_table(cfg, sizes, rnd):
    """a table name accepted by the real loaders: reference counterpart and the identities the code relies on"""
    from pytorch_wavelets.dtcwt import coeffs
    import dtcwt.coeffs as ref
    name, loader = cfg['name'], cfg['loader']
    if loader == 'qshift':
        t = coeffs.qshift(name)
        try:
            r = ref.qshift(name)
        except Exception as e:
            return False, 'qshift(%r) loads here but the reference package has no such table (%s)' % (name, type(e).__name__)
        h0a, h0b, g0a, g0b, h1a, h1b, g1a, g1b = [np.asarray(v).ravel() for v in t[:8]]
        if not all(np.array_equal(np.asarray(a), np.asarray(b)) for a, b in zip(t, r)):
            return False, 'qshift(%r) differs from the reference table' % name
        if h0a.shape != h0b.shape or np.abs(h0b - h0a[::-1]).max() > 1e-12 or np.abs(h1b - h1a[::-1]).max() > 1e-12:
            return False, 'tree b is not the time reverse of tree a'
        return True, 'ok'
    t = coeffs.biort(name)
    try:
        r = ref.biort(name)
    except Exception as e:
        return False, 'biort(%r) loads here but the reference package has no such table' % name
    if not all(np.array_equal(np.asarray(a), np.asarray(b)) for a, b in zip(t, r)):
        return False, 'biort(%r) differs from the reference table' % name
    return True, 'ok'
