"""Run-time contracts for the DTCWT half: real code vs the reference `dtcwt` package (float64)."""
import numpy as np, torch
import rtc
from rtc import _rand, _close, _sz, register


@register('dtcwt_table')
def check_table(cfg, sizes, rnd):
    """a table name accepted by the real loaders: reference counterpart and the identities the code relies on"""
    from pytorch_wavelets.dtcwt import coeffs
    import dtcwt.coeffs as ref
    name, loader = cfg['name'], cfg['loader']
    if loader == 'qshift':
        t = coeffs.qshift(name)
        try:
            r = ref.qshift(name)
        except Exception as e:
            return False, 'qshift(%r) loads here but the reference package has no such table (%s)' % (name, type(e).__name__)
        h0a, h0b, g0a, g0b, h1a, h1b, g1a, g1b = [np.asarray(v).ravel() for v in t[:8]]
        if not all(np.array_equal(np.asarray(a), np.asarray(b)) for a, b in zip(t, r)):
            return False, 'qshift(%r) differs from the reference table' % name
        if h0a.shape != h0b.shape or np.abs(h0b - h0a[::-1]).max() > 1e-12 or np.abs(h1b - h1a[::-1]).max() > 1e-12:
            return False, 'tree b is not the time reverse of tree a'
        return True, 'ok'
    t = coeffs.biort(name)
    try:
        r = ref.biort(name)
    except Exception as e:
        return False, 'biort(%r) loads here but the reference package has no such table' % name
    if not all(np.array_equal(np.asarray(a), np.asarray(b)) for a, b in zip(t, r)):
        return False, 'biort(%r) differs from the reference table' % name
    return True, 'ok'


def _build64(cls, **kw):
    old = torch.get_default_dtype()
    torch.set_default_dtype(torch.float64)
    try:
        return cls(**kw)
    finally:
        torch.set_default_dtype(old)


BIORTS = ['antonini', 'legall', 'near_sym_a', 'near_sym_b']
QSHIFTS = ['qshift_06', 'qshift_a', 'qshift_b', 'qshift_c', 'qshift_d']


@register('dtcwt_grad')
def check_dtcwt_grad(cfg, sizes, rnd):
    """autograd through the real DTCWTForward / DTCWTInverse vs J^T g (J assembled from the real forward)"""
    from pytorch_wavelets import DTCWTForward, DTCWTInverse
    biort, qshift = cfg.get('biort', 'near_sym_a'), cfg.get('qshift', 'qshift_a')
    J = _sz(sizes, 'J', 2, 1, 3)
    H, W = _sz(sizes, 'H', 8, 2, 20), _sz(sizes, 'W', 6, 2, 20)
    o_dim, ri_dim = cfg.get('o_dim', 2), cfg.get('ri_dim', -1)
    skip = cfg.get('skip_hps', False)
    inc = cfg.get('include_scale', False)
    rs = np.random.RandomState(rnd.randint(0, 10**6))
    fwd = _build64(DTCWTForward, biort=biort, qshift=qshift, J=J, o_dim=o_dim, ri_dim=ri_dim, skip_hps=skip, include_scale=inc)

    def flat(o):
        yl, yh = o
        parts = [t for t in (yl if isinstance(yl, (list, tuple)) else [yl])] + list(yh)
        return torch.cat([p.reshape(-1) for p in parts if p.numel() > 0 and p.dim() > 0])
    if cfg.get('which', 'forward') == 'forward':
        x = torch.tensor(rs.randn(1, 1, H, W))
        f = lambda t: flat(fwd(t))
        inputs = [x]
        needs = [True]
    else:
        inv = _build64(DTCWTInverse, biort=biort, qshift=qshift, o_dim=o_dim, ri_dim=ri_dim)
        yl, yh = _build64(DTCWTForward, biort=biort, qshift=qshift, J=J, o_dim=o_dim, ri_dim=ri_dim)(torch.tensor(rs.randn(1, 1, H, W)))
        inputs = [torch.tensor(rs.randn(*yl.shape))] + [torch.tensor(rs.randn(*h.shape)) for h in yh]
        needs = cfg.get('needs') or [True] * len(inputs)
        needs = (list(needs) + [True] * len(inputs))[:len(inputs)]
        f = lambda *ts: inv((ts[0], list(ts[1:]))).reshape(-1)
    y0 = f(*inputs)
    g = torch.tensor(rs.randn(y0.numel()))
    for k, need in enumerate(needs):
        if not need:
            continue
        n = inputs[k].numel()
        if n > 700:
            continue
        Jt = np.zeros(n)
        for m in range(n):
            e = [torch.zeros_like(t) for t in inputs]
            e[k].reshape(-1)[m] = 1.0
            Jt[m] = float((f(*e) * g).sum())
        inp = [t.clone().requires_grad_(bool(nd)) for t, nd in zip(inputs, needs)]
        gr = torch.autograd.grad((f(*inp) * g).sum(), inp[k], allow_unused=True)[0]
        if gr is None:
            return False, 'input %d requires grad but receives None (%s)' % (k, cfg)
        ok, det = _close(gr.reshape(-1).numpy(), Jt, 1e-8)
        if not ok:
            return False, 'DTCWT %s %s/%s J=%d HxW=%dx%d layout=(%d,%d): gradient of input %d is not J^T g (%s)' % (
                cfg.get('which', 'forward'), biort, qshift, J, H, W, o_dim, ri_dim, k, det)
    return True, 'ok %s' % (cfg,)
