"""Run-time contracts for the DTCWT half: real code vs the reference `dtcwt` package (float64)."""
import numpy as np, torch
import rtc
from rtc import _rand, _close, _sz, register


@register('dtcwt_table')
def check_table(cfg, sizes, rnd):
    """a table name accepted by the real loaders: reference counterpart and the identities the code relies on"""
    from pytorch_wavelets.dtcwt import coeffs
    import dtcwt.coeffs as ref
    name, loader = cfg['name'], cfg['loader']
    if loader == 'qshift':
        t = coeffs.qshift(name)
        try:
            r = ref.qshift(name)
        except Exception as e:
            return False, 'qshift(%r) loads here but the reference package has no such table (%s)' % (name, type(e).__name__)
        h0a, h0b, g0a, g0b, h1a, h1b, g1a, g1b = [np.asarray(v).ravel() for v in t[:8]]
        if not all(np.array_equal(np.asarray(a), np.asarray(b)) for a, b in zip(t, r)):
            return False, 'qshift(%r) differs from the reference table' % name
        if h0a.shape != h0b.shape or np.abs(h0b - h0a[::-1]).max() > 1e-12 or np.abs(h1b - h1a[::-1]).max() > 1e-12:
            return False, 'tree b is not the time reverse of tree a'
        return True, 'ok'
    t = coeffs.biort(name)
    try:
        r = ref.biort(name)
    except Exception as e:
        return False, 'biort(%r) loads here but the reference package has no such table' % name
    if not all(np.array_equal(np.asarray(a), np.asarray(b)) for a, b in zip(t, r)):
        return False, 'biort(%r) differs from the reference table' % name
    return True, 'ok'


def _build64(cls, **kw):
    old = torch.get_default_dtype()
    torch.set_default_dtype(torch.float64)
    try:
        return cls(**kw)
    finally:
        torch.set_default_dtype(old)


BIORTS = ['antonini', 'legall', 'near_sym_a', 'near_sym_b']
QSHIFTS = ['qshift_06', 'qshift_a', 'qshift_b', 'qshift_c', 'qshift_d']


@register('dtcwt_grad')
def check_dtcwt_grad(cfg, sizes, rnd):
    """autograd through the real DTCWTForward / DTCWTInverse vs J^T g (J assembled from the real forward)"""
    from pytorch_wavelets import DTCWTForward, DTCWTInverse
    biort, qshift = cfg.get('biort', 'near_sym_a'), cfg.get('qshift', 'qshift_a')
    J = _sz(sizes, 'J', 2, 1, 3)
    H, W = _sz(sizes, 'H', 8, 2, 20), _sz(sizes, 'W', 6, 2, 20)
    o_dim, ri_dim = cfg.get('o_dim', 2), cfg.get('ri_dim', -1)
    skip = cfg.get('skip_hps', False)
    inc = cfg.get('include_scale', False)
    rs = rtc.RState(rnd.randint(0, 10**6))
    fwd = _build64(DTCWTForward, biort=biort, qshift=qshift, J=J, o_dim=o_dim, ri_dim=ri_dim, skip_hps=skip, include_scale=inc)

    def flat(o):
        yl, yh = o
        parts = [t for t in (yl if isinstance(yl, (list, tuple)) else [yl])] + list(yh)
        return torch.cat([p.reshape(-1) for p in parts if p.numel() > 0 and p.dim() > 0])
    if cfg.get('which', 'forward') == 'forward':
        x = torch.tensor(rs.randn(1, 1, H, W))
        f = lambda t: flat(fwd(t))
        inputs = [x]
        needs = [True]
    else:
        inv = _build64(DTCWTInverse, biort=biort, qshift=qshift, o_dim=o_dim, ri_dim=ri_dim)
        yl, yh = _build64(DTCWTForward, biort=biort, qshift=qshift, J=J, o_dim=o_dim, ri_dim=ri_dim)(torch.tensor(rs.randn(1, 1, H, W)))
        inputs = [torch.tensor(rs.randn(*yl.shape))] + [torch.tensor(rs.randn(*h.shape)) for h in yh]
        needs = cfg.get('needs') or [True] * len(inputs)
        needs = (list(needs) + [True] * len(inputs))[:len(inputs)]
        f = lambda *ts: inv((ts[0], list(ts[1:]))).reshape(-1)
        la = cfg.get('low_absent')
        if la:
            # the low-pass is absent (None / torch.tensor([]) / 0-dim): only the band-pass levels are differentiated
            tok = {'none': None, 'empty': torch.tensor([]), '0dim': torch.zeros([], dtype=torch.float64)}[la]
            inputs = inputs[1:]
            needs = [True] * len(inputs)
            f = lambda *ts: inv((tok, list(ts))).reshape(-1)
    y0 = f(*inputs)
    g = torch.tensor(rs.randn(y0.numel()))
    for k, need in enumerate(needs):
        if not need:
            continue
        n = inputs[k].numel()
        if n > 700:
            continue
        Jt = np.zeros(n)
        for m in range(n):
            e = [torch.zeros_like(t) for t in inputs]
            e[k].reshape(-1)[m] = 1.0
            Jt[m] = float((f(*e) * g).sum())
        inp = [t.clone().requires_grad_(bool(nd)) for t, nd in zip(inputs, needs)]
        try:
            gr = torch.autograd.grad((f(*inp) * g).sum(), inp[k], allow_unused=True)[0]
        except RuntimeError as e:
            return False, 'back-propagation raises: %s (%s)' % (str(e)[:120], cfg)
        if gr is None:
            return False, 'input %d requires grad but receives None (%s)' % (k, cfg)
        ok, det = _close(gr.reshape(-1).numpy(), Jt, 1e-8)
        if not ok:
            return False, 'DTCWT %s %s/%s J=%d HxW=%dx%d layout=(%d,%d): gradient of input %d is not J^T g (%s)' % (
                cfg.get('which', 'forward'), biort, qshift, J, H, W, o_dim, ri_dim, k, det)
    return True, 'ok %s' % (cfg,)


if not hasattr(np, 'int'):
    np.int = int          # the reference package predates numpy 1.24


def _ref_inverse(t, low, highs):
    """reference inverse, evaluated as ref(P + D) - ref(D) with a dense random D: the reference package's colifilt returns
    zeros whenever all non-zero samples of its input lie in row 0 (`np.any(np.nonzero(X)[0])` tests the row INDICES), which
    makes it non-additive on sparse pyramids; with a dense dither that shortcut is never taken"""
    import dtcwt
    rs = np.random.RandomState(12345)
    sc = rtc.AMP['scale']
    dl = rs.randn(*low.shape) * sc
    dh = [(rs.randn(*h.shape) + 1j * rs.randn(*h.shape)) * sc for h in highs]
    a = t.inverse(dtcwt.Pyramid(low + dl, tuple(h + d for h, d in zip(highs, dh))))
    b = t.inverse(dtcwt.Pyramid(dl, tuple(dh)))
    return a - b


def _ref_pyramid(x2d, biort, qshift, J, include_scale=False):
    import dtcwt
    import logging
    logging.disable(logging.WARNING)
    t = dtcwt.Transform2d(biort=biort, qshift=qshift)
    return t, t.forward(x2d, nlevels=J, include_scale=include_scale)


@register('dtcwt_forward')
def check_dtcwt_forward(cfg, sizes, rnd):
    """real DTCWTForward vs the reference dtcwt.Transform2d.forward (shapes and values, all 6 orientations)"""
    from pytorch_wavelets import DTCWTForward
    biort, qshift = cfg.get('biort', 'near_sym_a'), cfg.get('qshift', 'qshift_a')
    J = _sz(sizes, 'J', 2, 1, 4)
    H, W = _sz(sizes, 'H', 9, 2, 40), _sz(sizes, 'W', 14, 2, 40)
    o_dim, ri_dim = cfg.get('o_dim', 2), cfg.get('ri_dim', -1)
    skip = cfg.get('skip_hps', False)
    inc = cfg.get('include_scale', False)
    rs = rtc.RState(rnd.randint(0, 10**6))
    x = torch.tensor(rs.randn(2, 2, H, W))
    f = _build64(DTCWTForward, biort=biort, qshift=qshift, J=J, o_dim=o_dim, ri_dim=ri_dim, skip_hps=skip, include_scale=inc)
    yl, yh = f(x)
    skipl = skip if isinstance(skip, (list, tuple)) else [skip] * J
    incl = inc if isinstance(inc, (list, tuple)) else [inc] * J
    for n in range(2):
        for c in range(2):
            t, p = _ref_pyramid(x[n, c].numpy(), biort, qshift, J, include_scale=True)
            if any(incl):
                for j in range(J):
                    if incl[j]:
                        ok, det = _close(yl[j][n, c].numpy(), p.scales[j])
                        if not ok:
                            return False, 'scale %d: %s (%s)' % (j + 1, det, cfg)
                    elif yl[j].dim() != 0:
                        return False, 'scale %d not requested but returned' % (j + 1)
            else:
                ok, det = _close(yl[n, c].numpy(), p.lowpass)
                if not ok:
                    return False, 'lowpass: %s (%s, %dx%d, J=%d)' % (det, cfg, H, W, J)
            for j in range(J):
                if skipl[j]:
                    if yh[j].dim() != 0 and yh[j].numel() != 0:
                        return False, 'level %d skipped but not empty' % (j + 1)
                    continue
                h = yh[j][n, c] if False else None
                # bring the library layout back to (N, C, 6, H, W, 2)
                perm_o, perm_r = o_dim % 6, ri_dim % 6
                t6 = torch.movedim(yh[j], (perm_o, perm_r), (2, 5)) if True else None
                # after moving o then ri, remaining order is N,C,H,W
                t6 = yh[j].permute(*_inv_layout(o_dim, ri_dim))
                got = t6[n, c, ..., 0].numpy() + 1j * t6[n, c, ..., 1].numpy()        # (6, H, W)
                want = np.moveaxis(p.highpasses[j], -1, 0)
                ok, det = _close(np.concatenate([got.real, got.imag]), np.concatenate([want.real, want.imag]))
                if not ok:
                    return False, 'band-pass level %d: %s (%s, %dx%d, J=%d)' % (j + 1, det, cfg, H, W, J)
    return True, 'DTCWTForward %s/%s J=%d %dx%d ok' % (biort, qshift, J, H, W)


def _inv_layout(o_dim, ri_dim):
    o6, r6 = o_dim % 6, ri_dim % 6
    others = [d for d in range(6) if d not in (o6, r6)]
    # default layout axis k comes from library axis src[k]
    return [others[0], others[1], o6, others[2], others[3], r6]


def _to_layout(t6, o_dim, ri_dim):
    inv = _inv_layout(o_dim, ri_dim)
    perm = [inv.index(k) for k in range(6)]
    return t6.permute(*perm)


@register('dtcwt_inverse')
def check_dtcwt_inverse(cfg, sizes, rnd):
    """real DTCWTInverse on an arbitrary pyramid of forward-compatible shapes vs the reference inverse;
    absent inputs (None / torch.tensor([]) / 0-dim) must behave like zeros of the right shape"""
    import dtcwt
    from pytorch_wavelets import DTCWTForward, DTCWTInverse
    biort, qshift = cfg.get('biort', 'near_sym_a'), cfg.get('qshift', 'qshift_a')
    J = _sz(sizes, 'J', 2, 1, 4)
    H, W = _sz(sizes, 'H', 10, 2, 40), _sz(sizes, 'W', 12, 2, 40)
    o_dim, ri_dim = cfg.get('o_dim', 2), cfg.get('ri_dim', -1)
    rs = rtc.RState(rnd.randint(0, 10**6))
    t, p0 = _ref_pyramid(rs.randn(H, W), biort, qshift, J)
    low = rs.randn(*p0.lowpass.shape)
    highs = [rs.randn(*h.shape) + 1j * rs.randn(*h.shape) for h in p0.highpasses]
    absent = cfg.get('absent', {})        # {'low': kind} / {'level': j, 'kind': kind}
    ref_low = np.zeros_like(low) if 'low' in absent else low
    ref_highs = [np.zeros_like(h) if absent.get('level') == j else h for j, h in enumerate(highs)]
    want = _ref_inverse(t, ref_low, ref_highs)

    def tok(kind):
        return {'none': None, 'empty': torch.tensor([]), '0dim': torch.zeros([], dtype=torch.float64)}[kind]
    yl = tok(absent['low']) if 'low' in absent else torch.tensor(low)[None, None]
    yh = []
    for j, h in enumerate(highs):
        if absent.get('level') == j:
            yh.append(tok(absent['kind']))
            continue
        d = np.stack([np.moveaxis(h, -1, 0).real, np.moveaxis(h, -1, 0).imag], axis=-1)[None, None]   # (1,1,6,H,W,2)
        yh.append(_to_layout(torch.tensor(d), o_dim, ri_dim))
    inv = _build64(DTCWTInverse, biort=biort, qshift=qshift, o_dim=o_dim, ri_dim=ri_dim)
    try:
        got = inv((yl, yh))
    except Exception as e:
        return False, 'DTCWTInverse raises %s: %s (%s, %dx%d J=%d)' % (type(e).__name__, str(e)[:120], cfg, H, W, J)
    ok, det = _close(got[0, 0].numpy(), want)
    return ok, 'DTCWTInverse %s/%s J=%d %dx%d layout=(%d,%d) absent=%s: %s' % (biort, qshift, J, H, W, o_dim, ri_dim, absent, det)


@register('dtcwt_pr')
def check_dtcwt_pr(cfg, sizes, rnd):
    from pytorch_wavelets import DTCWTForward, DTCWTInverse
    biort, qshift = cfg.get('biort', 'near_sym_a'), cfg.get('qshift', 'qshift_a')
    J = _sz(sizes, 'J', 2, 1, 4)
    H, W = _sz(sizes, 'H', 10, 2, 48), _sz(sizes, 'W', 12, 2, 48)
    rs = rtc.RState(rnd.randint(0, 10**6))
    x = torch.tensor(rs.randn(1, 2, H, W))
    o_dim, ri_dim = cfg.get('o_dim', 2), cfg.get('ri_dim', -1)
    f = _build64(DTCWTForward, biort=biort, qshift=qshift, J=J, o_dim=o_dim, ri_dim=ri_dim)
    i = _build64(DTCWTInverse, biort=biort, qshift=qshift, o_dim=o_dim, ri_dim=ri_dim)
    try:
        y = i(f(x))
    except Exception as e:
        return False, 'raises %s: %s (%s %dx%d J=%d)' % (type(e).__name__, str(e)[:100], cfg, H, W, J)
    if tuple(y.shape[2:]) != (H + H % 2, W + W % 2):
        return False, 'reconstruction has extent %s for input %dx%d' % (tuple(y.shape[2:]), H, W)
    err = float((y[..., :H, :W] - x).abs().max())
    return err < 1e-8 * rtc.AMP['scale'], 'DTCWT PR %s/%s J=%d %dx%d: err %.3g' % (biort, qshift, J, H, W, err)


@register('ref_pr')
def check_ref_pr(cfg, sizes, rnd):
    """perfect reconstruction of the REFERENCE algorithm itself (to which C03/C11 reduce the library)"""
    import dtcwt
    biort, qshift = cfg.get('biort', 'near_sym_a'), cfg.get('qshift', 'qshift_a')
    J = _sz(sizes, 'J', 2, 1, 5)
    H, W = _sz(sizes, 'H', 10, 2, 64), _sz(sizes, 'W', 12, 2, 64)
    rs = rtc.RState(rnd.randint(0, 10**6))
    x = rs.randn(H, W)
    t, p = _ref_pyramid(x, biort, qshift, J)
    y = _ref_inverse(t, p.lowpass, list(p.highpasses))
    err = float(np.abs(y[:H, :W] - x).max())
    return err < 1e-9 * rtc.AMP['scale'] and y.shape == (H + H % 2, W + W % 2), 'reference PR %s/%s J=%d %dx%d err %.3g' % (biort, qshift, J, H, W, err)


@register('dtcwt_slices')
def check_dtcwt_slices(cfg, sizes, rnd):
    """DTCWTForward / DTCWTInverse (also with the lowpass or a band-pass level omitted) on an (N, C) batch: slice (n, c) of every
    output equals the transform of slice (n, c) alone; superposition; T(0) = 0"""
    from pytorch_wavelets import DTCWTForward, DTCWTInverse
    biort, qshift = cfg.get('biort', 'near_sym_a'), cfg.get('qshift', 'qshift_a')
    J = _sz(sizes, 'J', 2, 1, 4)
    N, C = _sz(sizes, 'B', 2, 1, 3), _sz(sizes, 'C', 2, 1, 4)
    H, W = _sz(sizes, 'H', 16, 2, 40), _sz(sizes, 'W', 24, 2, 40)
    H, W = -(-H // 2 ** J) * 2 ** J, -(-W // 2 ** J) * 2 ** J           # no crop levels: absent levels are well defined
    rs = rtc.RState(rnd.randint(0, 10**6))
    xf = _build64(DTCWTForward, biort=biort, qshift=qshift, J=J)
    inv = _build64(DTCWTInverse, biort=biort, qshift=qshift)
    x, y = torch.tensor(rs.randn(N, C, H, W)), torch.tensor(rs.randn(N, C, H, W))
    sc = rtc.AMP['scale']
    tol = 1e-10 * sc

    def flat(o):
        return [o[0]] + list(o[1])

    def close(a, b):
        return float((a - b).abs().max()) <= tol * (1 + 0)
    full = flat(xf(x))
    for n in range(N):
        for c in range(C):
            one = flat(xf(x[n:n + 1, c:c + 1]))
            for a, b in zip(full, one):
                if not close(a[n:n + 1, c:c + 1], b):
                    return False, 'DTCWTForward J=%d N=%d C=%d: slice (%d,%d) of the batched result differs from the transform of that slice alone' % (J, N, C, n, c)
    a_, b_ = 0.7, -1.3
    for p, q, r in zip(flat(xf(a_ * x + b_ * y)), full, flat(xf(y))):
        if not close(p, a_ * q + b_ * r):
            return False, 'DTCWTForward J=%d: superposition fails' % J
    if any(float(t.abs().max()) != 0 for t in flat(xf(torch.zeros_like(x)))):
        return False, 'DTCWTForward: T(0) != 0'
    yl, yh = xf(x)
    pyr_l = torch.tensor(rs.randn(*yl.shape))
    pyr_h = [torch.tensor(rs.randn(*h.shape)) for h in yh]
    for variant in ('full', 'low-none', 'level-none'):
        def args(sl=None):
            lo = pyr_l if sl is None else pyr_l[sl[0]:sl[0] + 1, sl[1]:sl[1] + 1]
            hs = [h if sl is None else h[sl[0]:sl[0] + 1, sl[1]:sl[1] + 1] for h in pyr_h]
            if variant == 'low-none':
                lo = None
            if variant == 'level-none':
                hs = [None] + hs[1:]
            return (lo, hs)
        if variant == 'low-none' and J < 1:
            continue
        try:
            out = inv(args())
        except Exception as e:
            return False, 'DTCWTInverse[%s] raises %s: %s' % (variant, type(e).__name__, str(e)[:80])
        for n in range(N):
            for c in range(C):
                one = inv(args((n, c)))
                if not close(out[n:n + 1, c:c + 1], one):
                    return False, 'DTCWTInverse[%s] J=%d N=%d C=%d: slice (%d,%d) of the batched result differs from the inverse of that slice alone (err %.3g)' % (
                        variant, J, N, C, n, c, float((out[n:n + 1, c:c + 1] - one).abs().max()))
    return True, 'DTCWT slices ok J=%d N=%d C=%d %dx%d' % (J, N, C, H, W)
