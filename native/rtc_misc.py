"""Run-time contracts for the cross-cutting properties: purity (C15), dtype / precision / strides (C16)."""
import threading
import numpy as np, torch, pywt
import rtc
from rtc import _close, _sz, register


def _mk(kind, dtype=torch.float64, **kw):
    import pytorch_wavelets as pw
    from pytorch_wavelets.dwt.transform1d import DWT1DForward, DWT1DInverse
    from pytorch_wavelets.dwt.transform2d import DWTForward, DWTInverse, SWTForward
    from pytorch_wavelets import DTCWTForward, DTCWTInverse
    from pytorch_wavelets.scatternet import ScatLayer, ScatLayerj2
    cls = {'dwt1d': DWT1DForward, 'idwt1d': DWT1DInverse, 'dwt2d': DWTForward, 'idwt2d': DWTInverse, 'swt': SWTForward,
           'dtcwt': DTCWTForward, 'idtcwt': DTCWTInverse, 'scat': ScatLayer, 'scat2': ScatLayerj2, 'scat0': ScatLayer, 'scat2_0': ScatLayerj2}[kind]
    old = torch.get_default_dtype()
    torch.set_default_dtype(dtype)
    try:
        return cls(**kw)
    finally:
        torch.set_default_dtype(old)


CFGS = {
    'dwt1d': (dict(J=2, wave='db3', mode='symmetric'), (2, 3, 21)),
    'dwt2d': (dict(J=2, wave='db2', mode='periodization'), (2, 2, 16, 20)),
    'swt': (dict(J=2, wave='db2'), (1, 2, 16, 8)),
    'dtcwt': (dict(J=3, biort='near_sym_a', qshift='qshift_a'), (2, 2, 18, 22)),
    'scat': (dict(biort='near_sym_a'), (2, 3, 16, 16)),
    'scat2': (dict(biort='near_sym_a', qshift='qshift_a'), (1, 3, 16, 16)),
    # zero magnitude bias on an image that is exactly zero outside a small blob (exactly-zero coefficients: the 0/0 and masking corner)
    'scat0': (dict(biort='near_sym_a', magbias=0.0), (2, 3, 16, 16)),
    'scat2_0': (dict(biort='near_sym_a', qshift='qshift_a', magbias=0.0), (1, 3, 16, 16)),
}
INV = {'idwt1d': 'dwt1d', 'idwt2d': 'dwt2d', 'idtcwt': 'dtcwt'}


def _flat(o):
    if isinstance(o, torch.Tensor):
        return [o]
    out = []
    for q in o:
        if q is None:
            continue
        out += _flat(q)
    return out


def _call(kind, dtype, seed):
    """build module + input deterministically, return (module, input-object)"""
    rs = np.random.RandomState(seed)
    if kind in INV:
        fk = INV[kind]
        kw, shp = CFGS[fk]
        coeffs = _mk(fk, dtype, **kw)(torch.tensor(rs.randn(*shp), dtype=dtype))
        kw2 = {k: v for k, v in kw.items() if k != 'J'}
        return _mk(kind, dtype, **kw2), (coeffs[0], list(coeffs[1]))
    kw, shp = CFGS[kind]
    x = rs.randn(*shp)
    if kind.endswith('0'):
        m = np.zeros(shp)
        m[..., 3:6, 4:7] = 1
        x = x * m
    return _mk(kind, dtype, **kw), torch.tensor(x, dtype=dtype)


@register('purity')
def check_purity(cfg, sizes, rnd):
    kind = cfg['kind']
    dtype = torch.float64
    mod, inp = _call(kind, dtype, 1)
    before = [t.clone() for t in _flat(inp)]
    blen = len(inp[1]) if isinstance(inp, tuple) else None
    ref = [t.clone() for t in _flat(mod(inp))]
    after = _flat(inp)
    if len(after) != len(before) or any(not torch.equal(a, b) for a, b in zip(after, before)) or \
            (blen is not None and len(inp[1]) != blen):
        return False, '%s: the call modified its argument' % kind
    # history: other instances, shapes, dtypes in between; autograd recording on
    for k2 in ('dwt2d', 'dtcwt', 'scat', 'dwt1d'):
        m2, i2 = _call(k2, torch.float32, 7)
        m2(i2)
    # the SAME instance called with another dtype and another shape in between (may legitimately raise: dtype mismatch)
    def _cast(o, dt):
        if isinstance(o, torch.Tensor):
            return o.to(dt) if o.is_floating_point() else o
        if isinstance(o, tuple):
            return tuple(_cast(q, dt) for q in o)
        if isinstance(o, list):
            return [_cast(q, dt) for q in o]
        return o
    for other in (_cast(inp, torch.float32),):
        try:
            mod(other)
        except Exception:
            pass
    m3, i3 = _call(kind, dtype, 1)
    leaves = [t.requires_grad_(True) if t.is_floating_point() else t for t in _flat(i3)]
    out3 = _flat(m3(i3))
    out1b = _flat(mod(inp))
    for a, b, c in zip(ref, out3, out1b):
        if not torch.equal(a, b.detach()) or not torch.equal(a, c):
            return False, '%s: result depends on call history / other instances / autograd recording' % kind
    # threads
    res = [None] * 4

    def work(i):
        res[i] = [t.clone() for t in _flat(mod(inp))]
    th = [threading.Thread(target=work, args=(i,)) for i in range(4)]
    [t.start() for t in th]
    [t.join() for t in th]
    for r in res:
        if r is None or any(not torch.equal(a, b) for a, b in zip(ref, r)):
            return False, '%s: concurrent calls disagree with the sequential result' % kind
    return True, '%s pure on this schedule' % kind


def _gain(mod, kind, shp):
    """largest absolute row sum of the (linear) operator, estimated on the sign pattern worst case per output is costly;
    use the induced inf-norm bound prod of filter l1 norms instead"""
    return None


@register('precision')
def check_precision(cfg, sizes, rnd):
    """dtype preserved; float32 result within 64*eps32*(gain*max|x| + bias) of the float64 result; .double() module
    == module constructed in float64 up to float32 rounding of the taps; strided input == contiguous copy"""
    kind = cfg['kind']
    pattern = cfg.get('input', 'randn')
    rs = np.random.RandomState(rnd.randint(0, 10**6))
    kw, shp = CFGS[kind if kind not in INV else INV[kind]]
    if pattern == 'randn':
        x = rs.randn(*shp)
    elif pattern == 'range':
        x = rs.randn(*shp) * np.exp(rs.uniform(-8, 8, size=shp))
    elif pattern == 'sparse':
        x = np.zeros(shp)
        x.reshape(-1)[rs.randint(0, x.size, 3)] = 1e4
    else:
        x = np.full(shp, 3.0)
    m64, _ = _call(kind, torch.float64, 1)
    m32, _ = _call(kind, torch.float32, 1)
    if kind in INV:
        fk = INV[kind]
        f64 = _mk(fk, torch.float64, **kw)
        c = f64(torch.tensor(x))
        i64 = (c[0], list(c[1]))
        i32 = (c[0].float(), [h.float() for h in c[1]])
    else:
        i64, i32 = torch.tensor(x), torch.tensor(x, dtype=torch.float32)
    o64, o32 = _flat(m64(i64)), _flat(m32(i32))
    if any(t.dtype != torch.float64 for t in o64 if t.numel() > 1) or any(t.dtype != torch.float32 for t in o32 if t.numel() > 1):
        return False, '%s: output dtype differs from the input dtype' % kind
    eps = 2.0 ** -23
    xmax = max(float(t.abs().max()) for t in _flat(i64))
    # operator gain: inf-norm of the float64 operator is bounded by the largest output of an all-ones-magnitude input;
    # use a measured lower bound max|T(sign pattern)| over a few patterns plus the analytic filter-norm bound
    gain = max(1.0, max(float(t.abs().max()) for t in o64) / max(xmax, 1e-300))
    bias = 1e-2 if kind.startswith('scat') else 0.0
    for a, b in zip(o64, o32):
        if a.numel() <= 1:
            continue
        err = float((a - b.double()).abs().max())
        if err > 64 * eps * (64 * gain * xmax + bias):
            return False, '%s/%s: float32 error %.3g exceeds 64*eps32*(64*gain*max|x|+bias) = %.3g' % (kind, pattern, err, 64 * eps * (64 * gain * xmax + bias))
    # float64 is really computed in float64: a perturbation far below float32 resolution is carried through exactly
    # (linear transforms): T(x + d) - T(x) == T(d) with |d| = 1e-9 |x|; an internal detour through float32 loses d entirely
    if not kind.startswith('scat'):
        def scaled(inp, f):
            if isinstance(inp, tuple):
                return (f(inp[0]), [f(h) for h in inp[1]])
            return f(inp)
        rs2 = np.random.RandomState(7)
        dl = scaled(i64, lambda t: torch.tensor(rs2.randn(*t.shape)) * 1e-9 * max(xmax, 1e-300))
        plus = scaled(i64, lambda t: t)
        if isinstance(i64, tuple):
            plus = (i64[0] + dl[0], [a + b for a, b in zip(i64[1], dl[1])])
        else:
            plus = i64 + dl
        o_plus, o_d = _flat(m64(plus)), _flat(m64(dl))
        for a, b, c in zip(o_plus, o64, o_d):
            if a.numel() <= 1:
                continue
            resid = float(((a - b) - c).abs().max())
            if resid > 1e-3 * float(c.abs().max()) + 1e-300:
                return False, '%s/%s: float64 call is not computed in float64: a 1e-9 relative perturbation is not carried through (residual %.3g vs %.3g)' % (
                    kind, pattern, resid, float(c.abs().max()))
    # a float64 module on float64 data does not consult torch.get_default_dtype() at call time: bit-identical results
    # whether the call happens under a float32 or a float64 default (and symmetrically for the float32 module)
    for mod_, inp_, ref_, other in ((m64, i64, o64, torch.float64), (m32, i32, o32, torch.float64)):
        old_ = torch.get_default_dtype()
        torch.set_default_dtype(other)
        try:
            alt = _flat(mod_(inp_))
        except Exception as e:
            return False, '%s: raises under default dtype %s: %s' % (kind, other, str(e)[:100])
        finally:
            torch.set_default_dtype(old_)
        for a, b in zip(ref_, alt):
            if a.dtype != b.dtype or not torch.equal(a, b):
                return False, '%s: the result of a %s module depends on the global default dtype at call time (max diff %.3g)' % (
                    kind, a.dtype, float((a.double() - b.double()).abs().max()))
    # .double() conversion of a float32-built module
    md = m32.double()
    od = _flat(md(i64))
    for a, b in zip(o64, od):
        if a.numel() <= 1:
            continue
        if b.dtype != torch.float64:
            return False, '%s: .double() module returns %s' % (kind, b.dtype)
        err = float((a - b).abs().max())
        if err > 64 * eps * (64 * gain * xmax + bias):
            return False, '%s: .double() module differs from one built in float64 by %.3g' % (kind, err)
    # strided / transposed input
    if kind not in INV:
        xt = torch.tensor(np.ascontiguousarray(np.swapaxes(x, -1, -2) if x.ndim == 4 else x))
        if x.ndim == 4:
            xs = xt.transpose(-1, -2)         # same values as x, non-contiguous
        else:
            big = torch.zeros(x.shape[:-1] + (2 * x.shape[-1],), dtype=torch.float64)
            big[..., ::2] = torch.tensor(x)
            xs = big[..., ::2]
        if xs.is_contiguous():
            return True, 'no strided variant'
        os_ = _flat(m64(xs))
        for a, b in zip(o64, os_):
            if not torch.allclose(a, b, atol=1e-12 * (1 + xmax), rtol=0):
                return False, '%s: non-contiguous input gives different values' % kind
    return True, '%s/%s ok' % (kind, pattern)


@register('functional_dtype')
def check_functional_dtype(cfg, sizes, rnd):
    """functional one-level banks handed python lists with a float64 image"""
    from pytorch_wavelets.dwt import lowlevel
    w = pywt.Wavelet('db2')
    x = torch.randn(1, 1, 8, 8, dtype=torch.float64)
    try:
        y = lowlevel.afb2d(x, [w.dec_lo, w.dec_hi, w.dec_lo, w.dec_hi], 'zero')
    except Exception as e:
        return False, 'afb2d(float64 image, list filters) raises %s: %s' % (type(e).__name__, str(e)[:80])
    return y.dtype == torch.float64, 'dtype %s' % y.dtype


# ---- history / order independence across configurations (fresh interpreters) ----
ORDER_FAMILIES = {
    'dwt1d': [('dwt1d', dict(J=2, wave='db3', mode=m), (2, 2, 24)) for m in ('symmetric', 'periodic', 'zero', 'reflect', 'periodization')],
    'dwt2d': [('dwt2d', dict(J=2, wave='db2', mode=m), (1, 2, 16, 16)) for m in ('symmetric', 'periodic', 'zero', 'reflect', 'periodization')] +
             [('dwt2d', dict(J=2, wave='bior2.2', mode='symmetric'), (1, 2, 16, 16))],
    'swt': [('swt', dict(J=2, wave='db2', mode=m), (1, 2, 16, 16)) for m in ('periodization', 'symmetric', 'zero', 'reflect')],
    'dtcwt': [('dtcwt', dict(J=2, biort=b, qshift=q, mode=m), (1, 2, 16, 16)) for b, q in (('near_sym_a', 'qshift_a'), ('near_sym_b', 'qshift_b'), ('legall', 'qshift_a'))
              for m in ('symmetric',)] + [('dtcwt', dict(J=2, o_dim=1, ri_dim=2), (1, 2, 16, 16))],
    'scat': [('scat', dict(biort=b, magbias=mb), (1, 3, 16, 16)) for b, mb in (('near_sym_a', 1e-2), ('near_sym_b', 1e-2), ('near_sym_a', 0.1))],
}


def _order_run(family, order):
    """in THIS interpreter: run the family's configurations in the given order; one digest per configuration"""
    import hashlib
    out = {}
    for k in order:
        kind, kw, shp = ORDER_FAMILIES[family][k]
        x = torch.tensor(np.random.RandomState(5).randn(*shp))
        m = _mk(kind, torch.float64, **kw)
        h = hashlib.sha256()
        for t in _flat(m(x)):
            h.update(np.ascontiguousarray(t.detach().numpy()).tobytes())
        out[str(k)] = h.hexdigest()
    return out


@register('history_order')
def check_history_order(cfg, sizes, rnd):
    """every configuration of a family gives bit-identical results whatever was called before it in the process:
       fresh interpreters run the configurations in forward, reversed and a seeded random order"""
    import subprocess, json as _json, os as _os, sys as _sys
    family = cfg['family']
    if family == 'all':
        for f in sorted(ORDER_FAMILIES):
            ok, det = check_history_order(dict(cfg, family=f), sizes, rnd)
            if not ok:
                return ok, det
        return True, 'history_order: all families identical'
    n = len(ORDER_FAMILIES[family])
    orders = [list(range(n)), list(range(n))[::-1]]
    o3 = list(range(n))
    rnd.shuffle(o3)
    orders.append(o3)
    res = []
    for o in orders:
        p = subprocess.run([_sys.executable, _os.path.abspath(__file__), '--order-run', family, _json.dumps(o)], capture_output=True, text=True,
                           env=dict(_os.environ), timeout=600)
        if p.returncode != 0:
            return False, 'history_order %s: run failed: %s' % (family, p.stderr[-200:])
        res.append(_json.loads(p.stdout.strip().splitlines()[-1]))
    for k in range(n):
        if len({r[str(k)] for r in res}) != 1:
            return False, 'history_order %s: configuration %s gives different results depending on which calls preceded it in the process' % (
                family, ORDER_FAMILIES[family][k][1])
    return True, 'history_order %s: %d configurations x %d orders identical' % (family, n, len(orders))


if __name__ == '__main__':
    import sys as _s, json as _j
    if len(_s.argv) > 3 and _s.argv[1] == '--order-run':
        print(_j.dumps(_order_run(_s.argv[2], _j.loads(_s.argv[3]))))
