"""Run-time contracts on the REAL functions (bounded tier + replay of verifier
counterexamples).  Runs under /venv/bin/python; imports the package from $REPO.

Each checker calls the real function with concrete arguments and compares the
result with the concrete twin of the contract's spec (cbv/specs.py, ConcBk), which
native/oracle_*.py validates against PyWavelets / the reference dtcwt.
check_*(cfg, sizes, rnd) -> (ok, detail)"""
import sys, os, json, random
HERE = os.path.dirname(os.path.abspath(__file__))
sys.path.insert(0, os.path.join(HERE, '..'))
REPO = os.environ.get('REPO', '/repo')
sys.path.insert(0, REPO)
import warnings
warnings.filterwarnings('ignore')
import numpy as np
import torch
import pywt
from cbv import specs
bk = specs.ConcBk


# amplitude pattern of the random inputs (cfg['amp']): the linear transforms must be exact at every scale and on
# inputs with exactly-zero regions - value-dependent shortcuts (thresholds, "empty band" tests) show up here
AMP = {'name': 'unit', 'scale': 1.0}
AMPS = {'unit': 1.0, 'tiny': 1e-9, 'huge': 1e7, 'sparse': 1.0}


def _shape_amp(a, rs):
    if AMP['name'] == 'sparse':
        m = rs.uniform(size=a.shape) < 0.8
        a = np.where(m, 0.0, a)
        if a.ndim >= 2 and a.shape[-1] > 1:          # and whole rows / trailing blocks exactly zero
            a[..., a.shape[-1] // 2:] = 0.0
        return a
    return a * AMP['scale']


LINEAR_FNS = ('afb1d', 'sfb1d', 'dwt_forward', 'dwt_inverse', 'dwt_grad', 'slices', 'nonsep', 'dwt_pr', 'dwt_orth', 'swt_forward',
              'dtcwt_forward', 'dtcwt_inverse', 'dtcwt_pr', 'dtcwt_grad', 'dtcwt_slices')


class RState:
    """np.random.RandomState whose randn() follows the amplitude pattern"""
    def __init__(s, seed=None):
        s.rs = np.random.RandomState(seed)

    def randn(s, *shape):
        return _shape_amp(s.rs.randn(*shape), s.rs)

    def __getattr__(s, k):
        return getattr(s.rs, k)


def _rand(rnd, *shape):
    a = np.array([rnd.uniform(-1, 1) for _ in range(int(np.prod(shape)))]).reshape(shape)
    a = _shape_amp(a, np.random.RandomState(rnd.randint(0, 10**6))) if AMP['name'] != 'unit' else a
    return torch.tensor(a)


def _close(a, b, tol=1e-9):
    a = np.asarray(a, dtype=float)
    b = np.asarray(b, dtype=float)
    if a.shape != b.shape:
        return False, 'shape %s vs %s' % (a.shape, b.shape)
    if a.size == 0:
        return True, ''
    err = float(np.abs(a - b).max())
    return err <= tol * (AMP['scale'] + float(np.abs(b).max())), 'max abs err %.3g' % err


EFF = {}          # the sizes the current evaluation REALLY used (after clamping / wavelet lookup): read by the known-finding predicates


def _sz(sizes, k, default, lo=1, hi=40):
    v = int(sizes.get(k, default))
    v = max(lo, min(hi, v))
    EFF[k] = v
    return v


def spec_dwt_axis(x, h0, h1, mode, d):
    """concrete twin of afb1d's contract: x (B,C,H,W) numpy; h0/h1 correlation
    filters (already reversed); returns (B,2C,..)"""
    x = np.asarray(x)
    Bn, C, H, W = x.shape
    L = len(h0)
    N = x.shape[d]
    No = specs.dwt_len(bk, N, L, mode)
    shp = [Bn, 2 * C, H, W]
    shp[d] = No
    out = np.zeros(shp)
    for n in range(Bn):
        for c in range(C):
            for r in range(x.shape[5 - d]):
                line = x[n, c, r, :] if d == 3 else x[n, c, :, r]
                for b, h in ((0, h0), (1, h1)):
                    f = specs.dwt1(bk, lambda j: line[j], N, lambda u: h[L - 1 - u], L, mode)
                    vals = [f(i) for i in range(No)]
                    if d == 3:
                        out[n, 2 * c + b, r, :] = vals
                    else:
                        out[n, 2 * c + b, :, r] = vals
    return out


def spec_idwt_axis(lo, hi, g0, g1, mode, d):
    lo = np.asarray(lo)
    hi = np.asarray(hi)
    Bn, C, H, W = lo.shape
    L = len(g0)
    Nc = lo.shape[d]
    No = specs.idwt_len(bk, Nc, L, mode)
    shp = [Bn, C, H, W]
    shp[d] = No
    out = np.zeros(shp)
    for n in range(Bn):
        for c in range(C):
            for r in range(lo.shape[5 - d]):
                l_ = lo[n, c, r, :] if d == 3 else lo[n, c, :, r]
                h_ = hi[n, c, r, :] if d == 3 else hi[n, c, :, r]
                f = specs.idwt1(bk, lambda k: l_[k], lambda k: h_[k], Nc, lambda v: g0[v], lambda v: g1[v], L, mode)
                vals = [f(i) for i in range(No)]
                if d == 3:
                    out[n, c, r, :] = vals
                else:
                    out[n, c, :, r] = vals
    return out


def _filt(rnd, L, d):
    a = np.array([rnd.uniform(-1, 1) for _ in range(L)])
    shape = [1, 1, 1, 1]
    shape[d] = L
    return a, torch.tensor(a).reshape(shape)


def check_afb1d(cfg, sizes, rnd):
    from pytorch_wavelets.dwt import lowlevel
    mode, dim = cfg['mode'], cfg['dim']
    d = dim % 4
    L = 2 * _sz(sizes, 'L2', 2, 1, 12)
    Bn, C, H, W = _sz(sizes, 'B', 1, 1, 2), _sz(sizes, 'C', 1, 1, 3), _sz(sizes, 'H', 3), _sz(sizes, 'W', 3)
    x = _rand(rnd, Bn, C, H, W)
    a0, h0 = _filt(rnd, L, d)
    a1, h1 = _filt(rnd, L, d)
    N = x.shape[d]
    EFF.clear()
    EFF.update(N=int(N), Lc=L, J=1)          # only the filtered axis matters
    try:
        got = lowlevel.afb1d(x, h0, h1, mode=mode, dim=dim)
    except Exception as e:
        if mode == 'reflect' and L - 1 >= N:
            return True, 'raises as permitted (reflect, signal shorter than filter)'
        return False, 'raises %s: %s' % (type(e).__name__, e)
    m = 'periodization' if mode == 'per' else mode
    want = spec_dwt_axis(x.numpy(), a0, a1, m, d)
    ok, det = _close(got.numpy(), want)
    return ok, 'afb1d mode=%s dim=%d shape=%s L=%d: %s' % (mode, dim, tuple(x.shape), L, det)


def check_sfb1d(cfg, sizes, rnd):
    from pytorch_wavelets.dwt import lowlevel
    mode, dim = cfg['mode'], cfg['dim']
    d = dim % 4
    L = 2 * _sz(sizes, 'L2', 2, 1, 12)
    Bn, C, H, W = _sz(sizes, 'B', 1, 1, 2), _sz(sizes, 'C', 1, 1, 3), _sz(sizes, 'H', 3), _sz(sizes, 'W', 3)
    lo = _rand(rnd, Bn, C, H, W)
    hi = _rand(rnd, Bn, C, H, W)
    a0, g0 = _filt(rnd, L, d)
    a1, g1 = _filt(rnd, L, d)
    m = 'periodization' if mode == 'per' else mode
    Nc = lo.shape[d]
    EFF.clear()
    EFF.update(N=2 * int(Nc), Lc=L, J=1, synth1=True)          # analysis-side length of the filtered axis
    if m != 'periodization' and 2 * Nc - L + 2 < 1:
        return True, 'outside precondition (empty output)'
    try:
        got = lowlevel.sfb1d(lo, hi, g0, g1, mode=mode, dim=dim)
    except Exception as e:
        return False, 'raises %s: %s' % (type(e).__name__, e)
    want = spec_idwt_axis(lo.numpy(), hi.numpy(), a0, a1, m, d)
    ok, det = _close(got.numpy(), want)
    return ok, 'sfb1d mode=%s dim=%d shape=%s L=%d: %s' % (mode, dim, tuple(lo.shape), L, det)


CHECKS = {'afb1d': check_afb1d, 'sfb1d': check_sfb1d}


def register(name):
    def deco(f):
        CHECKS[name] = f
        return f
    return deco


def run_one(fn, cfg, sizes, seed):
    rnd = random.Random(seed)
    amp = cfg.get('amp', 'unit') if isinstance(cfg, dict) else 'unit'
    AMP['name'], AMP['scale'] = amp, AMPS[amp]
    EFF.clear()
    try:
        ok, det = CHECKS[fn](cfg, sizes, rnd)
    except Exception as e:
        import traceback
        return {'ok': None, 'detail': 'checker error: ' + traceback.format_exc()[-800:]}
    return {'ok': bool(ok), 'detail': det, 'eff': dict(EFF)}
