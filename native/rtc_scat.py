"""Run-time contracts for the scattering layers: real layers vs the reference dtcwt + the defining formulas (float64)."""
import numpy as np, torch
import rtc
from rtc import _close, _sz, register
from rtc_dtcwt import _build64, _ref_pyramid
if not hasattr(np, 'int'):
    np.int = int


def _ext_odd(x):
    if x.shape[0] % 2:
        x = np.vstack((x, x[-1:]))
    if x.shape[1] % 2:
        x = np.hstack((x, x[:, -1:]))
    return x


def _ext8(x):
    for ax in (0, 1):
        rem = x.shape[ax] % 8
        if rem:
            after, before = (9 - rem) // 2, (8 - rem) // 2
            idx = list(range(before)) + list(range(x.shape[ax])) + list(range(x.shape[ax] - after, x.shape[ax]))
            x = np.take(x, idx, axis=ax)
    return x


def _pool(a):
    return 0.25 * (a[0::2, 0::2] + a[1::2, 0::2] + a[0::2, 1::2] + a[1::2, 1::2])


def _ref_level1(x, biort):
    import dtcwt
    t, p = _ref_pyramid(x, biort, 'qshift_a', 1)
    return p.lowpass, np.moveaxis(p.highpasses[0], -1, 0)      # (6, h, w) complex


def ref_scat1(x, biort, b, colour):
    """x: (C, H, W) -> (7C, h, w) or colour (9, h, w)"""
    C = x.shape[0]
    lows, mags = [], []
    for c in range(C):
        ll, hp = _ref_level1(_ext_odd(x[c]), biort)
        lows.append(_pool(ll))
        mags.append(hp)
    if colour:
        r = np.sqrt(sum(np.abs(m) ** 2 for m in mags) + b * b) - b
        return np.concatenate([np.stack(lows), r])
    r = [np.sqrt(np.abs(m) ** 2 + b * b) - b for m in mags]      # each (6, h, w)
    out = [np.stack(lows)] + [np.stack([r[c][o] for c in range(C)]) for o in range(6)]
    return np.concatenate(out)


@register('scat_forward')
def check_scat_forward(cfg, sizes, rnd):
    from pytorch_wavelets.scatternet import ScatLayer, ScatLayerj2
    order = cfg.get('order', 1)
    biort = cfg.get('biort', 'near_sym_a')
    colour = cfg.get('colour', False)
    b = cfg.get('magbias', 1e-2)
    C = 3 if colour else _sz(sizes, 'C', 2, 1, 3)
    H, W = _sz(sizes, 'H', 9, 2, 40), _sz(sizes, 'W', 12, 2, 40)
    rs = np.random.RandomState(rnd.randint(0, 10**6))
    x = rs.randn(2, C, H, W)
    if cfg.get('zero_image'):
        x[:] = 0
    if cfg.get('sparse'):                 # a small blob on an exactly-black background
        m = np.zeros_like(x)
        m[..., H // 4:H // 4 + 3, W // 4:W // 4 + 3] = 1
        x = x * m
    if order == 1:
        if biort.endswith('_bp'):
            # no reference pyramid in dtcwt for the rotationally symmetric filters: shape, finiteness and non-negativity only
            layer = _build64(ScatLayer, biort=biort, magbias=b, combine_colour=colour)
            try:
                z = layer(torch.tensor(x))
            except Exception as e:
                return False, 'ScatLayer %s raises %s: %s' % (biort, type(e).__name__, str(e)[:100])
            nlow = 3 if colour else C
            okf = bool(torch.isfinite(z).all()) and float(z[:, nlow:].min()) >= 0 and tuple(z.shape[2:]) == ((H + 1) // 2, (W + 1) // 2)
            return okf, 'band-pass first-order layer: shape / finiteness / non-negativity only'
        layer = _build64(ScatLayer, biort=biort, magbias=b, combine_colour=colour)
        if cfg.get('eval_mode'):
            layer = torch.nn.Sequential(layer).eval()
        try:
            z = layer(torch.tensor(x))
        except Exception as e:
            return False, 'ScatLayer raises %s: %s' % (type(e).__name__, str(e)[:100])
        for n in range(2):
            want = ref_scat1(x[n], biort, b, colour)
            ok, det = _close(z[n].numpy(), want, 1e-8)
            if not ok:
                return False, 'ScatLayer %s colour=%s %dx%d: %s' % (biort, colour, H, W, det)
        if float(z[:, (3 if colour else C):].min()) < 0:
            return False, 'negative magnitude channel'
        return True, 'ScatLayer %s colour=%s %dx%d ok' % (biort, colour, H, W)
    qshift = cfg.get('qshift', 'qshift_b_bp' if biort.endswith('_bp') else 'qshift_a')
    layer = _build64(ScatLayerj2, biort=biort, qshift=qshift, magbias=b, combine_colour=colour)
    if cfg.get('eval_mode'):
        layer = torch.nn.Sequential(layer).eval()
    try:
        z = layer(torch.tensor(x))
    except Exception as e:
        return False, 'ScatLayerj2 raises %s: %s (%dx%d)' % (type(e).__name__, str(e)[:80], H, W)
    He, We = -(-H // 8) * 8, -(-W // 8) * 8
    if tuple(z.shape[2:]) != (He // 4, We // 4) or z.shape[1] != (49 * C if not colour else z.shape[1]):
        return False, 'ScatLayerj2 output shape %s for input %dx%d' % (tuple(z.shape), H, W)
    if colour and biort.endswith('_bp'):
        okf = bool(torch.isfinite(z).all()) and float(z[:, 15:].min()) >= 0 and float(z[:, 9:15].min()) >= 0
        return okf, 'colour j2 band-pass: shape / finiteness / non-negativity only (no reference pyramid)'
    import dtcwt
    if colour:
        for n in range(2):
            xe = [_ext8(x[n, c]) for c in range(3)]
            pyr = [_ref_pyramid(xe[c], biort, qshift, 2)[1] for c in range(3)]
            hp1 = [np.moveaxis(p.highpasses[0], -1, 0) for p in pyr]
            hp2 = [np.moveaxis(p.highpasses[1], -1, 0) for p in pyr]
            s1 = np.sqrt(sum(np.abs(h) ** 2 for h in hp1) + b * b) - b      # (6, H/2, W/2)
            s1b = np.sqrt(sum(np.abs(h) ** 2 for h in hp2) + b * b) - b
            l3, h3 = [], []
            for o in range(6):
                ll3, hp3 = _ref_level1(s1[o], biort)
                l3.append(_pool(ll3))
                h3.append(np.sqrt(np.abs(hp3) ** 2 + b * b) - b)
            want = np.concatenate([np.stack([_pool(p.lowpass) for p in pyr]), np.stack(l3), s1b,
                                   np.stack([h3[o1][o2] for o2 in range(6) for o1 in range(6)])])
            ok, det = _close(z[n].numpy(), want, 1e-8)
            if not ok:
                return False, 'ScatLayerj2 colour %s/%s %dx%d: %s' % (biort, qshift, H, W, det)
        return True, 'ScatLayerj2 colour %s/%s %dx%d ok' % (biort, qshift, H, W)
    for n in range(1):
        xe = np.stack([_ext8(x[n, c]) for c in range(C)])
        S0, S1a, S1b, S2 = [], [], [], []
        for c in range(C):
            t, p = _ref_pyramid(xe[c], biort, qshift, 2)
            hp1 = np.moveaxis(p.highpasses[0], -1, 0)
            hp2 = np.moveaxis(p.highpasses[1], -1, 0)
            S0.append(_pool(p.lowpass))
            s1 = np.sqrt(np.abs(hp1) ** 2 + b * b) - b          # (6, H/2, W/2)
            S1b.append(np.sqrt(np.abs(hp2) ** 2 + b * b) - b)
            l3, h3 = [], []
            for o in range(6):
                ll3, hp3 = _ref_level1(s1[o], biort)
                l3.append(_pool(ll3))
                h3.append(np.sqrt(np.abs(hp3) ** 2 + b * b) - b)   # (6 (o2), h, w)
            S1a.append(l3)
            S2.append(h3)
        want = [np.stack(S0)]
        want += [np.stack([S1a[c][o] for c in range(C)]) for o in range(6)]
        want += [np.stack([S1b[c][o] for c in range(C)]) for o in range(6)]
        want += [np.stack([S2[c][o1][o2] for c in range(C)]) for o2 in range(6) for o1 in range(6)]
        ok, det = _close(z[n].numpy(), np.concatenate(want), 1e-8)
        if not ok:
            return False, 'ScatLayerj2 %s/%s %dx%d: %s' % (biort, qshift, H, W, det)
    if float(z[:, C:].min()) < -1e-12 and False:
        return False, 'negative magnitude'
    return True, 'ScatLayerj2 %s/%s %dx%d ok' % (biort, qshift, H, W)


@register('scat_grad')
def check_scat_grad(cfg, sizes, rnd):
    """back-propagated gradient vs central finite differences (directional), and finiteness at the zero image"""
    from pytorch_wavelets.scatternet import ScatLayer, ScatLayerj2
    from pytorch_wavelets.scatternet.lowlevel import SmoothMagFn
    rs = np.random.RandomState(rnd.randint(0, 10**6))
    if cfg.get('order') == 0:
        needs = cfg.get('needs', [True, True])
        x = torch.tensor(rs.randn(4, 5), requires_grad=needs[0])
        y = torch.tensor(rs.randn(4, 5), requires_grad=needs[1])
        try:
            r = SmoothMagFn.apply(x, y, 0.1)
            g = torch.tensor(rs.randn(4, 5))
            (r * g).sum().backward()
        except Exception as e:
            return False, 'SmoothMagFn needs=%s raises %s: %s' % (needs, type(e).__name__, str(e)[:80])
        rr = np.sqrt(x.detach().numpy() ** 2 + y.detach().numpy() ** 2 + 0.01)
        for t, v, nd in ((x, x.detach().numpy(), needs[0]), (y, y.detach().numpy(), needs[1])):
            if nd:
                ok, det = _close(t.grad.numpy(), g.numpy() * v / rr, 1e-10)
                if not ok:
                    return False, 'SmoothMagFn gradient wrong: ' + det
        return True, 'SmoothMagFn ok'
    order = cfg.get('order', 1)
    colour = cfg.get('colour', False)
    C = 3 if colour else 2
    H, W = (8, 8) if order == 1 else (8, 16)
    kw = dict(biort=cfg.get('biort', 'near_sym_a'), magbias=cfg.get('magbias', 1e-2), combine_colour=colour)
    if order == 2:
        kw['qshift'] = cfg.get('qshift', 'qshift_a')
        if kw['biort'] == 'near_sym_b_bp':
            kw['qshift'] = 'qshift_b_bp'
    layer = _build64(ScatLayer if order == 1 else ScatLayerj2, **kw)
    x0 = np.zeros((1, C, H, W)) if cfg.get('zero_image') else rs.randn(1, C, H, W)
    x = torch.tensor(x0, requires_grad=True)
    z = layer(x)
    g = torch.tensor(rs.randn(*z.shape))
    (z * g).sum().backward()
    if not torch.isfinite(x.grad).all():
        return False, 'non-finite gradient (%s)' % cfg
    if cfg.get('zero_image'):
        return True, 'finite at the zero image'
    eps = 1e-6
    for _ in range(3):
        v = rs.randn(*x0.shape)
        fd = float(((layer(torch.tensor(x0 + eps * v)) - layer(torch.tensor(x0 - eps * v))) * g).sum()) / (2 * eps)
        an = float((x.grad * torch.tensor(v)).sum())
        if abs(fd - an) > 1e-5 * (1 + abs(fd)):
            return False, 'order %d colour=%s %s: directional derivative %.8g vs back-propagated %.8g' % (order, colour, kw['biort'], fd, an)
    return True, 'order %d gradient ok' % order


@register('scat_grad_ref')
def check_scat_grad_ref(cfg, sizes, rnd):
    """first-order layer: back-propagated gradient vs autograd through an independent composition (real DTCWTForward level 1,
    whose own gradient is C06, + torch ops for pooling and the smooth magnitude), over bias / image-scale regimes including
    bias << 1e-6 and images of amplitude 1e-9 (where a guarded or clamped phase would show)"""
    from pytorch_wavelets.scatternet import ScatLayer
    from pytorch_wavelets import DTCWTForward
    import torch.nn.functional as F
    biort = cfg.get('biort', 'near_sym_a')
    colour = cfg.get('colour', False)
    C = 3 if colour else 2
    rs = np.random.RandomState(rnd.randint(0, 10**6))
    for b, scale in cfg.get('regimes', [(1e-2, 1.0), (1e-7, 1e-7), (1e-9, 1e-4), (1e-1, 1e-9), (1e-3, 1e3), (1e-8, 1e-8)]):
        layer = _build64(ScatLayer, biort=biort, magbias=b, combine_colour=colour)
        xf = _build64(DTCWTForward, biort=biort, J=1)
        x0 = rs.randn(2, C, 8, 12) * scale
        x0[:, :, :, 6:] *= 1e-3                       # a much flatter half
        x = torch.tensor(x0, requires_grad=True)
        z = layer(x)
        g = torch.tensor(rs.randn(*z.shape))
        (z * g).sum().backward()
        xr = torch.tensor(x0, requires_grad=True)
        yl, (yh,) = xf(xr)
        ll = F.avg_pool2d(yl, 2)
        if colour:
            mag = torch.sqrt((yh[..., 0] ** 2 + yh[..., 1] ** 2).sum(dim=1) + b * b) - b          # (N,6,h,w)
            zr = torch.cat((ll, mag), dim=1)
        else:
            mag = torch.sqrt(yh[..., 0] ** 2 + yh[..., 1] ** 2 + b * b) - b                        # (N,C,6,h,w)
            zr = torch.cat((ll.unsqueeze(1), mag.transpose(1, 2)), dim=1).reshape(z.shape)
        if float((z - zr).abs().max()) > 1e-9 * (scale + b):
            return False, 'ScatLayer %s colour=%s bias=%g scale=%g: forward differs from the reference composition' % (biort, colour, b, scale)
        (zr * g).sum().backward()
        err = float((x.grad - xr.grad).abs().max())
        ref = float(xr.grad.abs().max())
        if not np.isfinite(err) or err > 1e-7 * ref + 1e-300:
            return False, 'ScatLayer %s colour=%s bias=%g image-scale=%g: back-propagated gradient differs from autograd of the same function (err %.3g, |grad| %.3g)' % (
                biort, colour, b, scale, err, ref)
    return True, 'scat_grad_ref %s colour=%s ok' % (biort, colour)
