import torch, pywt, numpy as np, itertools, collections, warnings
warnings.filterwarnings('ignore')
torch.set_default_dtype(torch.float64)
from pytorch_wavelets import DWT1DForward, DWT1DInverse, DWTForward, DWTInverse
# characterize periodization failure boundary
res=collections.defaultdict(list)
for w in ['db2','db3','db4','db8','bior1.3','sym5','coif2']:
    L=pywt.Wavelet(w).dec_len
    f=DWT1DForward(J=1,wave=w,mode='periodization')
    bad=[]
    for N in range(2,2*L+3):
        x=torch.randn(1,1,N); ref=pywt.dwt(x.numpy(),w,mode='periodization')
        lo,hi=f(x)
        e=max(np.abs(lo.numpy()-ref[0]).max(),np.abs(hi[0].numpy()-ref[1]).max())
        if e>1e-9: bad.append(N)
    print(w,L,'bad N:',bad)
# 2D multi-level incl. odd sizes, all modes, few wavelets
modes=['zero','symmetric','reflect','periodic','periodization']
fails=collections.Counter(); exs={}
for w in ['db1','db2','db3','bior2.4','bior3.5','sym4','coif1','rbio1.3']:
    L=pywt.Wavelet(w).dec_len
    for mode in modes:
        for J in [1,2,3]:
            f=DWTForward(J=J,wave=w,mode=mode)
            for H,W in [(16,16),(17,16),(16,19),(21,23),(30,13),(40,41),(33,64)]:
                x=torch.randn(2,3,H,W)
                try: ref=pywt.wavedec2(x.numpy(),w,mode=mode,level=J)
                except Exception as e: continue
                try: yl,yh=f(x)
                except Exception as e:
                    fails[(mode,'raise')]+=1; exs.setdefault((mode,'raise'),(w,J,H,W,repr(e)[:60])); continue
                ok = yl.shape==ref[0].shape
                e=0
                if ok:
                    e=np.abs(yl.numpy()-ref[0]).max()
                    for j in range(J):
                        for b in range(3):
                            r=ref[J-j][b]
                            if yh[j][:,:,b].shape!=r.shape: ok=False;break
                            e=max(e,np.abs(yh[j][:,:,b].numpy()-r).max())
                if not ok: fails[(mode,'shape')]+=1; exs.setdefault((mode,'shape'),(w,J,H,W))
                elif e>1e-9: 
                    k=(mode,'value', min(H,W)//2**(J-1) < L)
                    fails[k]+=1; exs.setdefault(k,(w,J,H,W,e))
for k,v in sorted(fails.items()): print(k,v,exs[k])
