import z3, time, sys, os, math
import qv
from symx import *; from interp import *
import interp, run_sym
from run_afb1d import explore
EXT=z3.Function('ext_sym', z3.IntSort(), z3.IntSort(), z3.IntSort())
class ContractFn:
    """modular use of reflect's contract: requires minx==-1/2, maxx==l-1/2 ; ensures out[k]==ext_sym(x[k], l), 0<=out<l"""
    def __call__(s,x,minx,maxx):
        mn=qv.toQ(minx); mx=qv.toQ(maxx)
        assert mn.den==2 and mn.num==-1 and mx.den==2
        l=simp((I(mx.num)+1)/2)
        CUR.ctx.require('reflect-pre', (I(mx.num)+1)%2==0)
        return SIdx(x.n, lambda k: EXT(x.elem(k), l))
interp.GLOBALS['reflect']=ContractFn()
def main(L):
    B,C,H,N,M,n,c,r = z3.Ints('B C H N M n c r')
    base=[B>=1,C>=1,H>=1,N>=2,M>=0,M<N,n>=0,n<B,c>=0,c<C,r>=0,r<H]
    dec0=[z3.Real(f'd0_{u}') for u in range(L)]; dec1=[z3.Real(f'd1_{u}') for u in range(L)]
    def mkargs():
        x=STensor((B,C,H,N), lambda idx: GS([(z3.And(idx[0]==n,idx[1]==c,idx[2]==r,idx[3]==M), z3.RealVal(1))]))
        h0=STensor((1,1,1,L), lambda idx: GS([(idx[3]==t, dec0[L-1-t]) for t in range(L)]))
        h1=STensor((1,1,1,L), lambda idx: GS([(idx[3]==t, dec1[L-1-t]) for t in range(L)]))
        return [x,h0,h1],{'mode':'symmetric','dim':3}
    t0=time.time(); res=explore('afb1d',mkargs,base)
    for ctx,(kind,out) in res:
        i,oc=z3.Ints('i oc'); want=(N+L-1)/2
        s=z3.Solver(); s.add(*ctx.pc); s.add(i>=0,i<want,oc>=0,oc<2*C)
        code=out.elem([n,oc,r,i]).z3()
        def spec(b,i):
            taps=dec0 if b==0 else dec1
            return z3.Sum([z3.If(EXT(2*i+1-u,N)==M, taps[u], 0) for u in range(L)])
        sp=z3.If(oc/2==c, z3.If(oc%2==0, spec(0,i), spec(1,i)), 0)
        s.add(code!=sp); rv=s.check()
        print(f'  value:{"proved" if rv==z3.unsat else rv}')
    print(f'L={L} mode=symmetric (reflect by contract) paths={len(res)} time={time.time()-t0:.2f}s')
for L in [int(a) for a in sys.argv[1:]]: main(L)
