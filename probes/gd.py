"""Probe: get_dimensions5/6 — VC from the real AST for ALL integers"""
import z3, time
from symx import *; from interp import *
import interp
from run_afb1d import explore
FNS.update(parse('pytorch_wavelets/dtcwt/transform_funcs.py'))
def spec(o,ri,rank):
    """positions of (o after removing ri), ri, H, W when o,ri are inserted into (N,C,H,W[,.]) layout of total rank 6; rank=5 => after ri removed"""
    o6=o%6; r6=ri%6
    # count of non-(o,ri) axes before position p in the 6-D layout
    def pos_of_kth_free(k):   # k-th (0-based) axis that is neither o6 nor r6
        # candidates p in 0..5
        e=z3.IntVal(-1)
        for p in range(5,-1,-1):
            free_before=z3.Sum([z3.If(z3.And(q!=o6,q!=r6),1,0) for q in range(p)]) if p>0 else z3.IntVal(0)
            e=z3.If(z3.And(p!=o6,p!=r6,free_before==k),p,e)
        return e
    h6=pos_of_kth_free(2); w6=pos_of_kth_free(3)
    o5=z3.If(r6<o6,o6-1,o6)
    if rank==6: return o5,r6,h6,w6
    drop=lambda p: z3.If(r6<p,p-1,p)
    return o5,r6,drop(h6),drop(w6)
for fn,rank in [('get_dimensions5',5),('get_dimensions6',6)]:
    o,ri=z3.Ints('o ri'); base=[o%6!=ri%6]
    t0=time.time(); bad=[]
    for ctx,(kind,out) in explore(fn,lambda: ([o,ri],{}),base):
        s=z3.Solver(); s.add(*ctx.pc); sp=spec(o,ri,rank)
        s.add(z3.Or(*[I(a)!=b for a,b in zip(out,sp)]))
        if s.check()==z3.sat: m=s.model(); bad.append((m[o],m[ri],[m.eval(I(a)) for a in out],[m.eval(b) for b in sp]))
    print(fn,'refuted paths:',len(bad),bad[:3],f'{time.time()-t0:.2f}s')
