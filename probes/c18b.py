import numpy as np, warnings; warnings.filterwarnings('ignore')
from pytorch_wavelets.dtcwt import coeffs as C
for n in ['farras','near_sym_a2','qshift_32']:
    t=C.qshift(n); h0a,h0b,g0a,g0b,h1a,h1b,g1a,g1b=[x.ravel() for x in t]
    print(n,[len(x) for x in (h0a,h0b,g0a,g0b,h1a,h1b,g1a,g1b)])
    f=lambda a,b: np.abs(a-b[::-1]).max() if len(a)==len(b) else 'len'
    print('  b=rev a', f(h0b,h0a), f(h1b,h1a), ' g=rev h', f(g0a,h0a), f(g1a,h1a), f(g0b,h0b), f(g1b,h1b))
    print('  orthonormal', [round(float(np.dot(h0a[2*k:],h0a[:len(h0a)-2*k])),6) for k in range(len(h0a)//2)])
import torch
from pytorch_wavelets import DTCWTForward
try:
    f=DTCWTForward(qshift='farras',J=2); print([tuple(h.shape) for h in f(torch.randn(1,1,16,16))[1]])
except Exception as e: print('ERR',repr(e)[:100])
