import torch, pywt, numpy as np, itertools, collections, warnings
warnings.filterwarnings('ignore')
torch.set_default_dtype(torch.float64)
from pytorch_wavelets import DWT1DForward, DWT1DInverse, DWTForward, DWTInverse
modes=['zero','symmetric','reflect','periodic','periodization']
waves=pywt.wavelist(kind='discrete')
print(len(waves))
Ls=sorted({pywt.Wavelet(w).dec_len for w in waves}); print(Ls)
fails=collections.Counter(); exs={}
for w in waves:
    W=pywt.Wavelet(w); L=W.dec_len
    for mode in modes:
        f=DWT1DForward(J=1,wave=w,mode=mode)
        for N in list(range(2,2*L+4))[:60]:
            x=torch.randn(1,1,N)
            ref=pywt.dwt(x.numpy(),w,mode=mode)
            try:
                lo,hi=f(x)
            except Exception as e:
                fails[(mode,'raise',N<L, N%2)]+=1; exs.setdefault((mode,'raise',N<L,N%2),(w,N,repr(e)[:80])); continue
            if lo.shape!=ref[0].shape:
                fails[(mode,'shape',N<L,N%2)]+=1; exs.setdefault((mode,'shape',N<L,N%2),(w,N,lo.shape,ref[0].shape)); continue
            e=max(np.abs(lo.numpy()-ref[0]).max(),np.abs(hi[0].numpy()-ref[1]).max())
            if e>1e-9:
                fails[(mode,'value',N<L,N%2)]+=1; exs.setdefault((mode,'value',N<L,N%2),(w,N,e))
for k,v in sorted(fails.items()): print(k,v,exs[k])
