import torch, numpy as np, collections, warnings, itertools, logging
warnings.filterwarnings('ignore'); logging.disable(logging.CRITICAL)
torch.set_default_dtype(torch.float64)
from pytorch_wavelets.scatternet import ScatLayer, ScatLayerj2
from pytorch_wavelets.scatternet.lowlevel import SmoothMagFn
from torch.autograd import gradcheck
res=collections.Counter(); ex={}
def fd_check(f,x,eps=1e-6):
    x=x.clone().requires_grad_(True); y=f(x); g=torch.randn_like(y)
    gx,=torch.autograd.grad((y*g).sum(),x)
    # directional FD
    errs=[]
    for _ in range(3):
        d=torch.randn_like(x)
        fdv=(((f(x.detach()+eps*d)-f(x.detach()-eps*d))/(2*eps))*g).sum()
        errs.append(abs((gx*d).sum().item()-fdv.item())/(1+abs(fdv.item())))
    return max(errs), torch.isfinite(gx).all().item()
for biort in ['near_sym_a','near_sym_b','near_sym_b_bp','antonini','legall']:
  for cc in [False,True]:
    for (H,W) in [(8,8),(10,12),(7,9),(16,8)]:
      for b in [1e-2,1.0]:
        x=torch.randn(2,3,H,W)
        try:
            L=ScatLayer(biort=biort,magbias=b,combine_colour=cc)
            e,fin=fd_check(L,x)
            k=('j1',cc,'ok' if e<1e-5 else 'bad'); res[k]+=1; ex.setdefault(k,(biort,H,W,b,e))
            # zero input
            x0=torch.zeros(2,3,H,W,requires_grad=True); y=L(x0); gx,=torch.autograd.grad(y.sum(),x0); 
            k=('j1-zero-finite',bool(torch.isfinite(gx).all())); res[k]+=1
        except Exception as e_: res[('j1-raise',cc)]+=1; ex.setdefault(('j1-raise',cc),(biort,H,W,repr(e_)[:100]))
for biort,q in [('near_sym_a','qshift_a'),('near_sym_b','qshift_b'),('near_sym_b_bp','qshift_b_bp'),('antonini','qshift_c')]:
  for cc in [False,True]:
    for (H,W) in [(8,8),(16,24),(13,9),(20,16)]:
        b=1e-2
        x=torch.randn(2,3,H,W)
        try:
            L=ScatLayerj2(biort=biort,qshift=q,magbias=b,combine_colour=cc)
            e,fin=fd_check(L,x)
            k=('j2',cc,'ok' if e<1e-5 else 'bad'); res[k]+=1; ex.setdefault(k,(biort,H,W,b,e))
            x0=torch.zeros(2,3,H,W,requires_grad=True); y=L(x0); gx,=torch.autograd.grad(y.sum(),x0); 
            k=('j2-zero-finite',bool(torch.isfinite(gx).all())); res[k]+=1
        except Exception as e_: res[('j2-raise',cc)]+=1; ex.setdefault(('j2-raise',cc),(biort,H,W,repr(e_)[:100]))
for k,v in sorted(res.items(),key=str): print(k,v,ex.get(k))
x=torch.randn(5,requires_grad=True); y=torch.randn(5,requires_grad=True)
print('smoothmag gradcheck', gradcheck(lambda a,b: SmoothMagFn.apply(a,b,0.1),(x,y)))
x=torch.randn(5,requires_grad=False); y=torch.randn(5,requires_grad=True)
try:
    r=SmoothMagFn.apply(x,y,0.1); print(torch.autograd.grad(r.sum(),y))
except Exception as e: print('smoothmag y-only ERR',repr(e)[:200])
