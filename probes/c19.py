import torch, numpy as np, collections, warnings, itertools, logging, pywt
warnings.filterwarnings('ignore'); logging.disable(logging.CRITICAL)
torch.set_default_dtype(torch.float64)
from pytorch_wavelets.dwt import lowlevel
res=collections.Counter(); ex={}
for w in ['db1','db2','db3','bior1.3','bior2.4','sym4','db6']:
  W=pywt.Wavelet(w); L=W.dec_len
  for mode in ['zero','symmetric','reflect','periodization']:
    for (H,Wd) in [(2,2),(4,6),(5,8),(7,9),(16,16),(13,20),(32,31)]:
      x=torch.randn(2,3,H,Wd)
      for nf in [2,4]:
        W2=pywt.Wavelet('db2') if nf==4 and L!=4 else W
        if nf==4 and W2.dec_len!=L: 
            filtsA=(W.dec_lo,W.dec_hi,W.dec_lo[::-1],W.dec_hi[::-1]); filtsS=(W.rec_lo,W.rec_hi,W.rec_lo[::-1],W.rec_hi[::-1])
        elif nf==4: filtsA=(W.dec_lo,W.dec_hi,W.dec_lo[::-1],W.dec_hi[::-1]); filtsS=(W.rec_lo,W.rec_hi,W.rec_lo[::-1],W.rec_hi[::-1])
        else: filtsA=(W.dec_lo,W.dec_hi); filtsS=(W.rec_lo,W.rec_hi)
        try: a=lowlevel.afb2d(x,filtsA,mode=mode)
        except Exception as e: res[(mode,'sep-raise')]+=1; continue
        try: b=lowlevel.afb2d_nonsep(x,filtsA,mode=mode)
        except Exception as e: res[(mode,nf,'nonsep-raise')]+=1; ex.setdefault((mode,nf,'nonsep-raise'),(w,H,Wd,repr(e)[:100])); continue
        if a.shape!=b.shape: k=(mode,nf,'A-shape'); res[k]+=1; ex.setdefault(k,(w,H,Wd,a.shape,b.shape))
        else:
            e=(a-b).abs().max().item(); k=(mode,nf,'A','bad' if e>1e-9 else 'ok', min(H,Wd)<L); res[k]+=1; ex.setdefault(k,(w,H,Wd,e))
        # synthesis
        s=a.shape; co=torch.randn(s[0],s[1]//4,4,s[2],s[3])
        try:
            ys=lowlevel.sfb2d(co[:,:,0],co[:,:,1],co[:,:,2],co[:,:,3],filtsS,mode=mode)
            yn=lowlevel.sfb2d_nonsep(co,filtsS,mode=mode)
        except Exception as e: res[(mode,nf,'S-raise')]+=1; ex.setdefault((mode,nf,'S-raise'),(w,H,Wd,repr(e)[:100])); continue
        if ys.shape!=yn.shape: k=(mode,nf,'S-shape'); res[k]+=1; ex.setdefault(k,(w,H,Wd,ys.shape,yn.shape))
        else:
            e=(ys-yn).abs().max().item(); k=(mode,nf,'S','bad' if e>1e-9 else 'ok',min(H,Wd)<L); res[k]+=1; ex.setdefault(k,(w,H,Wd,e))
for k,v in sorted(res.items(),key=str): print(k,v,ex.get(k))
