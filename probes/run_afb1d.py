import z3, time, sys, os
from symx import *; from interp import *
import interp
def explore(fname, mkargs, base):
    """enumerate all paths by re-execution with decision prefixes"""
    stack=[[]]; results=[]
    while stack:
        dec=stack.pop()
        ctx=Ctx(base,dec); interp.CUR.ctx=ctx; it=Interp(ctx)
        args,kw=mkargs()
        try: out=('ret',it.call(fname,args,kw))
        except Raised as r: out=('raise',r.msg)
        results.append((ctx,out))
        # schedule siblings: for each new decision made beyond prefix, flip
        for k in range(len(dec),len(ctx.dec)):
            stack.append(ctx.dec[:k]+[False])
    return results
def spec_afb1d(mode,L,N,h0,h1,M):
    """pywt semantic: out_b[i] = sum_u dec_b[u]*ext(2i+1-u); one-hot x at column M. returns fn(band,i)->z3 real"""
    def ext_hit(k):  # condition that ext(k) index == M
        if mode=='zero': return z3.And(k==M, k>=0, k<N)
        if mode=='periodization':
            raise NotImplementedError
    def f(band,i):
        taps=h0 if band==0 else h1
        return z3.Sum([z3.If(ext_hit(2*i+1-u), taps[u], 0) for u in range(L)])
    return f
def main(L,mode,mutate=None):
    B,C,H,N,M,n,c,r = z3.Ints('B C H N M n c r')
    base=[B>=1,C>=1,H>=1,N>=2,M>=0,M<N,n>=0,n<B,c>=0,c<C,r>=0,r<H]
    if mode=='periodization' and os.environ.get('PRUNE'): base.append(N+N%2>=L)
    dec0=[z3.Real(f'd0_{u}') for u in range(L)]; dec1=[z3.Real(f'd1_{u}') for u in range(L)]
    def mkargs():
        x=STensor((B,C,H,N), lambda idx: GS([(z3.And(idx[0]==n,idx[1]==c,idx[2]==r,idx[3]==M), z3.RealVal(1))]))
        # filters as prepared by prep_filt_afb1d: reversed, shape (1,1,1,L)   [contract of prep_filt assumed in this probe]
        h0=STensor((1,1,1,L), lambda idx: GS([(idx[3]==t, dec0[L-1-t]) for t in range(L)]))
        h1=STensor((1,1,1,L), lambda idx: GS([(idx[3]==t, dec1[L-1-t]) for t in range(L)]))
        return [x,h0,h1],{'mode':mode,'dim':3}
    t0=time.time(); res=explore('afb1d',mkargs,base); nob=0
    for ctx,(kind,out) in res:
        if kind!='ret': print('  path raises',out); continue
        i,oc=z3.Ints('i oc')
        s=z3.Solver(); s.add(*ctx.pc)
        # shape obligation
        if mode=='zero': want=(N+L-1)/2
        else: want=(N+1)/2
        s.push(); s.add(z3.Not(z3.And(I(out.shape[0])==B, I(out.shape[1])==2*C, I(out.shape[2])==H, I(out.shape[3])==want))); rs=s.check(); s.pop()
        s.add(i>=0,i<want,oc>=0,oc<2*C)
        code=out.elem([n,oc,r,i]).z3()
        if mode=='zero':
            spec=spec_afb1d(mode,L,N,dec0,dec1,M)
            sp=z3.If(oc/2==c, z3.If(oc%2==0, spec(0,i), spec(1,i)), 0)
        else:
            # periodization spec (pywt): x even-extended by repeating last; out[i]=sum_u dec[u]*xe[(2i+1-u + ?) mod Ne]  -- pywt per: out[i] = sum_u dec[u]*xper[2i+1-u + L/2 -1]... determine empirically below
            Ne=N+N%2
            def hit(k):  # xe[(k mod Ne)] is x[M]?  xe[j]=x[min(j,N-1)]
                j=k%Ne
                return z3.Or(j==M, z3.And(j==N, M==N-1))
            def spec(b,i):
                taps=dec0 if b==0 else dec1
                return z3.Sum([z3.If(hit(2*i+1-u+ (L//2-1)), taps[u], 0) for u in range(L)])
            sp=z3.If(oc/2==c, z3.If(oc%2==0, spec(0,i), spec(1,i)), 0)
        if mode=='periodization' and not os.environ.get('NOPRE'): s.add(Ne>=L)   # known defect excluded here: short signals
        s.add(code!=sp); rv=s.check(); nob+=2
        print(f'  path pc={[str(p) for p in ctx.pc[len(base):]]} shape:{"ok" if rs==z3.unsat else "FAIL"} value:{"proved" if rv==z3.unsat else rv}', (s.model().eval(N),s.model().eval(i),s.model().eval(M),s.model().eval(oc)) if rv==z3.sat else '', 'safety obl:',len(ctx.obl))
    print(f'L={L} mode={mode} paths={len(res)} time={time.time()-t0:.2f}s')
if __name__=='__main__':
    for L in [int(a) for a in (sys.argv[1:] or ['2','4','8'])]:
        main(L,'zero'); main(L,'periodization')
