import torch, numpy as np, collections, warnings, itertools, logging, pywt
warnings.filterwarnings('ignore'); logging.disable(logging.CRITICAL)
torch.set_default_dtype(torch.float64)
from pytorch_wavelets import DTCWTForward, DTCWTInverse, DWTForward, DWTInverse
from pytorch_wavelets.dwt import lowlevel
res=collections.Counter(); ex={}
x=torch.randn(2,3,20,28)
J=3
base=DTCWTForward(J=J)(x)
for o,ri in itertools.product(range(-6,6),repeat=2):
    if o%6==ri%6: 
        continue
    try:
        f=DTCWTForward(J=J,o_dim=o,ri_dim=ri); yl,yh=f(x)
    except Exception as e: res[('fwd-raise',)]+=1; ex.setdefault(('fwd-raise',),(o,ri,repr(e)[:100])); continue
    ok=True
    for j in range(J):
        # move axes back: default is o_dim=2, ri_dim=5(-1)
        t=yh[j]
        try:
            t2=torch.movedim(t,(o%6,ri%6),(2,5))
            if t2.shape!=base[1][j].shape or (t2-base[1][j]).abs().max()>1e-12: ok=False
        except Exception as e: ok=False
    k=('layout','ok' if ok else 'bad'); res[k]+=1; 
    if not ok: ex.setdefault(k,[]).append((o,ri))
    try:
        y=DTCWTInverse(o_dim=o,ri_dim=ri)((yl,yh)); e=(y-x).abs().max().item()
        k=('inv-layout','ok' if e<1e-9 else 'bad'); res[k]+=1
        if e>=1e-9: ex.setdefault(k,[]).append((o,ri,e))
    except Exception as e: res[('inv-raise',)]+=1; ex.setdefault(('inv-raise',),[]).append((o,ri,repr(e)[:80]))
for k,v in sorted(res.items(),key=str): print(k,v,ex.get(k))
# skip / include_scale / prefix
for skip in itertools.product([False,True],repeat=J):
    yl,yh=DTCWTForward(J=J,skip_hps=list(skip))(x)
    ok=all((yh[j].numel()==0 or yh[j].dim()==0) if skip[j] else torch.equal(yh[j],base[1][j]) for j in range(J)) and torch.allclose(yl,base[0],atol=1e-12)
    print('skip',skip,ok,[tuple(h.shape) for h in yh])
for inc in itertools.product([False,True],repeat=J):
    out=DTCWTForward(J=J,include_scale=list(inc))(x)
    yl=out[0]
    if True in inc:
        ok=True
        for j in range(J):
            lj=DTCWTForward(J=j+1)(x)[0]
            if inc[j]: ok&= (yl[j].shape==lj.shape and torch.allclose(yl[j],lj,atol=1e-12))
            else: ok&= yl[j].numel()<=1
        print('inc',inc,ok)
for j in range(1,J+1):
    yl,yh=DTCWTForward(J=j)(x); print('prefix',j,all(torch.allclose(yh[i],base[1][i],atol=1e-12) for i in range(j)))
