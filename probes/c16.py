import torch, numpy as np, collections, warnings, itertools, logging, pywt
warnings.filterwarnings('ignore'); logging.disable(logging.CRITICAL)
from pytorch_wavelets import *
from pytorch_wavelets.dwt.transform2d import SWTForward
from pytorch_wavelets.dwt import lowlevel
def dt(o):
    if isinstance(o,torch.Tensor): return {o.dtype}
    s=set()
    for t in o:
        if t is not None: s|=dt(t)
    return s
print('default dtype',torch.get_default_dtype())
x64=torch.randn(1,2,16,16,dtype=torch.float64); x32=x64.float()
for name,mk in [('DWT',lambda: DWTForward(J=2,wave='db2',mode='symmetric')),('DWT1D',lambda: DWT1DForward(J=2,wave='db2')),('DTCWT',lambda: DTCWTForward(J=2)),('Scat',lambda: ScatLayer()),('Scatj2',lambda: ScatLayerj2())]:
    for x in [x32,x64]:
        xin = x[:,:,0] if name=='DWT1D' else x
        try:
            m=mk(); m = m.double() if x.dtype==torch.float64 else m
            print(name,x.dtype,dt(m(xin)))
        except Exception as e: print(name,x.dtype,'ERR',repr(e)[:120])
# inverse with None highs in double
m=DWTForward(J=2,wave='db2').double(); mi=DWTInverse(wave='db2').double()
yl,yh=m(x64)
try: print('DWTInverse None double', mi((yl,[None,yh[1]])).dtype)
except Exception as e: print('DWTInverse None double ERR',repr(e)[:150])
m=DWT1DForward(J=2,wave='db2').double(); mi=DWT1DInverse(wave='db2').double()
yl,yh=m(x64[:,:,0])
try: print('DWT1DInverse None double', mi((yl,[None,yh[1]])).dtype)
except Exception as e: print('ERR',repr(e)[:150])
# DTCWT inverse None
m=DTCWTForward(J=2).double(); mi=DTCWTInverse().double(); yl,yh=m(x64)
for desc,args in [('hp0 None',(yl,[None,yh[1]])),('hp1 None',(yl,[yh[0],None])),('low None',(None,yh)),('low empty',(torch.tensor([]),yh)),('hp0 empty',(yl,[torch.tensor([]),yh[1]]))]:
    try:
        y=mi(args)
        z=[torch.zeros_like(t) for t in [yl]+yh]
        full=( z[0] if args[0] is None or args[0].numel()==0 else args[0], [z[1+i] if (h is None or h.numel()==0) else h for i,h in enumerate(args[1])])
        print(desc, y.dtype, (y-mi(full)).abs().max().item())
    except Exception as e: print(desc,'ERR',repr(e)[:150])
# functional API with float64 input and list filters (torch.float hard-coded)
W=pywt.Wavelet('db2')
try: print('afb2d list filts double', lowlevel.afb2d(x64,(W.dec_lo,W.dec_hi)).dtype)
except Exception as e: print('afb2d list filts double ERR',repr(e)[:150])
# non-contiguous
m=DWTForward(J=2,wave='db3',mode='periodization')
xs=torch.randn(1,2,32,16).transpose(2,3); a=m(xs); b=m(xs.contiguous()); print('noncontig',torch.equal(a[0],b[0]))
xs=torch.randn(1,2,16,32)[:,:,:,::2]; a=m(xs); b=m(xs.contiguous()); print('strided',torch.equal(a[0],b[0]))
# mutation check periodization: does afb1d mutate input? 
x=torch.randn(1,1,8,8); xc=x.clone(); m(x); print('input unchanged',torch.equal(x,xc))
mi=DWTInverse(wave='db3',mode='periodization'); yl,yh=m(x); c=[yl.clone()]+[h.clone() for h in yh]; mi((yl,yh)); print('coeffs unchanged',torch.equal(yl,c[0]),all(torch.equal(a,b) for a,b in zip(yh,c[1:])))
