import torch, numpy as np, collections, warnings, itertools, logging
warnings.filterwarnings('ignore'); logging.disable(logging.CRITICAL)
torch.set_default_dtype(torch.float64)
import torch.nn.functional as F
from pytorch_wavelets.scatternet import ScatLayer, ScatLayerj2
import dtcwt
res=collections.Counter(); ex={}
def ref_j1(x,biort,b,cc):
    N,C,H,W=x.shape
    if H%2: x=np.concatenate([x,x[:,:,-1:]],2)
    if W%2: x=np.concatenate([x,x[:,:,:,-1:]],3)
    t=dtcwt.Transform2d(biort=biort)
    out=np.zeros((N, (3+6) if cc else 7*C, x.shape[2]//2, x.shape[3]//2))
    lows=[];mags=[]
    for n in range(N):
        for c in range(C):
            p=t.forward(x[n,c],nlevels=1)
            lows.append(F.avg_pool2d(torch.tensor(p.lowpass)[None,None],2)[0,0].numpy()); mags.append(p.highpasses[0])
    lows=np.array(lows).reshape(N,C,*lows[0].shape); hp=np.array(mags).reshape(N,C,*mags[0].shape) # N,C,h,w,6
    if cc:
        m=np.sqrt((np.abs(hp)**2).sum(1)+b*b)-b  # N,h,w,6
        return np.concatenate([lows, m.transpose(0,3,1,2)],1)
    m=np.sqrt(np.abs(hp)**2+b*b)-b   # N,C,h,w,6
    m=m.transpose(0,4,1,2,3)  # N,6,C,h,w
    return np.concatenate([lows[:,None],m],1).reshape(N,7*C,*lows.shape[2:])
for biort in ['near_sym_a','near_sym_b','antonini','legall']:
  for cc in [False,True]:
    for (H,W) in [(8,8),(10,12),(7,9),(2,2),(3,2)]:
      for b in [0.0,1e-2,1.0]:
        x=torch.randn(2,3,H,W)*10
        z=ScatLayer(biort=biort,magbias=b,combine_colour=cc)(x)
        r=ref_j1(x.numpy(),biort,b,cc)
        if z.shape!=r.shape: k=('j1','shape'); res[k]+=1; ex.setdefault(k,(biort,cc,H,W,z.shape,r.shape)); continue
        e=np.abs(z.numpy()-r).max(); k=('j1','ok' if e<1e-9 else 'bad'); res[k]+=1; ex.setdefault(k,(biort,cc,H,W,b,e))
        if cc: nonneg=(z[:,3:]>=0).all().item()
        else: nonneg=(z.view(2,7,3,*z.shape[2:])[:,1:]>=0).all().item()
        res[('nonneg',nonneg)]+=1
for k,v in sorted(res.items(),key=str): print(k,v,ex.get(k))
for sz in [8,9,10,11,12,13,14,15,16,17,3,2]:
    try: print(sz, ScatLayerj2()(torch.randn(1,2,sz,sz)).shape)
    except Exception as e: print(sz,'ERR',repr(e)[:100])
