import numpy as np, dtcwt.coeffs as ref, itertools
from pytorch_wavelets.dtcwt import coeffs as C
import os
names=[f[:-4] for f in sorted(os.listdir('/repo/pytorch_wavelets/dtcwt/data')) if f.endswith('.npz')]
refnames=[f[:-4] for f in sorted(os.listdir(os.path.dirname(ref.__file__)+'/data')) if f.endswith('.npz')]
print(names); print(refnames)
for n in names:
    a=dict(np.load('/repo/pytorch_wavelets/dtcwt/data/%s.npz'%n))
    try: b=dict(np.load(os.path.dirname(ref.__file__)+'/data/%s.npz'%n))
    except Exception as e: print(n,'no ref'); b=None
    if b is not None:
        print(n, sorted(a.keys())==sorted(b.keys()), all(a[k].shape==b[k].shape and np.array_equal(a[k],b[k]) for k in a if k in b), {k:a[k].shape for k in a})
    else: print(n,{k:a[k].shape for k in a})
def sym(h): h=h.ravel(); return np.abs(h-h[::-1]).max()
for n in ['antonini','legall','near_sym_a','near_sym_b','near_sym_b_bp']:
    t=C.biort(n); print(n,[sym(x) for x in t])
    h0o,g0o,h1o,g1o=[x.ravel() for x in t[:4]]
    # PR: h0*g0 + h1*g1 = 2 delta (or delta)
    p=np.convolve(h0o,g0o); q=np.convolve(h1o,g1o)
    m=max(len(p),len(q)); 
    def centre(v,m): 
        d=(m-len(v))//2; return np.pad(v,(d,m-len(v)-d))
    s=centre(p,m)+centre(q,m); print('   PR sum',np.round(s,12)[np.abs(s)>1e-12], 'alias', None)
    # alias cancellation: h0(-z)g0(z)+h1(-z)g1(z)=0
    alt=lambda v: v*(-1.0)**np.arange(len(v))
for n in ['qshift_06','qshift_a','qshift_b','qshift_c','qshift_d','qshift_b_bp']:
    t=C.qshift(n); h0a,h0b,g0a,g0b,h1a,h1b,g1a,g1b=[x.ravel() for x in t[:8]]
    print(n,len(h0a),'b=rev(a):',np.abs(h0b-h0a[::-1]).max(),np.abs(h1b-h1a[::-1]).max(),'g=rev(h):',np.abs(g0a-h0a[::-1]).max(),np.abs(g1a-h1a[::-1]).max(),np.abs(g0b-h0b[::-1]).max(),
      'orthonormal:',np.abs(np.array([np.dot(h0a[2*k:],h0a[:len(h0a)-2*k]) for k in range(len(h0a)//2)])-np.eye(1,len(h0a)//2)[0]).max(), np.abs(np.array([np.dot(h0a[2*k:],h1a[:len(h0a)-2*k]) for k in range(len(h0a)//2)])).max())
    if len(t)>8:
        h2a,h2b,g2a,g2b=[x.ravel() for x in t[8:]]; print('   bp', np.abs(h2b-h2a[::-1]).max(), np.abs(g2a-h2a[::-1]).max(), np.abs(g2b-h2b[::-1]).max())
