import torch, numpy as np, collections, warnings, itertools, logging, pywt
warnings.filterwarnings('ignore'); logging.disable(logging.CRITICAL)
torch.set_default_dtype(torch.float64)
from pytorch_wavelets import DWTForward, DWTInverse
from pytorch_wavelets.dwt import lowlevel
from pytorch_wavelets.dwt.transform2d import SWTForward
x=torch.randn(1,2,16,16)
for mode in ['periodization','periodic']:
  for J in [1,2]:
    try:
        out=SWTForward(J=J,wave='db2',mode=mode)(x)
        print(mode,J,[tuple(o.shape) for o in out])
        ref=pywt.swt2(x.numpy(),'db2',level=J,axes=(-2,-1),trim_approx=False)
        # ref list coarsest first: [(cA_J,(cH,cV,cD)),...]
        for j in range(J):
            cA,(cH,cV,cD)=ref[J-1-j]
            y=out[j].reshape(1,2,4,16,16)
            print('  lvl',j,[float(np.abs(y[:,:,b].numpy()-r).max()) for b,r in enumerate([cA,cH,cV,cD])])
    except Exception as e: print(mode,J,'ERR',repr(e)[:150])
# C14
print('C14')
wc,wr=pywt.Wavelet('db2'),pywt.Wavelet('bior1.3')
x=torch.randn(1,1,16,20)
for mode in ['zero','symmetric','periodization']:
    f=DWTForward(J=1,wave=(wc.dec_lo,wc.dec_hi,wr.dec_lo,wr.dec_hi),mode=mode)
    yl,yh=f(x)
    cA,(cH,cV,cD)=pywt.dwt2(x.numpy(),(wc,wr),mode=mode)   # wavelet per axis: axis -2 gets wc (col), axis -1 gets wr (row)
    cA2,_=pywt.dwt2(x.numpy(),(wr,wc),mode=mode)
    print(mode,'col->vertical?',yl.shape==cA.shape and np.abs(yl.numpy()-cA).max()<1e-9,'swapped?',yl.shape==cA2.shape and np.abs(yl.numpy()-cA2).max()<1e-9)
    y2=lowlevel.afb2d(x,(wc.dec_lo,wc.dec_hi,wr.dec_lo,wr.dec_hi),mode=mode)
    print('   functional afb2d matches pywt(col,row):',y2[:,0].shape==cA[0].shape and float(np.abs(y2[:,0].numpy()-cA[:,0]).max()))
    fi=DWTInverse(wave=(wc.rec_lo,wc.rec_hi,wr.rec_lo,wr.rec_hi),mode=mode)
    c=torch.randn(1,1,*cA.shape[2:]); h=torch.randn(1,1,3,*cA.shape[2:])
    y=fi((c,[h]))
    r=pywt.idwt2((c.numpy(),(h[:,:,0].numpy(),h[:,:,1].numpy(),h[:,:,2].numpy())),(wc,wr),mode=mode)
    r2=pywt.idwt2((c.numpy(),(h[:,:,0].numpy(),h[:,:,1].numpy(),h[:,:,2].numpy())),(wr,wc),mode=mode)
    print('   inverse: ok?',y.shape==r.shape and np.abs(y.numpy()-r).max()<1e-9,'swapped?',y.shape==r2.shape and np.abs(y.numpy()-r2).max()<1e-9)
