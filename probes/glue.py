"""Probe: glue (tensor-sort / slice-term) mode. Real AFB2D.forward and one iteration of DWTForward.forward are executed with
afb1d replaced by its CONTRACT over uninterpreted slice terms; proves band order and which filter acts on which axis (C14), for all L and sizes."""
import z3, time, sys
import qv
from symx import *; from interp import *
import interp, symx
from run_afb1d import explore
import dt   # brings view/stack/repeat
FNS.update(parse('pytorch_wavelets/dwt/lowlevel.py')); FNS.update(parse('pytorch_wavelets/dwt/transform2d.py'))
Slice=z3.DeclareSort('Slice'); Filt=z3.DeclareSort('Filt'); 
pix=z3.Function('pix',Slice,z3.IntSort(),z3.IntSort(),z3.RealSort())
hgt=z3.Function('hgt',Slice,z3.IntSort()); wid=z3.Function('wid',Slice,z3.IntSort())
# spec: one 1-D analysis band along an axis (2 = vertical, 3 = horizontal) with a named (already time-reversed) filter, and a mode code
DWT1=z3.Function('DWT1',z3.IntSort(),Slice,Filt,z3.IntSort(),z3.IntSort(),Slice)   # band, slice, filter, mode, axis
OUTLEN=z3.Function('outlen',z3.IntSort(),Filt,z3.IntSort(),z3.IntSort())            # N, filter, mode
MODES={'zero':0,'symmetric':1,'periodization':2,'reflect':4,'periodic':6}
class FTensor(STensor):
    """filter tensor carrying a ghost name; reshape/transpose keep the name"""
def mkfilt(name,shape):
    t=STensor(shape, lambda idx: GS([(z3.BoolVal(True), z3.Real('tap_'+name))])); t.fname=z3.Const(name,Filt); return t
def slice_of(ctx, x):
    """extract F(n,c): Slice with forall i,j: x[n,c,i,j] == pix(F(n,c),i,j); fails if spatial indices are not passed through"""
    n,c,i0,j0=z3.Ints('n! c! i0! j0!')
    terms=x.elem([n,c,i0,j0]).t
    s=z3.Solver(); s.add(*ctx.pc)
    out=None
    for g,coef in reversed(terms):
        assert coef.decl().name()=='pix', coef
        sig,a,b=coef.children()
        s.push(); s.add(g, z3.Or(a!=i0,b!=j0)); ok=s.check()==z3.unsat; s.pop()
        assert ok, 'spatial index not identity'
        for v in (i0,j0):   # guard / slice term must not depend on spatial position
            assert not any(z3.eq(v,q) for q in vars_of(g)+vars_of(sig)), 'guard depends on spatial index'
        out=sig if out is None else z3.If(g,sig,out)
    return lambda nn,cc: z3.substitute(out,(n,I(nn)),(c,I(cc)))
def vars_of(e):
    r=[]; 
    def go(t):
        if z3.is_const(t) and t.decl().kind()==z3.Z3_OP_UNINTERPRETED: r.append(t)
        for ch in t.children(): go(ch)
    go(e); return r
def afb1d_contract(x,h0,h1,mode='zero',dim=-1):
    ctx=CUR.ctx; d=dim%4; F=slice_of(ctx,x); B,C,H,W=x.shape; m=MODES[mode]
    f0,f1=h0.fname,h1.fname
    newH = OUTLEN(I(H),f0,m) if d==2 else H; newW = OUTLEN(I(W),f0,m) if d==3 else W
    def elem(idx):
        n,oc,i,j=idx
        return GS([(z3.BoolVal(True), pix(DWT1(I(oc)%2, F(n,I(oc)/2), z3.If(I(oc)%2==0,f0,f1), m, d), i, j))])
    return STensor((B,simp(2*I(C)),newH,newW),elem)
interp.GLOBALS['afb1d']=afb1d_contract
def tr(ctx,x,a,b):
    perm=list(range(x.ndim)); perm[a],perm[b]=perm[b],perm[a]
    t=STensor([x.shape[p] for p in perm],None,x.dtype,base=x.base,imap=lambda idx: x.imap([idx[perm.index(k)] for k in range(x.ndim)]))
    if hasattr(x,'fname'): t.fname=x.fname
    return t
interp.TENSOR_METHODS['transpose']=tr
old_reshape=interp.TENSOR_METHODS['reshape']
def reshape2(ctx,x,*shape):
    if len(shape)==1 and isinstance(shape[0],(tuple,list)): shape=tuple(shape[0])
    if -1 in shape:
        k=shape.index(-1)
        # infer: product(old)/product(rest)  -- only the pattern (B,-1,4,H,W) from (B,4C,H,W) is needed here
        assert len(shape)==5 and k==1 and isinstance(shape[2],int)
        shape=list(shape); shape[1]=simp(I(x.shape[1])/shape[2]); ctx.require('reshape-divisible', I(x.shape[1])%shape[2]==0)
        return dt.view(ctx,x,*shape)
    return old_reshape(ctx,x,*shape)
interp.TENSOR_METHODS['reshape']=reshape2
interp.GLOBALS['mode_to_int']=RepoFn('mode_to_int'); interp.GLOBALS['int_to_mode']=RepoFn('int_to_mode')
def check_afb2d(order):
    B,C,H,W,n,c,i,j,k=z3.Ints('B C H W n c i j k'); X=z3.Function('X',z3.IntSort(),z3.IntSort(),Slice)
    base=[B>=1,C>=1,H>=2,W>=2,n>=0,n<B,c>=0,c<C,k>=0,k<3]
    for mode in ['zero','periodization']:
        def mk():
            x=STensor((B,C,H,W), lambda idx: GS([(z3.BoolVal(True), pix(X(idx[0],idx[1]),idx[2],idx[3]))]))
            f={nm:mkfilt(nm,(1,1,1,1)) for nm in ['h0_row','h1_row','h0_col','h1_col']}
            return [SObj(), x]+[f[nm] for nm in order]+[MODES[mode]],{}
        for ctx,(kind,out) in explore('AFB2D.forward',mk,base):
            low,highs=out; m=MODES[mode]
            fr0,fr1,fc0,fc1=[z3.Const(nm,Filt) for nm in ['h0_row','h1_row','h0_col','h1_col']]
            row=lambda b,s: DWT1(b,s,fr1 if b else fr0,m,3); col=lambda b,s: DWT1(b,s,fc1 if b else fc0,m,2)
            x0=X(n,c)
            spec_low=pix(col(0,row(0,x0)),i,j)
            # pywt order: cH = detail along axis -2 (vertical/col), approx along axis -1 (row) ; cV = approx col, detail row ; cD both
            spec_hi=z3.If(k==0,pix(col(1,row(0,x0)),i,j), z3.If(k==1,pix(col(0,row(1,x0)),i,j), pix(col(1,row(1,x0)),i,j)))
            s=z3.Solver(); s.add(*ctx.pc)
            s.push(); s.add(low.elem([n,c,i,j]).z3()!=spec_low); r1=s.check(); s.pop()
            s.push(); s.add(highs.elem([n,c,k,i,j]).z3()!=spec_hi); r2=s.check(); s.pop()
            shp=[str(z3.simplify(I(d))) for d in highs.shape]
            print(f'  AFB2D.forward[{mode}] args={order}: low', 'proved' if r1==z3.unsat else r1, '| highs', 'proved' if r2==z3.unsat else r2, '| highs shape',shp)
t0=time.time()
print('AFB2D.forward called as its signature says (x,h0_row,h1_row,h0_col,h1_col):'); check_afb2d(['h0_row','h1_row','h0_col','h1_col'])
print('AFB2D.forward called as DWTForward.forward calls it (x,h0_col,h1_col,h0_row,h1_row):'); check_afb2d(['h0_col','h1_col','h0_row','h1_row'])
print(f'{time.time()-t0:.2f}s')
