"""Feasibility prototype: AST symbolic executor over the REAL pytorch_wavelets source.
Values: python concretes, z3 Int exprs, STensor (shape + elem closure), SIdx (index arrays)."""
import ast, z3, inspect, itertools, sys, time, fractions
import os
REPO=os.environ.get('REPO','/repo')
def parse(path):
    src=open(f'{REPO}/{path}').read(); mod=ast.parse(src); fns={}
    for n in mod.body:
        if isinstance(n,ast.FunctionDef): fns[n.name]=n
        if isinstance(n,ast.ClassDef):
            for m in n.body:
                if isinstance(m,ast.FunctionDef): fns[n.name+'.'+m.name]=m
    return fns
FNS={}
FNS.update(parse('pytorch_wavelets/dwt/lowlevel.py')); FNS.update(parse('pytorch_wavelets/utils.py'))

def isz(v): return isinstance(v,z3.ExprRef)
def I(v): return z3.IntVal(v) if isinstance(v,int) else v
class PathSplit(Exception): pass
class Raised(Exception):
    def __init__(s,kind,msg=''): s.kind=kind; s.msg=msg
class Ctx:
    """path condition + decision oracle (re-execution style forking)"""
    def __init__(s, base, decisions): s.pc=list(base); s.dec=list(decisions); s.pos=0; s.solver=z3.Solver(); s.solver.add(*base); s.obl=[]
    def decide(s, cond):
        cond=z3.simplify(cond)
        if z3.is_true(cond): return True
        if z3.is_false(cond): return False
        # entailed?
        s.solver.push(); s.solver.add(z3.Not(cond)); r1=s.solver.check(); s.solver.pop()
        if r1==z3.unsat: return True
        s.solver.push(); s.solver.add(cond); r2=s.solver.check(); s.solver.pop()
        if r2==z3.unsat: return False
        if s.pos<len(s.dec): d=s.dec[s.pos]
        else: d=True; s.dec.append(True)
        s.pos+=1
        c = cond if d else z3.Not(cond)
        s.pc.append(c); s.solver.add(c); return d
    def require(s, name, cond):   # safety obligation
        s.obl.append((name, list(s.pc), cond))
# ---- guarded-sum values -----------------------------------------------------
class GS:   # sum of If(g, c, 0)
    def __init__(s, terms): s.t=terms
    def __add__(a,b): 
        if not isinstance(b,GS): b=GS([(z3.BoolVal(True),b)])
        return GS(a.t+b.t)
    __radd__=__add__
    def __mul__(a,b):
        if isinstance(b,GS): return GS([(z3.And(g1,g2), c1*c2) for g1,c1 in a.t for g2,c2 in b.t])
        return GS([(g,c*b) for g,c in a.t])
    __rmul__=__mul__
    def __neg__(a): return a*(-1)
    def __sub__(a,b): return a+(-b)
    def guard(a,cond): return GS([(z3.And(g,cond),c) for g,c in a.t])
    def z3(a): return z3.Sum([z3.If(g,c,z3.RealVal(0)) for g,c in a.t]) if a.t else z3.RealVal(0)
ZERO=GS([])
class Storage:
    def __init__(s, elem): s.elem=elem
class STensor:
    def __init__(s, shape, elem, dtype='f', name=None, base=None, imap=None):
        s.shape=tuple(shape); s.dtype=dtype; s.name=name
        if base is None: s.base=Storage(elem); s.imap=lambda idx: idx
        else: s.base=base; s.imap=imap
    @property
    def elem(s):
        return lambda idx: s.base.elem(s.imap(idx))     # dynamic: sees later in-place writes (view semantics)
    def snap(s):
        e=s.base.elem; m=s.imap
        return lambda idx: e(m(idx))                     # value at this program point
    @property
    def ndim(s): return len(s.shape)
    def numel(s):
        n=1
        for d in s.shape: n=n*d
        return n
class SIdx:   # numpy integer array 1-D: length, elem(k)->int expr ; may be float-valued (real) for reflect internals
    def __init__(s, n, elem, real=False): s.n=n; s.elem=elem; s.real=real
    @property
    def shape(s): return (s.n,)
class Opaque:
    def __init__(s,n): s.n=n
    def __repr__(s): return f'<{s.n}>'
# ---- python slice semantics on symbolic length ---------------------------------
def norm_slice(ctx, sl, n):
    """returns (start, step, length) for slice over dimension length n (step concrete)"""
    step = 1 if sl.step is None else sl.step
    assert isinstance(step,int)
    if step>0:
        def clamp(v, default):
            if v is None: return default
            if isinstance(v,int) and isinstance(n,int):
                if v<0: v=max(v+n,0)
                return min(v,n)
            v=I(v)
            neg=ctx.decide(v<0)
            if neg:
                v=v+n
                if ctx.decide(v<0): return 0
                return v
            if ctx.decide(v>n): return n
            return v
        a=clamp(sl.start,0); b=clamp(sl.stop,n)
        if isinstance(a,int) and isinstance(b,int): ln=max(0,(b-a+step-1)//step)
        else:
            if ctx.decide(I(b)<=I(a)): ln=0
            else: ln=(I(b)-I(a)+step-1)/step if step!=1 else I(b)-I(a)
        return a,step,ln
    else:
        # only [::-1] style on concrete
        raise NotImplementedError('neg step symbolic')
def simp(v): return z3.simplify(v) if isz(v) else v
def tget(ctx, x, key):
    if not isinstance(key,tuple): key=(key,)
    # expand Ellipsis
    if any(k is Ellipsis for k in key):
        i=[k is Ellipsis for k in key].index(True); nn=sum(1 for k in key if k is not None and k is not Ellipsis)
        key=key[:i]+(slice(None),)*(x.ndim-nn)+key[i+1:]
    key=key+(slice(None),)*(x.ndim-sum(1 for k in key if k is not None))
    plan=[]; shape=[]; d=0
    for k in key:
        if k is None: plan.append(('new',)); shape.append(1); continue
        n=x.shape[d]
        if isinstance(k,slice):
            a,st,ln=norm_slice(ctx,k,n); plan.append(('sl',a,st)); shape.append(simp(ln))
        elif isinstance(k,SIdx):
            plan.append(('ix',k)); shape.append(k.n)
        elif isinstance(k,int) or isz(k):
            kk=k
            if isinstance(k,int) and k<0: kk=n+k
            ctx.require('index-in-bounds', z3.And(I(kk)>=0, I(kk)<I(n)))
            plan.append(('int',kk))
        else: raise NotImplementedError(f'index {k!r}')
        d+=1
    def imap(idx, plan=plan):
        src=[]; it=iter(idx)
        for p in plan:
            if p[0]=='new': next(it)
            elif p[0]=='sl': i=next(it); src.append(p[1]+p[2]*i if p[2]!=1 else p[1]+i)
            elif p[0]=='ix': i=next(it); src.append(p[1].elem(i))
            else: src.append(p[1])
        return x.imap(src)
    # bounds obligations for index arrays
    for p,dn in zip([q for q in plan if q[0]!='new'], x.shape):
        if p[0]=='ix':
            k=z3.Int('k!b'); v=p[1].elem(k)
            ctx.require('gather-in-bounds', z3.Implies(z3.And(k>=0,k<I(p[1].n)), z3.And(v>=0, v<I(dn))))
    return STensor(shape, None, x.dtype, base=x.base, imap=imap)
# ---- primitives (axioms) -----------------------------------------------------
def t_cat(ctx, ts, dim=0):
    ts=list(ts); r=ts[0].ndim; dim%=r
    sizes=[t.shape[dim] for t in ts]; offs=[0]
    for s in sizes: offs.append(simp(offs[-1]+s))
    shape=list(ts[0].shape); shape[dim]=offs[-1]
    snaps=[t.snap() for t in ts]
    def elem(idx):
        i=idx[dim]; out=ZERO
        for sn,o,s in zip(snaps,offs,sizes):
            j=list(idx); j[dim]=i-o
            out=out+sn(j).guard(z3.And(I(i)>=o, I(i)<o+s))
        return out
    return STensor(shape, elem, ts[0].dtype)
class PList:   # periodic list  base*count
    def __init__(s, base, count): s.base=base; s.count=count
def t_cat_plist(ctx, pl, dim):
    assert dim==0 and all(t.shape[0]==1 for t in pl.base)
    k=len(pl.base); shape=list(pl.base[0].shape); shape[0]=simp(k*pl.count)
    snaps=[t.snap() for t in pl.base]
    def elem(idx):
        out=ZERO
        for r,sn in enumerate(snaps):
            out=out+sn([0]+list(idx[1:])).guard(I(idx[0])%k==r)
        return out
    return STensor(shape, elem, pl.base[0].dtype)
def conv2d(ctx, x, w, bias=None, stride=1, padding=0, dilation=1, groups=1):
    st=(stride,stride) if isinstance(stride,int) else tuple(stride)
    pd=(padding,padding) if not isinstance(padding,tuple) else padding
    dl=(dilation,dilation) if isinstance(dilation,int) else tuple(dilation)
    B,Cin,H,W=x.shape; Cout,cig,kH,kW=w.shape
    assert isinstance(kH,int) and isinstance(kW,int) and cig==1
    # Cout per group: find concrete m with Cout == m*groups
    m=None
    for cand in (1,2,3,4):
        s=z3.Solver(); s.add(*ctx.pc); s.add(I(Cout)!=cand*I(groups))
        if s.check()==z3.unsat: m=cand;break
    assert m is not None
    ctx.require('conv-groups-match', I(Cin)==I(groups))
    Ho=simp((I(H)+2*pd[0]-dl[0]*(kH-1)-1)/st[0]+1); Wo=simp((I(W)+2*pd[1]-dl[1]*(kW-1)-1)/st[1]+1)
    xs=x.snap(); ws=w.snap()
    def elem(idx):
        b,oc,i,j=idx; ic=I(oc)/m; out=ZERO
        for a in range(kH):
            for c in range(kW):
                r=i*st[0]+a*dl[0]-pd[0]; q=j*st[1]+c*dl[1]-pd[1]
                inb=z3.And(I(r)>=0,I(r)<I(H),I(q)>=0,I(q)<I(W))
                out=out+(ws([oc,0,a,c])*xs([b,ic,r,q])).guard(inb)
        return out
    return STensor((B,Cout,Ho,Wo), elem, x.dtype)
def f_pad(ctx, x, pad, mode='constant', value=0):
    assert mode=='constant' and value==0
    l,r=pad[0],pad[1]; t,bm=(pad[2],pad[3]) if len(pad)>2 else (0,0)
    B,C,H,W=x.shape; xs=x.snap()
    def elem(idx):
        b,c,i,j=idx; ii=i-t; jj=j-l
        return xs([b,c,ii,jj]).guard(z3.And(I(ii)>=0,I(ii)<I(H),I(jj)>=0,I(jj)<I(W)))
    return STensor((B,C,simp(H+t+bm),simp(W+l+r)),elem,x.dtype)
# numpy-ish on index arrays
def np_arange(ctx,a,b=None,dtype=None):
    if b is None: a,b=0,a
    return SIdx(simp(I(b)-I(a)), lambda k,a=a: I(a)+k)
def idx_bin(op,x,y):
    def ev(v,k): return v.elem(k) if isinstance(v,SIdx) else v
    n = x.n if isinstance(x,SIdx) else y.n
    return SIdx(n, lambda k: op(ev(x,k),ev(y,k)))
def np_fmod(ctx,x,y):
    # C fmod on reals: result has sign of x ; x = q*y + r, |r|<|y| ; y>0 assumed here. Use fresh skolem quotient per application
    def elem(k):
        a=x.elem(k); 
        q=z3.FreshInt('q'); r=z3.FreshReal('r')
        ctx.pc_extra.append(z3.And(a==q*z3.ToReal(I(0)+0)*0+z3.ToReal(q)*y+r, z3.If(a>=0, z3.And(r>=0,r<y), z3.And(r<=0,r>-y))))
        return r
    return SIdx(x.n, elem, real=True)
def np_where(ctx,c,a,b):
    def ev(v,k): return v.elem(k) if isinstance(v,SIdx) else v
    return SIdx(c.n, lambda k: z3.If(ev(c,k), ev(a,k), ev(b,k)), real=True)

# ---- bounded-quotient helpers (keep everything linear: quotient case-split over concrete range) ----
def fmod_trunc(a, b, Q):
    """C fmod(a,b) for real a, positive real b, assuming |a| < (Q+1)*b : a - trunc(a/b)*b"""
    expr=a  # q=0 case default
    for q in range(1,Q+1):
        expr=z3.If(a>=q*b, a-q*b, expr) if False else expr
    # build explicitly: q = trunc(a/b)
    e=z3.RealVal(0)
    cases=[]
    for q in range(-Q,Q+1):
        r=a-q*b
        if q>0: cond=z3.And(r>=0,r<b)
        elif q<0: cond=z3.And(r<=0,r>-b)
        else: cond=z3.And(r>-b,r<b)
        cases.append((cond,r))
    e=cases[0][1]
    for cond,r in cases[1:]: e=z3.If(cond,r,e)
    return e

def conv_transpose2d(ctx, x, w, bias=None, stride=1, padding=0, output_padding=0, groups=1, dilation=1):
    st=(stride,stride) if isinstance(stride,int) else tuple(stride)
    pd=(padding,padding) if not isinstance(padding,tuple) else padding
    dl=(dilation,dilation) if isinstance(dilation,int) else tuple(dilation)
    B,Cin,H,W=x.shape; Cin_w,cog,kH,kW=w.shape
    assert cog==1 and isinstance(kH,int) and isinstance(kW,int)
    ctx.require('convT-groups', z3.And(I(Cin)==I(groups), I(Cin_w)==I(Cin)))
    Ho=simp((I(H)-1)*st[0]-2*pd[0]+dl[0]*(kH-1)+1); Wo=simp((I(W)-1)*st[1]-2*pd[1]+dl[1]*(kW-1)+1)
    xs=x.snap(); ws=w.snap()
    def elem(idx):
        b,oc,m,n=idx; out=ZERO
        for a in range(kH):
            for c in range(kW):
                um=I(m)+pd[0]-a*dl[0]; un=I(n)+pd[1]-c*dl[1]
                g=z3.And(um%st[0]==0, un%st[1]==0, um>=0, un>=0, um/st[0]<I(H), un/st[1]<I(W))
                out=out+(ws([oc,0,a,c])*xs([b,oc,um/st[0],un/st[1]])).guard(g)
        return out
    return STensor((B,Cin,Ho,Wo),elem,x.dtype)
class SObj:
    def __init__(s,**kw): s.__dict__['a']=dict(kw)
    def get(s,k):
        if k=='save_for_backward': return lambda *ts: s.a.__setitem__('saved_tensors',tuple(ts))
        return s.a[k]
    def set(s,k,v): s.a[k]=v
def contiguous(ctx,x):
    sn=x.snap(); return STensor(x.shape, sn, x.dtype)    # value copy (fresh storage): sound over-approx of aliasing for reads
