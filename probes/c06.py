import torch, numpy as np, collections, warnings, itertools, logging
warnings.filterwarnings('ignore'); logging.disable(logging.CRITICAL)
torch.set_default_dtype(torch.float64)
from pytorch_wavelets import DTCWTForward, DTCWTInverse
def flat(yl,yh): 
    yl = yl if isinstance(yl,(list,tuple)) else [yl]
    return torch.cat([t.flatten() for t in list(yl)+list(yh) if t.numel()>0 and t.dim()>0])
def op_and_vjp(f,shape):
    n=int(np.prod(shape)); cols=[]
    for m in range(n):
        x=torch.zeros(n); x[m]=1; cols.append(flat(*f(x.view(shape))))
    A=torch.stack(cols,1)
    x=torch.zeros(shape,requires_grad=True); y=flat(*f(x)); rows=[]
    for k in range(y.numel()):
        g,=torch.autograd.grad(y[k],x,retain_graph=True,allow_unused=True); rows.append(torch.zeros(n) if g is None else g.flatten())
    return A,torch.stack(rows,0)
res=collections.Counter(); ex={}
for b,q in [('near_sym_a','qshift_a'),('antonini','qshift_06'),('legall','qshift_b'),('near_sym_b','qshift_d'),('near_sym_b','qshift_c')]:
  for J in [1,2,3]:
    for (H,W) in [(4,4),(6,8),(5,7),(8,12),(10,6)]:
      for kw in [dict(),dict(o_dim=1,ri_dim=2),dict(skip_hps=[True]+[False]*(J-1)),dict(include_scale=True)]:
        f=DTCWTForward(biort=b,qshift=q,J=J,**kw)
        try: A,B=op_and_vjp(f,(1,1,H,W))
        except Exception as e: res[('raise',str(kw))]+=1; ex.setdefault(('raise',str(kw)),(b,q,J,H,W,repr(e)[:100])); continue
        e=(A-B).abs().max().item(); k=('fwd','bad' if e>1e-9 else 'ok',str(kw)); res[k]+=1; ex.setdefault(k,(b,q,J,H,W,e))
for k,v in sorted(res.items(),key=str): print(k,v,ex.get(k))
# inverse adjoint + subsets
res=collections.Counter(); ex={}
for b,q in [('near_sym_a','qshift_a'),('antonini','qshift_06'),('near_sym_b','qshift_d')]:
  for J in [1,2,3]:
    for (H,W) in [(4,4),(6,8),(5,7),(8,12)]:
        f=DTCWTForward(biort=b,qshift=q,J=J); fi=DTCWTInverse(biort=b,qshift=q)
        yl,yh=f(torch.randn(1,1,H,W))
        ts=[yl]+list(yh)
        for sub in itertools.product([0,1],repeat=len(ts)):
            if sum(sub)==0: continue
            ins=[t.detach().clone().requires_grad_(bool(s)) for t,s in zip(ts,sub)]
            y=fi((ins[0],ins[1:]))
            req=[t for t in ins if t.requires_grad]
            # true jacobian by basis
            ok=True
            gs_all=[]
            for k in range(y.numel()):
                gs=torch.autograd.grad(y.flatten()[k],req,retain_graph=True,allow_unused=True); gs_all.append(gs)
            for idx,t in enumerate(req):
                if any(g[idx] is None for g in gs_all): res[('inv','None-grad',sub)]+=1; ex.setdefault(('inv','None-grad',sub),(b,q,J,H,W)); ok=False; break
                Jt=torch.stack([g[idx].flatten() for g in gs_all],0)
                # true: basis
                cols=[]
                for m in range(t.numel()):
                    ins2=[torch.zeros_like(u) for u in ts]; pos=[i for i,u in enumerate(ins) if u is t][0]
                    ins2[pos].view(-1)[m]=1; cols.append(fi((ins2[0],ins2[1:])).flatten())
                A=torch.stack(cols,1)
                e=(A-Jt).abs().max().item()
                if e>1e-9: res[('inv','bad')]+=1; ex.setdefault(('inv','bad'),(b,q,J,H,W,sub,e)); ok=False
            if ok: res[('inv','ok')]+=1
for k,v in sorted(res.items(),key=str): print(k,v,ex.get(k))
