import z3, time, sys, os, math
import qv
from symx import *; from interp import *
import interp
from run_afb1d import explore
R=z3.ToReal
# numpy axioms needed by utils.reflect / mypad-symmetric
class NP:
    QB=8
    @staticmethod
    def arange(a,b=None,dtype=None):
        if b is None: a,b=0,a
        return SIdx(simp(I(b)-I(a)), lambda k,a=a: I(a)+k)
    @staticmethod
    def asanyarray(x): return x
    @staticmethod
    def fmod(x,y):
        X=qv.qidx(x); Y=qv.toQ(y); D=X.den*Y.den//math.gcd(X.den,Y.den)
        return qv.QIdx(X.n, lambda k: qv.fmod_int(I(X.elem(k))*(D//X.den), I(Y.num)*(D//Y.den), NP.QB), D)
    @staticmethod
    def where(c,a,b):
        A=qv.qidx(a); Bq=qv.qidx(b); D=A.den*Bq.den//math.gcd(A.den,Bq.den)
        return qv.QIdx(c.n, lambda k: z3.If(c.elem(k), I(A.elem(k))*(D//A.den), I(Bq.elem(k))*(D//Bq.den)), D)
    @staticmethod
    def array(x,dtype=None):
        X=qv.qidx(x)
        if X is not None and X.den!=1:
            def el(k):
                v=X.elem(k); CUR.ctx.require('cast-exact', v%X.den==0); return v/X.den
            return SIdx(X.n, el)
        return x
def idx_bin_r(op,x,y):
    ev=lambda v,k: (v.elem(k) if isinstance(v,SIdx) else v)
    def lift(v): 
        if isinstance(v,float): return z3.RealVal(str(v))
        if isz(v) and v.sort()==z3.IntSort(): return R(v)
        if isinstance(v,int): return z3.RealVal(v)
        return v
    n = x.n if isinstance(x,SIdx) else y.n
    real = any(isinstance(v,float) or (isinstance(v,SIdx) and v.real) or (isz(v) and v.sort()==z3.RealSort()) for v in (x,y))
    if real: return SIdx(n, lambda k: op(lift(ev(x,k)),lift(ev(y,k))), real=True)
    return SIdx(n, lambda k: op(ev(x,k),ev(y,k)))
import symx; interp.idx_bin=idx_bin_r
interp.GLOBALS['np']=Namespace({'arange':NP.arange,'asanyarray':NP.asanyarray,'fmod':NP.fmod,'where':NP.where,'array':NP.array})
def scalar_bin(a,b,op):
    pass
def ext_sym_spec(k,N,Q):
    expr=z3.IntVal(-1)
    for q in range(-Q,Q+1):
        r=k-2*q*N
        expr=z3.If(z3.And(r>=0,r<2*N), z3.If(r<N,r,2*N-1-r), expr)
    return expr
def main(L):
    B,C,H,N,M,n,c,r = z3.Ints('B C H N M n c r')
    base=[B>=1,C>=1,H>=1,N>=2,M>=0,M<N,n>=0,n<B,c>=0,c<C,r>=0,r<H]
    dec0=[z3.Real(f'd0_{u}') for u in range(L)]; dec1=[z3.Real(f'd1_{u}') for u in range(L)]
    NP.QB=L//2+1
    def mkargs():
        x=STensor((B,C,H,N), lambda idx: GS([(z3.And(idx[0]==n,idx[1]==c,idx[2]==r,idx[3]==M), z3.RealVal(1))]))
        h0=STensor((1,1,1,L), lambda idx: GS([(idx[3]==t, dec0[L-1-t]) for t in range(L)]))
        h1=STensor((1,1,1,L), lambda idx: GS([(idx[3]==t, dec1[L-1-t]) for t in range(L)]))
        return [x,h0,h1],{'mode':'symmetric','dim':3}
    t0=time.time(); res=explore('afb1d',mkargs,base)
    for ctx,(kind,out) in res:
        if kind!='ret': print('  path raises',out); continue
        i,oc=z3.Ints('i oc'); want=(N+L-1)/2
        s=z3.Solver(); s.add(*ctx.pc); s.add(i>=0,i<want,oc>=0,oc<2*C)
        code=out.elem([n,oc,r,i]).z3()
        Q=L//2+1
        def spec(b,i):
            taps=dec0 if b==0 else dec1
            return z3.Sum([z3.If(ext_sym_spec(2*i+1-u,N,Q)==M, taps[u], 0) for u in range(L)])
        sp=z3.If(oc/2==c, z3.If(oc%2==0, spec(0,i), spec(1,i)), 0)
        s.push(); s.add(z3.Not(I(out.shape[3])==want)); rs=s.check(); s.pop()
        s.push(); s.add(code!=sp); rv=s.check(); 
        print(f'  path pc={[str(p) for p in ctx.pc[len(base):]]} shape:{"ok" if rs==z3.unsat else "FAIL"} value:{"proved" if rv==z3.unsat else rv}', (s.model().eval(N),s.model().eval(i),s.model().eval(M),s.model().eval(oc)) if rv==z3.sat else ''); s.pop()
        # safety obligations
        bad=0
        for name,pc,cond in ctx.obl:
            s2=z3.Solver(); s2.add(*pc); s2.add(z3.Not(cond))
            if s2.check()!=z3.unsat: bad+=1; print('   safety FAIL',name)
        print('   safety obligations',len(ctx.obl),'failed',bad)
    print(f'L={L} mode=symmetric paths={len(res)} time={time.time()-t0:.2f}s')
if __name__=='__main__':
    for L in [int(a) for a in (sys.argv[1:] or ['2','4','6'])]: main(L)
