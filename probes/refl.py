import z3, time, sys
import qv
from symx import *; from interp import *
import interp, run_sym
from run_afb1d import explore
from run_sym import ext_sym_spec, NP
def main(P):
    l,k0=z3.Ints('l k0'); base=[l>=1, k0>=-P, k0<l+P]
    NP.QB=P//2+2
    def mk():
        x=SIdx(z3.IntVal(1), lambda k: k0)     # one symbolic element stands for every element (elementwise function)
        return [x, -0.5, qv.QV(2*l-1,2)],{}
    t0=time.time()
    for ctx,(kind,out) in explore('reflect',mk,base):
        s=z3.Solver(); s.add(*ctx.pc)
        v=out.elem(z3.IntVal(0))
        s.add(v!=ext_sym_spec(k0,l,P//2+2)); r=s.check()
        bad=0
        for name,pc,cond in ctx.obl:
            s2=z3.Solver(); s2.add(*pc); s2.add(z3.Not(cond)); bad+= s2.check()!=z3.unsat
        # range post
        s3=z3.Solver(); s3.add(*ctx.pc); s3.add(z3.Not(z3.And(v>=0,v<l))); rr=s3.check()
        print(f'P={P} reflect contract:', 'proved' if r==z3.unsat else r, 'range', 'proved' if rr==z3.unsat else rr, 'safety failed',bad, f'{time.time()-t0:.2f}s')
for P in [int(a) for a in sys.argv[1:]]: main(P)
