"""Probe: per-tap decomposition (taps symbolic & independent => equality of linear forms <=> coefficient-wise equality)"""
import z3, time, sys, os
from symx import *; from interp import *
import interp
from run_afb1d import explore
def main(L,mode):
    B,C,H,N,M,n,c,r = z3.Ints('B C H N M n c r')
    base=[B>=1,C>=1,H>=1,N>=2,M>=0,M<N,n>=0,n<B,c>=0,c<C,r>=0,r<H]
    if mode=='periodization': base.append(N+N%2>=L)
    t0=time.time(); tot=0; bad=0; tsolve=0
    for band in (0,1):
      for u in range(L):
        one=z3.RealVal(1); zero=z3.RealVal(0)
        def mk():
            x=STensor((B,C,H,N), lambda idx: GS([(z3.And(idx[0]==n,idx[1]==c,idx[2]==r,idx[3]==M), one)]))
            def filt(b):
                # registered filter = reversed dec ; only tap u of band `band` is 1, all others 0 -> sparse guarded sum
                return STensor((1,1,1,L), lambda idx: GS([(idx[3]==L-1-u, one)]) if b==band else ZERO)
            return [x,filt(0),filt(1)],{'mode':mode,'dim':3}
        for ctx,(kind,out) in explore('afb1d',mk,base):
            i,oc=z3.Ints('i oc'); want=(N+L-1)/2 if mode=='zero' else (N+1)/2
            s=z3.Solver(); s.add(*ctx.pc); s.add(i>=0,i<want,oc>=0,oc<2*C)
            code=out.elem([n,oc,r,i]).z3()
            if mode=='zero': hit=z3.And(2*i+1-u==M)
            else:
                Ne=N+N%2; jx=(2*i+1-u+(L//2-1))%Ne; hit=z3.Or(jx==M, z3.And(jx==N, M==N-1))
            sp=z3.If(z3.And(oc/2==c, oc%2==band, hit), one, zero)
            s.add(code!=sp); t1=time.time(); rv=s.check(); tsolve+=time.time()-t1; tot+=1; bad+= rv!=z3.unsat
    print(f'L={L} {mode}: {tot} per-tap obligations, not proved {bad}, total {time.time()-t0:.1f}s (solver {tsolve:.1f}s)')
for a in sys.argv[2:]: main(int(a),sys.argv[1])
