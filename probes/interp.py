import ast, z3, operator
import qv
from symx import *
class Ret(Exception):
    def __init__(s,v): s.v=v
class TorchTensorType: pass
class Interp:
    def __init__(s, ctx): s.ctx=ctx; s.calls=[]
    # ---------- expressions
    def ev(s, n, env):
        m=getattr(s,'e_'+type(n).__name__); return m(n,env)
    def e_Constant(s,n,env): return n.value
    def e_Name(s,n,env):
        if n.id in env: return env[n.id]
        if n.id in GLOBALS: return GLOBALS[n.id]
        raise NameError(n.id)
    def e_Tuple(s,n,env): return tuple(s.ev(e,env) for e in n.elts)
    def e_List(s,n,env): return [s.ev(e,env) for e in n.elts]
    def e_UnaryOp(s,n,env):
        v=s.ev(n.operand,env)
        if isinstance(n.op,ast.USub): return -v
        if isinstance(n.op,ast.Not): return z3.Not(v) if isz(v) else (not v)
        raise NotImplementedError
    def e_BinOp(s,n,env):
        a=s.ev(n.left,env); b=s.ev(n.right,env); op=type(n.op)
        if op is ast.Mult and isinstance(a,list) and (isz(b) or isinstance(b,int)):
            return a*b if isinstance(b,int) else PList(a,b)
        if isinstance(a,SIdx) or isinstance(b,SIdx):
            return qv.arr_arith({ast.Add:'add',ast.Sub:'sub'}[op],a,b)
        if isinstance(a,(float,qv.QV)) or isinstance(b,(float,qv.QV)):
            return qv.q_arith({ast.Add:'add',ast.Sub:'sub',ast.Mult:'mul'}[op],a,b)
        if isinstance(a,STensor) or isinstance(b,STensor): return t_bin(s.ctx,op,a,b)
        if op is ast.Add: return simp(a+b) if (isz(a) or isz(b)) else a+b
        if op is ast.Sub: return simp(a-b) if (isz(a) or isz(b)) else a-b
        if op is ast.Mult: return simp(a*b) if (isz(a) or isz(b)) else a*b
        if op is ast.FloorDiv:
            if isz(a) or isz(b): return simp(I(a)/I(b))   # z3 int div == floor for positive divisor
            return a//b
        if op is ast.Mod:
            if isz(a) or isz(b): return simp(I(a)%I(b))
            return a%b
        if op is ast.Pow: return a**b
        raise NotImplementedError(op)
    def e_BoolOp(s,n,env):
        vals=[s.ev(v,env) for v in n.values]   # no short-circuit needed for our subset (pure)
        if any(isz(v) for v in vals):
            return (z3.Or if isinstance(n.op,ast.Or) else z3.And)(*[v if isz(v) else z3.BoolVal(bool(v)) for v in vals])
        if isinstance(n.op,ast.Or):
            r=False
            for v in vals: r=r or v
            return r
        r=True
        for v in vals: r=r and v
        return r
    def e_Compare(s,n,env):
        a=s.ev(n.left,env); out=None
        for op,c in zip(n.ops,n.comparators):
            b=s.ev(c,env)
            if isinstance(a,tuple) and isinstance(b,tuple) and any(isz(q) for q in a+b):
                eq=z3.And(*[I(p)==I(q) for p,q in zip(a,b)]) if len(a)==len(b) else z3.BoolVal(False)
                r=eq if isinstance(op,ast.Eq) else z3.Not(eq)
            else:
                f={ast.Eq:operator.eq,ast.NotEq:operator.ne,ast.Lt:operator.lt,ast.LtE:operator.le,ast.Gt:operator.gt,ast.GtE:operator.ge}.get(type(op))
                if isinstance(a,SIdx) or isinstance(b,SIdx): r=qv.arr_cmp(f,a,b)
                elif isinstance(a,(float,qv.QV)) or isinstance(b,(float,qv.QV)): r=qv.q_cmp(f,a,b)
                elif isinstance(op,ast.In): r= a in b
                elif isinstance(op,ast.Is): r= a is b
                elif isinstance(op,ast.IsNot): r= a is not b
                else: r=f(a,b)
            out=r if out is None else (z3.And(out,r) if (isz(out) or isz(r)) else (out and r)); a=b
        return out
    def e_IfExp(s,n,env):
        return s.ev(n.body,env) if s.truth(s.ev(n.test,env)) else s.ev(n.orelse,env)
    def truth(s,v):
        if isz(v): return s.ctx.decide(v)
        return bool(v)
    def e_Attribute(s,n,env):
        v=s.ev(n.value,env)
        if isinstance(v,STensor):
            if n.attr=='shape': return v.shape
            if n.attr=='device': return Opaque('device')
            if n.attr in TENSOR_METHODS: return lambda *a,**k: TENSOR_METHODS[n.attr](s.ctx,v,*a,**k)
        if isinstance(v,SIdx) and n.attr=='shape': return (v.n,)
        if isinstance(v,SIdx) and n.attr=='dtype': return 'int'
        if isinstance(v,Namespace): return v.get(n.attr)
        if isinstance(v,SObj): return v.get(n.attr)
        raise NotImplementedError(f'attr {n.attr} of {v!r}')
    def e_Subscript(s,n,env):
        v=s.ev(n.value,env); k=s.ev(n.slice,env)
        if isinstance(v,STensor): return tget(s.ctx,v,k)
        if isinstance(v,(tuple,list)):
            if isinstance(k,int) or isinstance(k,slice): return v[k]
        raise NotImplementedError(f'subscript {v!r}[{k!r}]')
    def e_Slice(s,n,env):
        g=lambda e: None if e is None else s.ev(e,env); return slice(g(n.lower),g(n.upper),g(n.step))
    def e_Starred(s,n,env): raise NotImplementedError
    def e_Call(s,n,env):
        f=s.ev(n.func,env); args=[]
        for a in n.args:
            if isinstance(a,ast.Starred): args.extend(s.ev(a.value,env))
            else: args.append(s.ev(a,env))
        kw={k.arg:s.ev(k.value,env) for k in n.keywords}
        if isinstance(f,RepoFn): return s.call(f.name,args,kw)
        return f(*args,**kw)
    # ---------- statements
    def run(s, body, env):
        for st in body: getattr(s,'s_'+type(st).__name__)(st,env)
    def s_Expr(s,n,env):
        if isinstance(n.value,ast.Constant): return
        s.ev(n.value,env)
    def s_Assign(s,n,env):
        v=s.ev(n.value,env)
        for t in n.targets: s.assign(t,v,env)
    def assign(s,t,v,env):
        if isinstance(t,ast.Name): env[t.id]=v
        elif isinstance(t,(ast.Tuple,ast.List)):
            v=list(v); assert len(v)==len(t.elts)
            for a,b in zip(t.elts,v): s.assign(a,b,env)
        elif isinstance(t,ast.Attribute):
            s.ev(t.value,env).set(t.attr,v)
        elif isinstance(t,ast.Subscript):
            obj=s.ev(t.value,env); k=s.ev(t.slice,env)
            if isinstance(obj,list): obj[k]=v
            elif isinstance(obj,STensor): tset(s.ctx,obj,k,v)
            else: raise NotImplementedError
        else: raise NotImplementedError
    def s_AugAssign(s,n,env):
        cur=s.ev(n.target,env) if not isinstance(n.target,ast.Name) else env[n.target.id]
        v=s.e_BinOp(ast.BinOp(left=ast.Constant(0),op=n.op,right=ast.Constant(0)),env) if False else None
        b=s.ev(n.value,env); op=type(n.op)
        a=cur
        res = s.e_BinOp(_Lit(a,n.op,b),env)
        s.assign(n.target,res,env)
    def s_If(s,n,env):
        if s.truth(s.ev(n.test,env)): s.run(n.body,env)
        else: s.run(n.orelse,env)
    def s_Return(s,n,env): raise Ret(s.ev(n.value,env) if n.value else None)
    def s_Raise(s,n,env): raise Raised('raise', ast.unparse(n))
    def s_Pass(s,n,env): pass
    def call(s,name,args,kw):
        fn=FNS[name]; env={}
        params=[a.arg for a in fn.args.args]; defaults=fn.args.defaults
        for p,dv in zip(params[len(params)-len(defaults):],defaults): env[p]=s.ev(dv,{})
        for p,a in zip(params,args): env[p]=a
        env.update(kw)
        s.calls.append(name)
        try: s.run(fn.body,env)
        except Ret as r: return r.v
        return None
class _Lit(ast.BinOp):
    def __init__(s,a,op,b): s.left=_V(a); s.op=op; s.right=_V(b)
class _V(ast.AST):
    def __init__(s,v): s.v=v
Interp.e__V=lambda s,n,env: n.v
Interp.e__Lit=Interp.e_BinOp
class RepoFn:
    def __init__(s,n): s.name=n
class Namespace:
    def __init__(s,d): s.d=d
    def get(s,k): return s.d[k]
def t_bin(ctx,op,a,b):
    ref=a if isinstance(a,STensor) else b
    sa=a.snap() if isinstance(a,STensor) else None; sb=b.snap() if isinstance(b,STensor) else None
    def el(v,idx):
        if v is a and sa: return sa(idx)
        if v is b and sb: return sb(idx)
        return v
    f={ast.Add:lambda p,q:p+q, ast.Sub:lambda p,q:p-q, ast.Mult:lambda p,q:p*q}[op]
    def lift(v): return v if isinstance(v,GS) else GS([(z3.BoolVal(True), v)])
    return STensor(ref.shape, lambda idx: f(lift(el(a,idx)),lift(el(b,idx))), ref.dtype)
def tset(ctx,obj,key,val):
    """in-place slice assignment obj[key]=val  (basic slices only)"""
    view=tget(ctx,obj,key)      # to get plan shapes: recompute mapping
    if not isinstance(key,tuple): key=(key,)
    key=key+(slice(None),)*(obj.ndim-len(key))
    old=obj.base.elem; plans=[]; vs=val.snap(); om=obj.imap
    for k,n in zip(key,obj.shape):
        a,st,ln=norm_slice(ctx,k,n); plans.append((a,st,ln))
    def elem(idx):
        inside=z3.And(*[z3.And(I(i)>=I(a), I(i)<I(a)+I(ln)*st) for i,(a,st,ln) in zip(idx,plans)])  # step 1 only
        src=[I(i)-I(a) for i,(a,st,ln) in zip(idx,plans)]
        return vs(src).guard(inside)+old(idx).guard(z3.Not(inside))
    assert obj.imap(['#'])==['#'], 'prototype: setitem on base tensors only'
    obj.base.elem=elem
def reshape(ctx,x,*shape):
    if len(shape)==1 and isinstance(shape[0],(tuple,list)): shape=tuple(shape[0])
    # prototype: only reshapes that move a single non-1 extent
    src=[i for i,d in enumerate(x.shape) if not (isinstance(d,int) and d==1)]
    dst=[i for i,d in enumerate(shape) if not (isinstance(d,int) and d==1)]
    assert len(src)<=1 and len(dst)<=1
    def imap(idx):
        j=[0]*x.ndim
        if src: j[src[0]]=idx[dst[0]]
        return x.imap(j)
    return STensor(shape,None,x.dtype,base=x.base,imap=imap)
TENSOR_METHODS={'numel':lambda ctx,x: x.numel(), 'reshape':reshape, 'contiguous':contiguous}
def isinstance_(v,t):
    if t is TorchTensorType: return isinstance(v,STensor)
    return isinstance(v,t)
def dwt_coeff_len(N,L,mode=None):
    assert mode not in ('per','periodization'); return simp((I(N)+L-1)/2)
GLOBALS={'torch':Namespace({'Tensor':TorchTensorType,'cat':lambda ts,dim=0: (t_cat_plist(CUR.ctx,ts,dim) if isinstance(ts,PList) else t_cat(CUR.ctx,ts,dim))}),
         'F':Namespace({'conv_transpose2d':lambda *a,**k: conv_transpose2d(CUR.ctx,*a,**k),'conv2d':lambda *a,**k: conv2d(CUR.ctx,*a,**k),'pad':lambda *a,**k: f_pad(CUR.ctx,*a,**k)}),
         'pywt':Namespace({'dwt_coeff_len':dwt_coeff_len}),
         'isinstance':isinstance_,'tuple':tuple,'len':len,
         'roll':RepoFn('roll'),'sfb1d':RepoFn('sfb1d'),'int_to_mode':RepoFn('int_to_mode'),'mypad':RepoFn('mypad'),'afb1d':RepoFn('afb1d'),'reflect':RepoFn('reflect')}
class CUR: ctx=None
