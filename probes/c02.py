import torch, pywt, numpy as np, collections, warnings
warnings.filterwarnings('ignore')
torch.set_default_dtype(torch.float64)
from pytorch_wavelets import DWT1DForward, DWT1DInverse, DWTForward, DWTInverse
modes=['zero','symmetric','reflect','periodic','periodization']
waves=pywt.wavelist(kind='discrete')
res=collections.Counter(); ex={}
for w in waves:
    L=pywt.Wavelet(w).dec_len
    if L>24 and w!='dmey': continue
    for mode in modes:
        for J in [1,2,3]:
            f=DWT1DForward(J=J,wave=w,mode=mode); fi=DWT1DInverse(wave=w,mode=mode)
            for N in [2,3,5,8,13,16,31,64,65]:
                x=torch.randn(2,2,N)
                try: lo,hi=f(x)
                except Exception: res[(mode,'fwd-raise')]+=1; continue
                try: y=fi((lo,hi))
                except Exception as e: res[(mode,'inv-raise')]+=1; ex.setdefault((mode,'inv-raise'),(w,J,N,repr(e)[:80])); continue
                short = (N+N%2)//2**(J-1) < L
                if y.shape[-1] not in (N,N+1) and not(y.shape[-1]>=N): k=(mode,'shape',short); res[k]+=1; ex.setdefault(k,(w,J,N,y.shape)); continue
                e=(y[...,:N]-x).abs().max().item()
                # pywt own error
                c=pywt.wavedec(x.numpy(),w,mode=mode,level=J); r=pywt.waverec(c,w,mode=mode)[...,:N]
                ep=np.abs(r-x.numpy()).max()
                # C10 compare inverse to pywt waverec on our coefficients
                try:
                    r2=pywt.waverec([lo.numpy()]+[h.numpy() for h in hi[::-1]],w,mode=mode)
                    e10=np.abs(r2[..., :y.shape[-1]]-y.numpy()[..., :r2.shape[-1]]).max(); sh=(r2.shape[-1]==y.shape[-1])
                except Exception as e_: e10=-1; sh=True
                k=(mode,'PR','bad' if e>max(1e-8,10*ep) else 'ok',short, y.shape[-1]-N)
                res[k]+=1; ex.setdefault(k,(w,J,N,e,ep))
                k=(mode,'C10-on-range','bad' if e10>1e-8 else ('skip' if e10<0 else 'ok'),sh)
                res[k]+=1; ex.setdefault(k,(w,J,N,e10))
for k,v in sorted(res.items(),key=str): print(k,v,ex.get(k))
