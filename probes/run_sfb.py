import z3, time, sys, os, math, fractions, subprocess, json
import qv
from symx import *; from interp import *
import interp, run_sym   # installs np axioms
from run_afb1d import explore
def taps(w):
    out=subprocess.run(['/venv/bin/python','-c',f"import pywt,json;W=pywt.Wavelet('{w}');print(json.dumps([[float.hex(v) for v in f] for f in (W.dec_lo,W.dec_hi,W.rec_lo,W.rec_hi)]))"],capture_output=True,text=True).stdout
    return [[fractions.Fraction(float.fromhex(v)) for v in f] for f in json.loads(out.strip().splitlines()[-1])]
def RV(fr): return z3.RealVal(f'{fr.numerator}/{fr.denominator}')
def filt(vals,rev):   # (1,1,L) tensor as registered by prep_filt_{afb,sfb}1d
    L=len(vals); v=[vals[L-1-t] for t in range(L)] if rev else list(vals)
    return STensor((1,1,L), lambda idx: GS([(idx[2]==t, v[t]) for t in range(L)]))
def adjoint(L,mode):
    """AFB1D: kernel of forward vs kernel of backward (the real autograd.Function bodies)"""
    B,C,N,M,n,c,P,band = z3.Ints('B C N M n c P band')
    base=[B>=1,C>=1,N>=2,M>=0,M<N,n>=0,n<B,c>=0,c<C,band>=0,band<=1]
    if mode=='periodization': base.append(N+N%2>=L)
    d0=[z3.Real(f'd0_{u}') for u in range(L)]; d1=[z3.Real(f'd1_{u}') for u in range(L)]
    modeint={'zero':0,'symmetric':1,'periodization':2,'reflect':4,'periodic':6}[mode]
    run_sym.NP.QB=L//2+1
    results=[]
    def mk_fwd():
        x=STensor((B,C,N), lambda idx: GS([(z3.And(idx[0]==n,idx[1]==c,idx[2]==M), z3.RealVal(1))]))
        return [SObj(needs_input_grad=(True,False,False,False)), x, filt(d0,True), filt(d1,True), modeint],{}
    t0=time.time()
    for ctx,(kind,out) in explore('AFB1D.forward',mk_fwd,base):
        if kind!='ret': print('   fwd raises', out); continue
        x0,x1=out; fctx=None
        outlen=x0.shape[2]
        # forward kernel: K_f(band,P ; M)
        Kf=lambda: z3.If(band==0, x0.elem([n,c,P]).z3(), x1.elem([n,c,P]).z3())
        # now run backward on the same path with one-hot cotangent at (band,P)
        def mk_bwd():
            cx=SObj(needs_input_grad=(True,False,False,False)); 
            # re-run forward to populate ctx (same decisions) -- prototype shortcut: rebuild saved state
            h0=tget(interp.CUR.ctx, filt(d0,True),(slice(None),slice(None),None,slice(None))); h1=tget(interp.CUR.ctx, filt(d1,True),(slice(None),slice(None),None,slice(None)))
            cx.set('saved_tensors',(h0,h1)); cx.set('shape',N); cx.set('mode',mode)
            g0=STensor((B,C,outlen), lambda idx: GS([(z3.And(idx[0]==n,idx[1]==c,idx[2]==P,band==0), z3.RealVal(1))]))
            g1=STensor((B,C,outlen), lambda idx: GS([(z3.And(idx[0]==n,idx[1]==c,idx[2]==P,band==1), z3.RealVal(1))]))
            return [cx,g0,g1],{}
        for ctx2,(k2,out2) in explore('AFB1D.backward',mk_bwd,list(ctx.pc)+[P>=0,P<I(outlen)]):
            if k2!='ret': print('   bwd raises',out2); continue
            dx=out2[0]
            s=z3.Solver(); s.add(*ctx2.pc)
            s.push(); s.add(z3.Not(I(dx.shape[2])==N)); rs=s.check(); s.pop()
            s.add(Kf()!=dx.elem([n,c,M]).z3()); r=s.check()
            results.append(r)
            print(f'   AFB1D adjoint L={L} {mode}: shape {"ok" if rs==z3.unsat else "FAIL"}; value', 'proved' if r==z3.unsat else (r,[s.model().eval(v) for v in (N,P,M,band)] if r==z3.sat else ''))
    print(f'  time {time.time()-t0:.1f}s')
def pr(w,mode):
    """S(A(x)) == x on original extent, concrete taps of wavelet w, symbolic N"""
    dlo,dhi,rlo,rhi=[[RV(v) for v in f] for f in taps(w)]; L=len(dlo)
    B,C,N,M,n,c,Pn = z3.Ints('B C N M n c Pn')
    base=[B>=1,C>=1,N>=2,M>=0,M<N,n>=0,n<B,c>=0,c<C,Pn>=0,Pn<N]
    if mode=='periodization': base.append(N+N%2>=L)
    run_sym.NP.QB=L//2+1
    def mk():
        x=STensor((B,C,1,N), lambda idx: GS([(z3.And(idx[0]==n,idx[1]==c,idx[3]==M), z3.RealVal(1))]))
        shp=lambda vals,rev: STensor((1,1,1,len(vals)), lambda idx: GS([(idx[3]==t, (vals[len(vals)-1-t] if rev else vals[t])) for t in range(len(vals))]))
        return [x, shp(dlo,True), shp(dhi,True)],{'mode':mode,'dim':3}
    t0=time.time()
    for ctx,(kind,lohi) in explore('afb1d',mk,base):
        if kind!='ret': continue
        def mk2():
            lo=tget(interp.CUR.ctx,lohi,(slice(None),slice(None,None,2))); hi=tget(interp.CUR.ctx,lohi,(slice(None),slice(1,None,2)))
            shp=lambda vals: STensor((1,1,1,len(vals)), lambda idx: GS([(idx[3]==t, vals[t]) for t in range(len(vals))]))
            return [lo,hi,shp(rlo),shp(rhi)],{'mode':mode,'dim':3}
        for ctx2,(k2,y) in explore('sfb1d',mk2,list(ctx.pc)):
            s=z3.Solver(); s.add(*ctx2.pc)
            s.push(); s.add(z3.Not(z3.And(I(y.shape[3])>=N, I(y.shape[3])<=N+1))); rs=s.check(); s.pop()
            v=y.elem([n,c,0,Pn]).z3(); tgt=z3.If(Pn==M,z3.RealVal(1),z3.RealVal(0)); eps=z3.RealVal('1/1000000000000')
            s.add(z3.Or(v-tgt>eps, tgt-v>eps)); r=s.check()
            print(f'   PR {w} {mode}: len {"ok" if rs==z3.unsat else "FAIL"}; value', 'proved' if r==z3.unsat else (r,[s.model().eval(q) for q in (N,Pn,M)] if r==z3.sat else ''))
    print(f'  time {time.time()-t0:.1f}s')
if __name__=='__main__':
    what=sys.argv[1]
    if what=='adj':
        for mode in sys.argv[3:]: adjoint(int(sys.argv[2]),mode)
    else:
        for mode in sys.argv[3:]: pr(sys.argv[2],mode)
