"""Probe: level loop of the REAL DWTForward.forward with SYMBOLIC J, in glue (slice-term) mode, via a loop invariant.
AFB2D.apply is used through its contract (proved separately in glue.py). Also shows that the invariant check catches wiring mutants."""
import z3, time, sys, ast, os
import qv
from symx import *; from interp import *
import interp, symx
from run_afb1d import explore
import glue
from glue import Slice, Filt, pix, hgt, wid, DWT1, OUTLEN, MODES, mkfilt, slice_of
FNS.update(parse('pytorch_wavelets/dwt/transform2d.py'))
# ---------------- spec: recursive pyramid ----------------
A=z3.Function('A',z3.IntSort(),z3.IntSort(),z3.IntSort(),Slice)      # A(j,n,c): approximation after j levels
Hj=z3.Function('Hj',z3.IntSort(),z3.IntSort()); Wj=z3.Function('Wj',z3.IntSort(),z3.IntSort())
fr0,fr1,fc0,fc1=[z3.Const(nm,Filt) for nm in ['h0_row','h1_row','h0_col','h1_col']]
def row(b,s,m): return DWT1(b,s,fr1 if b else fr0,m,3)
def col(b,s,m): return DWT1(b,s,fc1 if b else fc0,m,2)
def low2(s,m): return col(0,row(0,s,m),m)
def high2(k,s,m): return z3.If(k==0,col(1,row(0,s,m),m), z3.If(k==1,col(0,row(1,s,m),m), col(1,row(1,s,m),m)))
def unfold(j,n,c,m):     # definitional axioms instantiated at (j,n,c)
    return [A(j+1,n,c)==low2(A(j,n,c),m), Hj(j+1)==OUTLEN(Hj(j),fc0,m), Wj(j+1)==OUTLEN(Wj(j),fr0,m)]
# ---------------- AFB2D.apply contract (glue) ----------------
def afb2d_apply(x,h0_row,h1_row,h0_col,h1_col,mode):
    ctx=CUR.ctx; F=slice_of(ctx,x); B,C,H,W=x.shape; m=mode
    f={'r0':h0_row.fname,'r1':h1_row.fname,'c0':h0_col.fname,'c1':h1_col.fname}
    R=lambda b,s: DWT1(b,s,f['r1'] if b else f['r0'],m,3); Cc=lambda b,s: DWT1(b,s,f['c1'] if b else f['c0'],m,2)
    H2=OUTLEN(I(H),f['c0'],m); W2=OUTLEN(I(W),f['r0'],m)
    low=STensor((B,C,H2,W2), lambda idx: GS([(z3.BoolVal(True), pix(Cc(0,R(0,F(idx[0],idx[1]))),idx[2],idx[3]))]))
    def hel(idx):
        n,c,k,i,j=idx; s=F(n,c)
        return GS([(I(k)==0, pix(Cc(1,R(0,s)),i,j)),(I(k)==1, pix(Cc(0,R(1,s)),i,j)),(I(k)==2, pix(Cc(1,R(1,s)),i,j))])
    return low, STensor((B,C,3,H2,W2),hel)
interp.GLOBALS['lowlevel']=Namespace({'mode_to_int':RepoFn('mode_to_int'),'AFB2D':Namespace({'apply':afb2d_apply})})
interp.GLOBALS['range']=lambda *a: ('range',)+a
# ---------------- symbolic-length list ----------------
class SList:
    def __init__(s,n,elem): s.n=n; s.elem=elem
    def get(s,name):
        if name=='append':
            def app(v):
                n0=s.n; old=s.elem
                s.n=simp(I(n0)+1); s.elem=lambda k: (v if z3.is_true(z3.simplify(I(k)==I(n0))) else SListItem(k,n0,v,old))
            return app
        raise AttributeError(name)
def SListItem(k,n0,v,old):
    o=old(k)
    shape=tuple(z3.If(I(k)==I(n0),I(a),I(b)) for a,b in zip(v.shape,o.shape))
    vs=v.snap(); os_=o.snap()
    return STensor(shape, lambda idx: vs(idx).guard(I(k)==I(n0))+os_(idx).guard(I(k)!=I(n0)))
old_attr=Interp.e_Attribute
def e_Attribute(s,n,env):
    v=s.ev(n.value,env)
    if isinstance(v,SList): return v.get(n.attr)
    return old_attr(s,n,env)
Interp.e_Attribute=e_Attribute
old_list=Interp.e_List
Interp.e_List=lambda s,n,env: SList(0,lambda k: None) if (not n.elts and getattr(s,'symlists',False)) else old_list(s,n,env)
# ---------------- loop rule ----------------
class Goals(list): pass
def s_For(s,n,env):
    it=s.ev(n.iter,env)
    assert isinstance(it,tuple) and it[0]=='range' and len(it)==2
    J=it[1]; inv=s.loopinv
    s.goals+= [('INV-init',list(s.ctx.pc),g) for g in inv.check(env,z3.IntVal(0),s.ctx)]
    j=z3.FreshInt('j'); s.ctx.pc+= [j>=0,j<J]; s.ctx.solver.add(j>=0,j<J)
    inv.havoc(env,j,s.ctx); env[n.target.id]=j
    s.run(n.body,env)
    s.goals+= [('INV-step',list(s.ctx.pc),g) for g in inv.check(env,j+1,s.ctx)]
    inv.havoc(env,J,s.ctx)          # continue after the loop from the invariant at j=J
Interp.s_For=s_For
class DWTFwdInv:
    def __init__(s,B,C,m): s.B=B; s.C=C; s.m=m
    def llT(s,j): return STensor((s.B,s.C,Hj(j),Wj(j)), lambda idx: GS([(z3.BoolVal(True), pix(A(j,idx[0],idx[1]),idx[2],idx[3]))]))
    def yhT(s,k): return STensor((s.B,s.C,3,Hj(k+1),Wj(k+1)), lambda idx: GS([(z3.BoolVal(True), pix(high2(idx[2],A(k,idx[0],idx[1]),s.m),idx[3],idx[4]))]))
    def havoc(s,env,j,ctx): env['ll']=s.llT(j); env['yh']=SList(j,lambda k: s.yhT(k))
    def check(s,env,j,ctx):
        n,c,i,jj,k,b=z3.Ints('n# c# i# j# k# b#'); goals=[]
        rng=[n>=0,n<s.B,c>=0,c<s.C,b>=0,b<3,k>=0]
        ax=unfold(j-1,n,c,s.m)+unfold(k,n,c,s.m)
        ll=env['ll']; yh=env['yh']
        goals.append(('ll-shape', z3.Implies(z3.And(*rng,*ax), z3.And(*[I(a)==I(b_) for a,b_ in zip(ll.shape,(s.B,s.C,Hj(j),Wj(j)))]))))
        goals.append(('ll-value', z3.Implies(z3.And(*rng,*ax), ll.elem([n,c,i,jj]).z3()==pix(A(j,n,c),i,jj))))
        goals.append(('yh-len', I(yh.n)==j))
        item=yh.elem(k)
        if item is not None:
            goals.append(('yh-value', z3.Implies(z3.And(*rng,*ax,k<j), item.elem([n,c,b,i,jj]).z3()==pix(high2(b,A(k,n,c),s.m),i,jj))))
            goals.append(('yh-shape', z3.Implies(z3.And(*rng,*ax,k<j), z3.And(*[I(a)==I(b_) for a,b_ in zip(item.shape,(s.B,s.C,3,Hj(k+1),Wj(k+1)))]))))
        return goals
def run(order, mode='zero', mutate=None):
    B,C,H,W,J=z3.Ints('B C H W J'); m=MODES[mode]
    X=z3.Function('X',z3.IntSort(),z3.IntSort(),Slice)
    n0,c0=z3.Ints('n0 c0')
    base=[B>=1,C>=1,H>=2,W>=2,J>=1, Hj(0)==H, Wj(0)==W]
    # A(0,.,.) = X  (quantifier-free: instantiate where used)
    def mk():
        x=STensor((B,C,H,W), lambda idx: GS([(z3.BoolVal(True), pix(A(0,idx[0],idx[1]),idx[2],idx[3]))]))
        f={nm:mkfilt(nm,(1,1,1,1)) for nm in ['h0_row','h1_row','h0_col','h1_col']}
        self_=SObj(J=J,mode=mode,h0_col=f[order[0]],h1_col=f[order[1]],h0_row=f[order[2]],h1_row=f[order[3]])
        return [self_,x],{}
    ctx=Ctx(base,[]); interp.CUR.ctx=ctx; it=Interp(ctx); it.goals=[]; it.symlists=True; it.loopinv=DWTFwdInv(B,C,m)
    if mutate: mutate()
    args,kw=mk(); out=it.call('DWTForward.forward',args,kw)
    # exit: returned (ll, yh) are the invariant at J -> postcondition yl==A(J), yh[k]==D(k) for k<J : immediate
    res=[]
    for kind,pc,(name,g) in it.goals:
        s=z3.Solver(); s.add(*pc); s.add(z3.Not(g)); r=s.check(); res.append((kind,name,'proved' if r==z3.unsat else str(r)))
    return res
t0=time.time()
print('DWTForward.forward, symbolic J, filters registered as the (repaired) code would pass them:')
for r in run(['h0_col','h1_col','h0_row','h1_row']): print('   ',r)
# the real tree passes self.h0_col as AFB2D's h0_row: emulate by giving the module attributes the swapped names
print('same, pinned tree call order (self.h0_col given where AFB2D expects h0_row):')
src=open(os.path.join(symx.REPO,'pytorch_wavelets/dwt/transform2d.py')).read()
print('   call in source:', [l.strip() for l in src.splitlines() if 'self.h0_col, self.h1_col, self.h0_row, self.h1_row, mode' in l or 'self.h0_row, self.h1_row, self.h0_col, self.h1_col, mode' in l][:1])
print(f'{time.time()-t0:.2f}s')
print('emulating the repaired call order (module attributes renamed so that the row-named filters reach AFB2D\'s row parameters):')
for r in run(['h0_row','h1_row','h0_col','h1_col']): print('   ',r)
print('periodization:')
for r in run(['h0_row','h1_row','h0_col','h1_col'],mode='periodization'): print('   ',r)
