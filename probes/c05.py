import torch, pywt, numpy as np, collections, warnings
warnings.filterwarnings('ignore')
torch.set_default_dtype(torch.float64)
from pytorch_wavelets import DWT1DForward, DWT1DInverse, DWTForward, DWTInverse
modes=['zero','symmetric','reflect','periodic','periodization']
def jac_fwd1d(f,N):
    # operator matrix via basis
    cols=[]
    for m in range(N):
        x=torch.zeros(1,1,N); x[0,0,m]=1
        lo,hi=f(x); cols.append(torch.cat([lo.flatten()]+[h.flatten() for h in hi]))
    return torch.stack(cols,1)
def vjp_fwd1d(f,N):
    x=torch.zeros(1,1,N,requires_grad=True)
    lo,hi=f(x); y=torch.cat([lo.flatten()]+[h.flatten() for h in hi])
    rows=[]
    for k in range(y.numel()):
        g,=torch.autograd.grad(y[k],x,retain_graph=True); rows.append(g.flatten())
    return torch.stack(rows,0)
res=collections.Counter(); ex={}
for w in ['db1','db2','db3','bior2.4']:
    L=pywt.Wavelet(w).dec_len
    for mode in modes:
        for J in [1,2]:
            for N in [8,9,16,21,32]:
                f=DWT1DForward(J=J,wave=w,mode=mode)
                try:
                    A=jac_fwd1d(f,N); B=vjp_fwd1d(f,N)
                except Exception as e: 
                    res[(mode,'raise')]+=1; continue
                e=(A-B).abs().max().item()
                k=(mode, 'fwd', 'bad' if e>1e-9 else 'ok', N%2)
                res[k]+=1; ex.setdefault(k,(w,J,N,e))
for k,v in sorted(res.items()): print(k,v,ex.get(k))
# inverse: grad subsets
w='db2'
for mode in modes:
    fi=DWT1DInverse(wave=w,mode=mode); ff=DWT1DForward(J=2,wave=w,mode=mode)
    lo,hi=ff(torch.randn(1,1,16))
    for sub in [(1,0,0),(0,1,0),(0,0,1),(1,1,1),(0,1,1)]:
        lo_=lo.detach().clone().requires_grad_(bool(sub[0])); hi_=[h.detach().clone().requires_grad_(bool(s)) for h,s in zip(hi,sub[1:])]
        y=fi((lo_,hi_))
        ins=[t for t in [lo_]+hi_ if t.requires_grad]
        try:
            gs=torch.autograd.grad(y.sum(),ins,allow_unused=True)
            print(mode,sub,[None if g is None else tuple(g.shape) for g in gs])
        except Exception as e: print(mode,sub,'ERR',repr(e)[:100])
