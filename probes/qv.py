import z3, math, operator
from symx import SIdx, I, isz, simp
class QV:
    """exact rational scalar num/den, den concrete positive int, num z3 Int or python int"""
    def __init__(s,num,den=1):
        s.num=num; s.den=den
def toQ(v):
    if isinstance(v,QV): return v
    if isinstance(v,float):
        import fractions; f=fractions.Fraction(v); return QV(f.numerator,f.denominator)
    return QV(v,1)
def common(a,b):
    a=toQ(a); b=toQ(b); D=a.den*b.den//math.gcd(a.den,b.den)
    return I(a.num)*(D//a.den) if isz(a.num) else a.num*(D//a.den), (I(b.num)*(D//b.den) if isz(b.num) else b.num*(D//b.den)), D
def q_arith(op,a,b):
    if op in ('add','sub'):
        x,y,D=common(a,b); r=x+y if op=='add' else x-y; return QV(simp(r) if isz(r) else r, D)
    if op=='mul':
        a=toQ(a); b=toQ(b); r=a.num*b.num; return QV(simp(r) if isz(r) else r, a.den*b.den)
    raise NotImplementedError(op)
def q_cmp(f,a,b):
    x,y,D=common(a,b); return f(x,y)
def fmod_int(a,b,Q):
    """truncated fmod on ints, b>0, |a|<(Q+1)*b"""
    cases=[]
    for q in range(-Q,Q+1):
        r=a-q*b
        if q>0: cond=z3.And(r>=0,r<b)
        elif q<0: cond=z3.And(r<=0,r>-b)
        else: cond=z3.And(r>-b,r<b)
        cases.append((cond,r))
    e=cases[0][1]
    for cond,r in cases[1:]: e=z3.If(cond,r,e)
    return e
class QIdx(SIdx):
    def __init__(s,n,elem,den=1): SIdx.__init__(s,n,elem); s.den=den
def qidx(v):
    if isinstance(v,QIdx): return v
    if isinstance(v,SIdx): return QIdx(v.n,v.elem,1)
    return None
def arr_arith(op,a,b):
    A=qidx(a); Bq=qidx(b)
    n=A.n if A else Bq.n
    da=A.den if A else toQ(a).den; db=Bq.den if Bq else toQ(b).den
    if op in ('add','sub'):
        D=da*db//math.gcd(da,db)
        def el(k):
            x=(A.elem(k) if A else toQ(a).num); y=(Bq.elem(k) if Bq else toQ(b).num)
            x=I(x)*(D//da); y=I(y)*(D//db)
            return x+y if op=='add' else x-y
        return QIdx(n,el,D)
    raise NotImplementedError
def arr_cmp(f,a,b):
    A=qidx(a); Bq=qidx(b); n=A.n if A else Bq.n
    da=A.den if A else toQ(a).den; db=Bq.den if Bq else toQ(b).den; D=da*db//math.gcd(da,db)
    def el(k):
        x=(A.elem(k) if A else toQ(a).num); y=(Bq.elem(k) if Bq else toQ(b).num)
        return f(I(x)*(D//da), I(y)*(D//db))
    return QIdx(n,el,1)
