# Feasibility: kernel equality of afb1d(symmetric) vs pywt spec for symbolic N, concrete L, symbolic taps
import z3, time, sys
def sym_ext(k, N, Q):
    # symmetric (half-sample) extension index via bounded reflections: k in [-Q*N, (Q+1)*N)
    # r = k mod 2N ; r<N ? r : 2N-1-r   -- encode with case split on quotient q in [-Q..Q]
    e = None
    # build ite chain over q
    expr = z3.IntVal(-1)
    for q in range(-Q, Q+1):
        r = k - 2*q*N
        inr = z3.And(r >= 0, r < 2*N)
        val = z3.If(r < N, r, 2*N-1-r)
        expr = z3.If(inr, val, expr)
    return expr
def run(L, mutate=False):
    N,i,m = z3.Ints('N i m')
    h = [z3.Real('h%d'%t) for t in range(L)]     # dec_lo taps
    s = z3.Solver()
    s.add(N >= 2, m >= 0, m < N)
    outlen = (N + L - 1)/2   # int div
    s.add(i >= 0, i < outlen)
    # code: p = 2*(outlen-1) - N + L ; pad left p//2, right (p+1)//2 ; xpad[k] = x[symext(k - pl)]
    p = 2*(outlen-1) - N + L
    pl = p/2 if not mutate else (p+1)/2
    Q = L  # N>=2 => |k| < L+N... number of reflections bounded by L/ N*... use L//2+1
    Q = L//2 + 1
    # conv2d (correlation) with reversed filter hr[t] = h[L-1-t], stride 2: out[i] = sum_t hr[t]*xpad[2i+t]
    code = z3.Sum([z3.If(sym_ext(2*i + t - pl, N, Q) == m, h[L-1-t], 0) for t in range(L)])
    # spec (pywt): out[i] = sum_u h[u]*xext[2i+1-u]
    spec = z3.Sum([z3.If(sym_ext(2*i + 1 - u, N, Q) == m, h[u], 0) for u in range(L)])
    s.add(code != spec)
    t0=time.time(); r=s.check(); dt=time.time()-t0
    print('L',L,'mutate',mutate,r,'%.2fs'%dt, (s.model()[N], s.model()[i], s.model()[m]) if r==z3.sat else '')
for L in [2,4,8,12,20]:
    run(L); run(L,True)
