import torch, numpy as np, collections, warnings, itertools
warnings.filterwarnings('ignore')
torch.set_default_dtype(torch.float64)
from pytorch_wavelets import DTCWTForward, DTCWTInverse
import dtcwt
biorts=['antonini','legall','near_sym_a','near_sym_b']; qs=['qshift_06','qshift_a','qshift_b','qshift_c','qshift_d']
res=collections.Counter(); ex={}
sizes=[(2,2),(3,5),(4,4),(6,10),(7,9),(12,20),(16,16),(18,22),(33,20),(50,37),(64,48)]
for b,q in itertools.product(biorts,qs):
    ref=dtcwt.Transform2d(biort=b,qshift=q)
    for J in [1,2,3,4]:
        f=DTCWTForward(biort=b,qshift=q,J=J); fi=DTCWTInverse(biort=b,qshift=q)
        for (H,W) in sizes:
            x=np.random.randn(H,W)
            try: p=ref.forward(x,nlevels=J)
            except Exception as e: res[('ref-raise',)]+=1; ex.setdefault(('ref-raise',),(b,q,J,H,W,repr(e)[:80])); continue
            try: yl,yh=f(torch.tensor(x)[None,None])
            except Exception as e: res[('raise',J)]+=1; ex.setdefault(('raise',J),(b,q,J,H,W,repr(e)[:80])); continue
            ok = tuple(yl.shape[2:])==p.lowpass.shape and all(tuple(yh[j].shape[3:5])==p.highpasses[j].shape[:2] for j in range(J))
            if not ok: res[('shape',J)]+=1; ex.setdefault(('shape',J),(b,q,J,H,W)); continue
            e=np.abs(yl[0,0].numpy()-p.lowpass).max()
            for j in range(J):
                hp=p.highpasses[j]
                e=max(e,np.abs(yh[j][0,0,...,0].numpy()-hp.real.transpose(2,0,1)).max(),np.abs(yh[j][0,0,...,1].numpy()-hp.imag.transpose(2,0,1)).max())
            k=('C03','bad' if e>1e-9 else 'ok'); res[k]+=1; ex.setdefault(k,(b,q,J,H,W,e))
            # C04 PR
            y=fi((yl,yh))
            e=np.abs(y[0,0,:H,:W].numpy()-x).max()
            k=('C04','bad' if e>1e-9 else 'ok', tuple(y.shape[2:])==(H+H%2,W+W%2)); res[k]+=1; ex.setdefault(k,(b,q,J,H,W,e,tuple(y.shape)))
            # C11 inverse on random pyramid of same shapes
            yl2=torch.randn_like(yl); yh2=[torch.randn_like(h) for h in yh]
            P=dtcwt.Pyramid(yl2[0,0].numpy(), tuple((h[0,0,...,0].numpy()+1j*h[0,0,...,1].numpy()).transpose(1,2,0) for h in yh2))
            try: r=ref.inverse(P)
            except Exception as e_: res[('C11','ref-raise')]+=1; continue
            y=fi((yl2,yh2))
            if tuple(y.shape[2:])!=r.shape: res[('C11','shape')]+=1; ex.setdefault(('C11','shape'),(b,q,J,H,W,tuple(y.shape),r.shape)); continue
            e=np.abs(y[0,0].numpy()-r).max(); k=('C11','bad' if e>1e-9 else 'ok'); res[k]+=1; ex.setdefault(k,(b,q,J,H,W,e))
for k,v in sorted(res.items(),key=str): print(k,v,ex.get(k))
