import torch, numpy as np, collections, warnings, itertools, logging, pywt
warnings.filterwarnings('ignore'); logging.disable(logging.CRITICAL)
torch.set_default_dtype(torch.float64)
from pytorch_wavelets import *
from pytorch_wavelets.dtcwt import coeffs as C
res=collections.Counter(); ex={}
orth=[w for w in pywt.wavelist(kind='discrete') if pywt.Wavelet(w).orthogonal]
print(len(orth), 'orth wavelets; dmey orthogonal?', pywt.Wavelet('dmey').orthogonal)
for w in orth:
    L=pywt.Wavelet(w).dec_len
    if L>40: continue
    for J in [1,2]:
        for m in [1,3]:
            N=max(L,2)* 2**(J-1); N=N+ (N% 2**J and (2**J - N%2**J)); N*=m
            # need N/2^(J-1) >= L and N multiple of 2^J
            f=DWT1DForward(J=J,wave=w,mode='periodization'); fi=DWT1DInverse(wave=w,mode='periodization')
            cols=[]
            for k in range(N):
                x=torch.zeros(1,1,N); x[0,0,k]=1; lo,hi=f(x); cols.append(torch.cat([lo.flatten()]+[h.flatten() for h in hi]))
            A=torch.stack(cols,1)
            e=(A.T@A-torch.eye(N)).abs().max().item()
            k=('orth','ok' if e<1e-6 else 'bad'); res[k]+=1; 
            if e>=1e-6: ex.setdefault(k,[]).append((w,J,N,e))
            ex[('maxerr',)]=max(ex.get(('maxerr',),0),e)
for k,v in sorted(res.items(),key=str): print(k,v,ex.get(k))
print(ex[('maxerr',)])
for n in ['farras','near_sym_a2']:
    for fn in [C.qshift, C.biort, lambda n: C.level1(n)]:
        try: t=fn(n); print(n,'loads', len(t))
        except Exception as e: print(n,'ERR',repr(e)[:80])
a=C.qshift('qshift_a')[0]; b=C.qshift('qshift_a')[0]; print('same object from cache:', a is b)
