"""Probe: symbolically execute the REAL dtcwt.lowlevel.coldfilt (symbolic rows r, cols c, channels ch) and cross-check the kernel numerically"""
import z3, time, sys, os, math, json, subprocess, fractions
import qv
from symx import *; from interp import *
import interp, run_sym, symx
from run_afb1d import explore
FNS.update(parse('pytorch_wavelets/dtcwt/lowlevel.py'))
EXT=z3.Function('ext_sym', z3.IntSort(), z3.IntSort(), z3.IntSort())
# contract of symm_pad_1d (alias symm_pad in dtcwt.lowlevel)
def symm_pad(l,m):
    return SIdx(simp(I(l)+2*I(m)), lambda k: EXT(I(k)-I(m), I(l)))
interp.GLOBALS['symm_pad']=symm_pad
# SIdx slicing
def sidx_get(ctx,xe,sl):
    a,st,ln=norm_slice(ctx,sl,xe.n)
    return SIdx(simp(ln), lambda k: xe.elem(I(a)+st*I(k)))
old_sub=Interp.e_Subscript
def e_Subscript(s,n,env):
    v=s.ev(n.value,env)
    if isinstance(v,SIdx):
        return sidx_get(s.ctx,v,s.ev(n.slice,env))
    return old_sub(s,n,env)
Interp.e_Subscript=e_Subscript
def repeat(ctx,x,*reps):
    sn=x.snap(); shape=[simp(I(d)*r) if not (isinstance(d,int) and isinstance(r,int)) else d*r for d,r in zip(x.shape,reps)]
    def elem(idx): return sn([ (i if (isinstance(r,int) and r==1) else (0 if (isinstance(d,int) and d==1) else I(i)%I(d))) for i,d,r in zip(idx,x.shape,reps)])
    return STensor(shape,elem,x.dtype)
def t_stack(ctx,ts,dim=0):
    ts=list(ts); r=ts[0].ndim+1; dim%=r; snaps=[t.snap() for t in ts]
    shape=list(ts[0].shape); shape.insert(dim,len(ts))
    def elem(idx):
        k=idx[dim]; rest=list(idx[:dim])+list(idx[dim+1:]); out=ZERO
        for q,sn in enumerate(snaps): out=out+sn(rest).guard(I(k)==q)
        return out
    return STensor(shape,elem,ts[0].dtype)
def view(ctx,x,*shape):
    """merge/split of adjacent axes where inner extents are concrete; leading/trailing axes must match provably"""
    old=list(x.shape); new=list(shape)
    s=z3.Solver(); s.add(*ctx.pc)
    def eq(a,b):
        s.push(); s.add(I(a)!=I(b)); r=s.check()==z3.unsat; s.pop(); return r
    # align from the left
    i=j=0; plan=[]
    while i<len(old) and j<len(new):
        if eq(old[i],new[j]): plan.append(('same',i,j)); i+=1; j+=1
        elif i+1<len(old) and isinstance(old[i+1],int) and eq(I(old[i])*old[i+1],new[j]): plan.append(('merge',i,j,old[i+1])); i+=2; j+=1
        elif j+1<len(new) and isinstance(new[j+1],int) and eq(I(new[j])*new[j+1],old[i]): plan.append(('split',i,j,new[j+1])); i+=1; j+=2
        else: raise NotImplementedError(f'view {old}->{new}')
    assert i==len(old) and j==len(new)
    sn=x.snap()   # view of a fresh contiguous tensor: value semantics suffice here
    def elem(idx):
        src=[None]*len(old)
        for p in plan:
            if p[0]=='same': src[p[1]]=idx[p[2]]
            elif p[0]=='merge': src[p[1]]=I(idx[p[2]])/p[3]; src[p[1]+1]=I(idx[p[2]])%p[3]
            else: src[p[1]]=I(idx[p[2]])*p[3]+I(idx[p[2]+1])
        return sn(src)
    return STensor(new,elem,x.dtype)
interp.TENSOR_METHODS.update({'repeat':repeat,'view':view})
interp.GLOBALS['torch'].d.update({'stack':lambda ts,dim=0: t_stack(CUR.ctx,ts,dim),'Size':lambda l: tuple(l),'zeros':None})
interp.GLOBALS['NotImplementedError']=NotImplementedError; interp.GLOBALS['ValueError']=ValueError
def main(m,highpass):
    B,CH,R,Cc,Mr,n,ch,j = z3.Ints('B CH R Cc Mr n ch j')
    base=[B>=1,CH>=1,R>=4,R%4==0,Cc>=1,Mr>=0,Mr<R,n>=0,n<B,ch>=0,ch<CH,j>=0,j<Cc]
    ha=[z3.Real(f'ha_{u}') for u in range(m)]; hb=[z3.Real(f'hb_{u}') for u in range(m)]
    def mk():
        X=STensor((B,CH,R,Cc), lambda idx: GS([(z3.And(idx[0]==n,idx[1]==ch,idx[2]==Mr,idx[3]==j), z3.RealVal(1))]))
        fa=STensor((1,1,m,1), lambda idx: GS([(idx[2]==t, ha[t]) for t in range(m)]))
        fb=STensor((1,1,m,1), lambda idx: GS([(idx[2]==t, hb[t]) for t in range(m)]))
        return [X,fa,fb],{'highpass':highpass}
    t0=time.time(); res=explore('coldfilt',mk,base)
    print(f'coldfilt m={m} highpass={highpass}: paths={len(res)}', [k for _,(k,_) in res], f'{time.time()-t0:.2f}s')
    ctx,(kind,Y)=[r for r in res if r[1][0]=='ret'][0]
    print('  out shape', [str(z3.simplify(I(d))) for d in Y.shape])
    # numeric cross-check of the kernel against the real function: instantiate R, positions; ext_sym concrete
    P=z3.Int('P'); ker=Y.elem([n,ch,P,j]).z3()
    Rv=12
    def ext(k,l):
        k%=2*l; return k if k<l else 2*l-1-k
    import numpy as np
    rng=np.random.default_rng(0); hav=rng.standard_normal(m); hbv=rng.standard_normal(m)
    K=np.zeros((Rv//2,Rv))
    extdef=[EXT(z3.IntVal(k),z3.IntVal(Rv))==ext(k,Rv) for k in range(-3*m,Rv+3*m)]
    for p in range(Rv//2):
        for mm in range(Rv):
            s=z3.Solver(); s.add(*extdef); s.add(B==1,CH==2,R==Rv,Cc==3,n==0,ch==1,j==2,P==p,Mr==mm); s.add(*[ha[t]==z3.RealVal(str(fractions.Fraction(hav[t]))) for t in range(m)]); s.add(*[hb[t]==z3.RealVal(str(fractions.Fraction(hbv[t]))) for t in range(m)])
            v=z3.Real('v'); s.add(v==ker); assert s.check()==z3.sat
            K[p,mm]=float(s.model()[v].as_fraction())
    code=f'''
import torch,json,numpy as np
torch.set_default_dtype(torch.float64)
from pytorch_wavelets.dtcwt.lowlevel import coldfilt
ha=torch.tensor({hav.tolist()}).reshape(1,1,{m},1); hb=torch.tensor({hbv.tolist()}).reshape(1,1,{m},1)
K=[]
for mm in range({Rv}):
    X=torch.zeros(1,2,{Rv},3); X[0,1,mm,2]=1
    K.append(coldfilt(X,ha,hb,{highpass})[0,1,:,2].tolist())
print(json.dumps(K))
'''
    out=subprocess.run(['/venv/bin/python','-c',code],capture_output=True,text=True)
    Kreal=np.array(json.loads(out.stdout.strip().splitlines()[-1])).T
    print('  kernel cross-check vs real torch: max abs diff', np.abs(K-Kreal).max(), 'nonzeros', int((np.abs(Kreal)>0).sum()))
main(10,False); main(14,True)
